//go:build verif

package nebula

import (
	"bytes"
	"crypto/rand"
	"encoding/binary"
	"encoding/hex"
	"errors"
	"fmt"
	"net/netip"
	"os"
	"runtime"
	"sort"
	"strconv"
	"strings"
	"sync"
	"sync/atomic"
	"testing"

	"github.com/flynn/noise"
	"github.com/slackhq/nebula/cert"
	ct "github.com/slackhq/nebula/cert_test"
	"github.com/slackhq/nebula/handshake"
	"github.com/slackhq/nebula/header"
	"github.com/slackhq/nebula/noiseutil"
	"github.com/slackhq/nebula/zzverif/mc"
	"github.com/slackhq/nebula/zzverif/vtime"
)

// C05 — a handshake completes only with an authenticated peer.
//
// Explicit-state BFS by replay (E2): a state is the event history that reaches it, every history is executed on FRESH
// real objects.
//
//   part 1  handshake.Machine through its exported API. Participants: honest A, B, C; X (expired certificate), U
//           (certificate of an untrusted CA), K (blocklisted certificate), W (valid certificate, but the Noise static
//           private key does not belong to the certified public key) — all run the real Machine with their credential —
//           and the adversary M, implemented on flynn/noise directly (own static key, free choice of the transmitted
//           static key and of the payload: own certificate, someone else's handshake certificate bytes, someone else's
//           complete certificate with the key embedded, wrong version tags). A *cast* (multiset of 2..6 machines = up to
//           three concurrent sessions, the initiators already started) is the root of one search; events are: deliver any pool message to any machine
//           (reorder, replay, cross-session), deliver a structural mutant (header fields, truncation at region
//           boundaries, one bit per region, region splices of two pool messages) and M's crafted stage-1 / stage-2
//           messages. Starting a machine commutes with every other event (it reads nothing another event writes), so
//           fixing the cast up front loses no interleaving. Additionally every truncation length and every single-bit
//           flip of both genuine messages is delivered at depth 1.
//   part 2  the same kinds of messages through the real HandshakeManager of driven nodes (E4 assembly): victim V and
//           honest B are real nodes, the other identities are stubs; after every event every hostmap entry of V and B is
//           judged.
//
// Oracle (independent of the code under test): identities and their trust status are known by construction (which CA
// signed, validity window, blocklisted); the static key "proved" is read off the wire (stage 1 carries it in clear) or
// known from the provenance of the consumed bytes (who produced exactly these bytes with which private key).

// ---------------------------------------------------------------------------------------------------------------------
// world

type c05Ident struct {
	name string
	crt  cert.Certificate
	full []byte // complete certificate (public key embedded)
	hsb  []byte // certificate as sent in handshakes (no public key)
	priv []byte // private key used as Noise static key
	pub  []byte // certified public key
	cred *handshake.Credential
	fp   string
	// construction facts — the independent trust rule reads only these
	byTrustedCA bool
	nb, na      vtime.Time
	holdsKey    bool // priv really is the private half of pub
}

func (p *c05Ident) get(v cert.Version) *handshake.Credential {
	if v == cert.Version2 {
		return p.cred
	}
	return nil
}

type c05World struct {
	curve      cert.Curve
	cipher     string
	ncs        noise.CipherSuite
	d          int
	ca         cert.Certificate
	caFP       string
	caNB, caNA vtime.Time
	ids        map[string]*c05Ident
	byFull     map[string]*c05Ident
	byPub      map[string]*c05Ident
	pool       *cert.CAPool // trusted CA, K blocklisted (read-only after minting: shared by every machine's verifier)
	plain      *cert.CAPool // trusted CA, nothing blocklisted
}

func (w *c05World) name() string { return fmt.Sprintf("%s/%s", w.curve, w.cipher) }

// c05Trust is the trust configuration of one verifying party: which CA fingerprint it trusts and which certificate
// fingerprints it blocks.
type c05Trust struct {
	blocked map[string]bool
}

func c05MintIdent(w *c05World, name, certName, addr string, signer cert.Certificate, signerKey []byte, trusted bool, nb, na vtime.Time) *c05Ident {
	c, pub, keyPEM, _ := ct.NewTestCert(cert.Version2, w.curve, signer, signerKey, certName, nb, na, []netip.Prefix{netip.MustParsePrefix(addr)}, nil, nil)
	priv, _, _, err := cert.UnmarshalPrivateKeyFromPEM(keyPEM)
	if err != nil {
		panic("c05: private key: " + err.Error())
	}
	hsb, err := c.MarshalForHandshakes()
	if err != nil {
		panic("c05: MarshalForHandshakes: " + err.Error())
	}
	full, err := c.Marshal()
	if err != nil {
		panic("c05: Marshal: " + err.Error())
	}
	fp, err := c.Fingerprint()
	if err != nil {
		panic("c05: Fingerprint: " + err.Error())
	}
	p := &c05Ident{name: name, crt: c, full: full, hsb: hsb, priv: priv, pub: append([]byte{}, pub...), fp: fp, byTrustedCA: trusted,
		nb: vtime.Unix(nb.Unix(), 0), na: vtime.Unix(na.Unix(), 0), holdsKey: true}
	p.cred = handshake.NewCredential(c, hsb, priv, w.ncs)
	w.ids[name] = p
	w.byFull[string(full)] = p
	w.byPub[string(pub)] = p
	return p
}

// c05Mint builds the certificates of one (curve, cipher). ca/caKey may be given (part 2 shares the CA of the E4 PKI).
func c05Mint(curve cert.Curve, cipher string, ca cert.Certificate, caKey []byte, caNB, caNA vtime.Time, addrOf func(string) string, certNameOf func(string) string) (*c05World, error) {
	ncs, err := newCipherSuite(curve, false, cipher, false)
	if err != nil {
		return nil, err
	}
	w := &c05World{curve: curve, cipher: cipher, ncs: ncs, d: ncs.DHLen(), ids: map[string]*c05Ident{}, byFull: map[string]*c05Ident{}, byPub: map[string]*c05Ident{}}
	if ca == nil {
		caNB, caNA = vtime.Epoch.Add(-10*365*24*vtime.Hour), vtime.Epoch.Add(10*365*24*vtime.Hour)
		ca, _, caKey, _ = ct.NewTestCaCert(cert.Version2, curve, caNB, caNA, nil, nil, nil)
	}
	w.ca, w.caNB, w.caNA = ca, vtime.Unix(caNB.Unix(), 0), vtime.Unix(caNA.Unix(), 0)
	if w.caFP, err = ca.Fingerprint(); err != nil {
		return nil, err
	}
	caU, _, caUKey, _ := ct.NewTestCaCert(cert.Version2, curve, caNB, caNA, nil, nil, nil)
	nb, na := vtime.Epoch.Add(-vtime.Hour), vtime.Epoch.Add(5*365*24*vtime.Hour)
	for _, n := range []string{"A", "B", "C", "K", "M", "W"} {
		c05MintIdent(w, n, certNameOf(n), addrOf(n), ca, caKey, true, nb, na)
	}
	c05MintIdent(w, "X", certNameOf("X"), addrOf("X"), ca, caKey, true, nb, vtime.Epoch.Add(-vtime.Minute))   // expired
	c05MintIdent(w, "Y", certNameOf("Y"), addrOf("Y"), ca, caKey, true, nb, vtime.Epoch.Add(90*vtime.Minute)) // expires 90 minutes after Epoch
	c05MintIdent(w, "U", certNameOf("U"), addrOf("U"), caU, caUKey, false, nb, na)                            // untrusted CA
	// W: a valid certificate, used with a private key that is not the private half of the certified key
	other := c05MintIdent(w, "W-other", "c05-w-other", addrOf("W"), ca, caKey, true, nb, na)
	delete(w.ids, "W-other")
	delete(w.byFull, string(other.full))
	delete(w.byPub, string(other.pub))
	wi := w.ids["W"]
	wi.priv, wi.holdsKey = other.priv, false
	wi.cred = handshake.NewCredential(wi.crt, wi.hsb, wi.priv, ncs)
	w.pool, w.plain = ct.NewTestCAPool(ca), ct.NewTestCAPool(ca)
	w.pool.BlocklistFingerprint(w.ids["K"].fp)
	return w, nil
}

// trustRule is the independent transcription of the statement's "accepted by the trust check": the certificate must be
// byte-identical to a minted one whose construction facts satisfy the rule at `now` (signed by the trusted CA, CA and
// certificate inside their validity windows, fingerprint not blocked); the certificate's own accessors must agree.
func (w *c05World) trustRule(c cert.Certificate, now vtime.Time, tr c05Trust) (*c05Ident, string) {
	if c == nil {
		return nil, "no certificate"
	}
	full, err := c.Marshal()
	if err != nil {
		return nil, "certificate does not marshal"
	}
	id := w.byFull[string(full)]
	switch {
	case id == nil:
		return nil, "a certificate nobody was issued (not byte-identical to any minted certificate)"
	case !id.byTrustedCA:
		return id, "signed by an untrusted CA"
	case now.Before(w.caNB) || now.After(w.caNA):
		return id, "CA outside its validity window"
	case now.Before(id.nb) || now.After(id.na):
		return id, "expired (outside its validity window)"
	case tr.blocked[id.fp]:
		return id, "blocklisted"
	}
	// second opinion through the certificate's accessors
	fp, _ := c.Fingerprint()
	switch {
	case c.IsCA():
		return id, "a CA certificate"
	case c.Issuer() != w.caFP:
		return id, "issuer is not the trusted CA"
	case !c.CheckSignature(w.ca.PublicKey()):
		return id, "signature does not verify under the trusted CA"
	case now.Before(c.NotBefore()) || now.After(c.NotAfter()):
		return id, "expired (accessors)"
	case tr.blocked[fp]:
		return id, "blocklisted (accessors)"
	}
	return id, ""
}

// ---------------------------------------------------------------------------------------------------------------------
// message regions and the structural mutation alphabet

func c05Regions(stage, d, n int) (eOff, sOff, pOff int) {
	eOff, sOff = header.Len, header.Len+d
	pOff = sOff + d
	if stage == 2 {
		pOff += 16
	}
	return
}

func c05Stage(b []byte) int {
	if len(b) >= header.Len && binary.BigEndian.Uint64(b[8:16]) == 2 {
		return 2
	}
	return 1
}

type c05Mut struct {
	label  string
	class  string
	needs2 bool
	rep    bool // member of the reduced alphabet (quick tier, manager level)
	f      func(a, b []byte, d int) []byte
}

func c05Clone(b []byte) []byte { return append([]byte{}, b...) }

func c05Muts() []c05Mut {
	var out []c05Mut
	add := func(label, class string, needs2, rep bool, f func(a, b []byte, d int) []byte) {
		out = append(out, c05Mut{label, class, needs2, rep, f})
	}
	add("raw", "raw", false, true, func(a, _ []byte, _ int) []byte { return c05Clone(a) })
	add("header: index^=0x5a5a5a5a, counter swapped 1<->2", "header: index/counter", false, true, func(a, _ []byte, _ int) []byte {
		x := c05Clone(a)
		binary.BigEndian.PutUint32(x[4:8], binary.BigEndian.Uint32(x[4:8])^0x5a5a5a5a)
		binary.BigEndian.PutUint64(x[8:16], 3-binary.BigEndian.Uint64(x[8:16]))
		return x
	})
	add("header: type nibble flipped", "header: version/type", false, false, func(a, _ []byte, _ int) []byte {
		x := c05Clone(a)
		x[0] ^= 0x01
		return x
	})
	add("header: subtype := 1", "header: subtype", false, true, func(a, _ []byte, _ int) []byte {
		x := c05Clone(a)
		x[1] = 1
		return x
	})
	cut := func(label string, rep bool, at func(eOff, sOff, pOff, n int) int) {
		add("truncate "+label, "truncate "+label, false, rep, func(a, _ []byte, d int) []byte {
			_, sOff, pOff := c05Regions(c05Stage(a), d, len(a))
			k := at(header.Len, sOff, pOff, len(a))
			if k < 0 {
				k = 0
			}
			if k > len(a) {
				k = len(a)
			}
			return c05Clone(a[:k])
		})
	}
	cut("to 0 bytes", false, func(_, _, _, _ int) int { return 0 })
	cut("inside the header", false, func(_, _, _, _ int) int { return header.Len - 1 })
	cut("after the header", true, func(e, _, _, _ int) int { return e })
	cut("inside e", false, func(e, _, _, _ int) int { return e + 1 })
	cut("after e", true, func(_, s, _, _ int) int { return s })
	cut("inside s", false, func(_, s, _, _ int) int { return s + 1 })
	cut("after s", true, func(_, _, p, _ int) int { return p })
	cut("inside the payload", false, func(_, _, p, n int) int { return (p + n) / 2 })
	cut("before the last 16 bytes", false, func(_, _, _, n int) int { return n - 16 })
	cut("last byte", true, func(_, _, _, n int) int { return n - 1 })
	flip := func(label, class string, rep bool, at func(eOff, sOff, pOff, n int) int) {
		add("flip one bit: "+label, "flip: "+class, false, rep, func(a, _ []byte, d int) []byte {
			_, sOff, pOff := c05Regions(c05Stage(a), d, len(a))
			k := at(header.Len, sOff, pOff, len(a))
			x := c05Clone(a)
			if k >= 0 && k < len(x) {
				x[k] ^= 0x04
			}
			return x
		})
	}
	flip("last byte of e", "e", true, func(_, s, _, _ int) int { return s - 1 })
	flip("second byte of s", "s", true, func(_, s, _, _ int) int { return s + 1 })
	flip("last byte of s", "s", false, func(_, _, p, _ int) int { return p - 1 })
	flip("third byte of the payload", "payload", true, func(_, _, p, _ int) int { return p + 2 })
	flip("middle of the payload", "payload", false, func(_, _, p, n int) int { return (p + n) / 2 })
	flip("last byte", "payload", true, func(_, _, _, n int) int { return n - 1 })
	// splices of two pool messages
	region := func(x []byte, d int, which string) []byte {
		if len(x) < header.Len {
			return nil
		}
		e, s, p := c05Regions(c05Stage(x), d, len(x))
		if len(x) < p {
			return nil
		}
		switch which {
		case "h":
			return x[:e]
		case "e":
			return x[e:s]
		case "s":
			return x[s:p]
		}
		return x[p:]
	}
	splice := func(label string, rep bool, parts string) { // parts: for each of h,e,s,p 'a' or 'b'
		add("splice: "+label, "splice: "+label, true, rep, func(a, b []byte, d int) []byte {
			var x []byte
			for i, r := range []string{"h", "e", "s", "p"} {
				src := a
				if parts[i] == 'b' {
					src = b
				}
				x = append(x, region(src, d, r)...)
			}
			return x
		})
	}
	splice("e of the other message", false, "abaa")
	splice("s of the other message", true, "aaba")
	splice("payload of the other message", true, "aaab")
	splice("e and s of the other message", false, "abba")
	splice("body of the other message under this header", true, "abbb")
	return out
}

// ---------------------------------------------------------------------------------------------------------------------
// the adversary M on flynn/noise

// c05Craft1 builds a stage-1 datagram: static key pair (priv, pub as transmitted) and payload of M's choosing.
func (w *c05World) craft1(priv, pub, payload []byte) []byte {
	hs, err := noise.NewHandshakeState(noise.Config{CipherSuite: w.ncs, Random: rand.Reader, Pattern: noise.HandshakeIX, Initiator: true,
		StaticKeypair: noise.DHKey{Private: priv, Public: pub}, PresharedKey: []byte{}})
	if err != nil {
		panic("c05 craft1: " + err.Error())
	}
	out := make([]byte, header.Len, 1024)
	header.Encode(out, header.Version, header.Handshake, header.HandshakeIXPSK0, 0, 1)
	out, _, _, err = hs.WriteMessage(out, payload)
	if err != nil {
		panic("c05 craft1 write: " + err.Error())
	}
	return out
}

// craft2 answers the stage-1 datagram s1 as a responder with the given static key pair and payload. Returns the
// datagram and M's two transport keys (c1 = initiator->responder).
func (w *c05World) craft2(s1 []byte, priv, pub []byte, payload func(initiatorIndex uint32) []byte) (out []byte, c1, c2 *noise.CipherState, ok bool) {
	hs, err := noise.NewHandshakeState(noise.Config{CipherSuite: w.ncs, Random: rand.Reader, Pattern: noise.HandshakeIX, Initiator: false,
		StaticKeypair: noise.DHKey{Private: priv, Public: pub}, PresharedKey: []byte{}})
	if err != nil {
		panic("c05 craft2: " + err.Error())
	}
	if len(s1) < header.Len {
		return nil, nil, nil, false
	}
	body, _, _, err := hs.ReadMessage(nil, s1[header.Len:])
	if err != nil {
		return nil, nil, nil, false
	}
	p1, err := handshake.UnmarshalPayload(body)
	if err != nil {
		return nil, nil, nil, false
	}
	out = make([]byte, header.Len, 1024)
	header.Encode(out, header.Version, header.Handshake, header.HandshakeIXPSK0, p1.InitiatorIndex, 2)
	out, c1, c2, err = hs.WriteMessage(out, payload(p1.InitiatorIndex))
	if err != nil {
		return nil, nil, nil, false
	}
	return out, c1, c2, true
}

// c05Variant is one choice of M: which static key it transmits and what it puts in the payload.
type c05Variant struct {
	label    string
	pubOf    string // identity whose PUBLIC key is transmitted as static key ("M" = M's own); the private key is always M's
	certOf   string // identity whose certificate bytes go into the payload
	fullCert bool   // send the complete certificate (public key embedded) instead of the handshake form
	version  uint32
	noCert   bool
	rep      bool
	legit    bool // M acting as itself: must be accepted, reporting M's certificate
}

func c05Variants() []c05Variant {
	return []c05Variant{
		{label: "M as itself (own key, own certificate)", pubOf: "M", certOf: "M", version: 2, rep: true, legit: true},
		{label: "M's key with A's handshake certificate bytes", pubOf: "M", certOf: "A", version: 2, rep: true},
		{label: "M's key with A's complete certificate (A's public key embedded)", pubOf: "M", certOf: "A", fullCert: true, version: 2, rep: true},
		{label: "M's key with C's complete certificate (C's public key embedded)", pubOf: "M", certOf: "C", fullCert: true, version: 2, rep: true},
		{label: "A's public key transmitted (M holds no private key for it) with A's certificate", pubOf: "A", certOf: "A", version: 2, rep: true},
		{label: "M's own certificate under version tag 1", pubOf: "M", certOf: "M", version: 1, rep: true},
		{label: "M's own certificate under version tag 0", pubOf: "M", certOf: "M", version: 0},
		{label: "M's own certificate under version tag 3", pubOf: "M", certOf: "M", version: 3},
		{label: "M's key with the expired certificate of X", pubOf: "M", certOf: "X", version: 2},
		{label: "M's key, payload without certificate", pubOf: "M", certOf: "M", version: 2, noCert: true, rep: true},
		{label: "M's own complete certificate (key embedded)", pubOf: "M", certOf: "M", fullCert: true, version: 2},
	}
}

func (w *c05World) variantPayload(v c05Variant, initiatorIndex, responderIndex uint32) []byte {
	id := w.ids[v.certOf]
	p := handshake.Payload{Cert: id.hsb, InitiatorIndex: initiatorIndex, ResponderIndex: responderIndex, Time: 77, CertVersion: v.version}
	if v.fullCert {
		p.Cert = id.full
	}
	if v.noCert {
		p.Cert = nil
	}
	return handshake.MarshalPayload(nil, p)
}

// ---------------------------------------------------------------------------------------------------------------------
// part 1: simulation of one cast

type c05Role struct {
	id   string
	init bool
}

func (r c05Role) String() string {
	if r.init {
		return r.id + "->"
	}
	return r.id + "<-"
}

type c05VCall struct {
	pub      []byte
	accepted *cert.CachedCertificate
	err      error
}

type c05Mach struct {
	idx    int
	id     *c05Ident
	init   bool
	m      *handshake.Machine
	vcalls []c05VCall
	status string // idle | initiated | done | failed
	res    *handshake.Result
	peer   string // identity reported on completion
	via    string
	sent   int // pool index of the stage 1 it sent (initiator) / stage 2 it produced (responder), -1
}

type c05Msg struct {
	b     []byte
	stage int
	prod  int  // producing machine
	reply int  // stage 2: pool index of the stage 1 whose body the producer consumed (-1: a body nobody sent)
	exact bool // stage 2: the producer consumed exactly that body (not a variant of it)
}

type c05Ev struct {
	K    byte // 'd' deliver pool message (possibly mutated), '1' M crafts a stage 1, '2' M answers pool stage 1 Msg
	Tgt  int
	Msg  int
	Mut  int
	Msg2 int
	Var  int
}

type c05Stats struct {
	mu        sync.Mutex
	n         map[string]int64
	viol      atomic.Int64
	deliver   atomic.Int64
	results   atomic.Int64
	histories atomic.Int64
}

func (st *c05Stats) inc(k string) {
	st.mu.Lock()
	st.n[k]++
	st.mu.Unlock()
}

// c05Tally wraps the shared statistics; while a history's prefix is being replayed (quiet) nothing is counted, so every
// number in the evidence counts explored transitions, not replays of them.
type c05Tally struct {
	st    *c05Stats
	quiet bool
}

func (t *c05Tally) inc(k string) {
	if !t.quiet {
		t.st.inc(k)
	}
}
func (t *c05Tally) delivered() {
	if !t.quiet {
		t.st.deliver.Add(1)
	}
}
func (t *c05Tally) judged() {
	if !t.quiet {
		t.st.results.Add(1)
	}
}

type c05Sim struct {
	c     *mc.Check
	st    *c05Stats
	tl    c05Tally
	w     *c05World
	now   vtime.Time
	tr    c05Trust
	pool  *cert.CAPool
	cast  []c05Role
	mach  []*c05Mach
	msgs  []c05Msg
	muts  []c05Mut
	vars  []c05Variant
	trace []string
}

func c05ErrClass(err error) string {
	switch {
	case err == nil:
		return "ok"
	case errors.Is(err, cert.ErrExpired):
		return "expired"
	case errors.Is(err, cert.ErrCaNotFound):
		return "unknown CA"
	case errors.Is(err, cert.ErrBlockListed):
		return "blocklisted"
	case errors.Is(err, cert.ErrSignatureMismatch):
		return "signature mismatch"
	}
	return "other: " + err.Error()
}

func c05NewSim(c *mc.Check, st *c05Stats, w *c05World, cast []c05Role, muts []c05Mut, vars []c05Variant) *c05Sim {
	s := &c05Sim{c: c, st: st, tl: c05Tally{st: st}, w: w, now: vtime.Epoch, cast: cast, muts: muts, vars: vars}
	s.tr = c05Trust{blocked: map[string]bool{w.ids["K"].fp: true}}
	s.pool = w.pool
	for i, r := range cast {
		mm := &c05Mach{idx: i, id: w.ids[r.id], init: r.init, status: "idle", sent: -1}
		idx := uint32(0x0c050000 + 0x101*(i+1))
		m, err := handshake.NewMachine(cert.Version2, mm.id.get, s.verifier(mm), func() (uint32, error) { return idx, nil }, r.init, header.HandshakeIXPSK0)
		if err != nil {
			panic("c05: NewMachine: " + err.Error())
		}
		mm.m = m
		s.mach = append(s.mach, mm)
	}
	for _, mm := range s.mach {
		if mm.init {
			b, err := mm.m.Initiate(nil)
			if err != nil {
				panic("c05: Initiate: " + err.Error())
			}
			mm.status = "initiated"
			mm.sent = len(s.msgs)
			s.msgs = append(s.msgs, c05Msg{b: b, stage: 1, prod: mm.idx, reply: -1})
		}
	}
	return s
}

func (s *c05Sim) verifier(mm *c05Mach) handshake.CertVerifier {
	return func(c cert.Certificate) (*cert.CachedCertificate, error) {
		cc, err := s.pool.VerifyCertificate(s.now, c)
		mm.vcalls = append(mm.vcalls, c05VCall{pub: append([]byte{}, c.PublicKey()...), accepted: cc, err: err})
		who := "?"
		if id := s.w.byPub[string(c.PublicKey())]; id != nil {
			who = id.name
		}
		role := "responder"
		if mm.init {
			role = "initiator"
		}
		s.tl.inc("verifier: certificate of " + who + " presented to a " + role + " -> " + c05ErrClass(err))
		return cc, err
	}
}

func (s *c05Sim) label(e c05Ev) string {
	switch e.K {
	case 'd':
		l := fmt.Sprintf("deliver msg%d to m%d", e.Msg, e.Tgt)
		if e.Mut != 0 {
			l += " [" + s.muts[e.Mut].label
			if s.muts[e.Mut].needs2 {
				l += fmt.Sprintf(", other = msg%d", e.Msg2)
			}
			l += "]"
		}
		return l
	case '1':
		return fmt.Sprintf("M sends stage 1 to m%d: %s", e.Tgt, s.vars[e.Var].label)
	}
	return fmt.Sprintf("M answers msg%d towards m%d: %s", e.Msg, e.Tgt, s.vars[e.Var].label)
}

func (s *c05Sim) castString() string {
	var p []string
	for i, r := range s.cast {
		p = append(p, fmt.Sprintf("m%d=%s", i, r))
	}
	return strings.Join(p, " ")
}

func (s *c05Sim) violation(sig string, extra map[string]any) {
	if s.st.viol.Add(1) > 200 {
		return
	}
	d := map[string]any{"level": "handshake.Machine", "curve": s.w.curve.String(), "cipher": s.w.cipher, "cast": s.castString(),
		"history": append([]string{}, s.trace...),
		"replay":  "create the machines of `cast` in order (X-> is an initiator of identity X with Initiate called, X<- a responder; indexes msgN number the pool in creation order, initiators' stage-1 messages first), then execute `history`"}
	for k, v := range extra {
		d[k] = v
	}
	s.c.Violation(sig, d)
}

// c05Opens: does a packet sealed with `from` open under `to`?
func c05Opens(from, to noiseutil.CipherState, n uint64) bool {
	ad := []byte{0x11, 0, 0, 0, 0, 0, 0, 1, 0, 0, 0, 0, 0, 0, 0, byte(n)}
	pt := []byte{'c', '0', '5', byte(n)}
	sealed, err := from.EncryptDanger(nil, ad, pt, n, make([]byte, 12))
	if err != nil {
		return false
	}
	got, err := to.DecryptDanger(nil, ad, sealed, n, make([]byte, 12))
	return err == nil && bytes.Equal(got, pt)
}

// c05PairsWith: the initiator-side keys (ie, id) talk to the responder-side keys (re, rd) and to nothing else.
func c05PairsWith(ie, id, re, rd noiseutil.CipherState) string {
	switch {
	case !c05Opens(ie, rd, 5):
		return "initiator->responder traffic does not open"
	case !c05Opens(re, id, 6):
		return "responder->initiator traffic does not open"
	case c05Opens(ie, id, 7):
		return "a side opens its own traffic"
	}
	return ""
}

func c05RoleName(init bool) string {
	if init {
		return "initiator"
	}
	return "responder"
}

// deliver hands pkt to machine mm and evaluates the invariants on whatever comes back.
// prov describes the provenance: crafted != nil for M's messages.
type c05Crafted struct {
	v      c05Variant
	c1, c2 *noise.CipherState
}

func (s *c05Sim) deliver(mm *c05Mach, pkt []byte, src int, crafted *c05Crafted) (outcome string) {
	s.tl.delivered()
	before := mm.status
	ncalls := len(mm.vcalls)
	out, res, err := mm.m.ProcessPacket(nil, c05Clone(pkt))
	role := c05RoleName(mm.init)
	if len(out) > 0 { // a responder's stage 2 joins the pool
		mg := c05Msg{b: c05Clone(out), stage: 2, prod: mm.idx, reply: -1}
		if src >= 0 && s.msgs[src].stage == 1 {
			mg.reply = src // a variant of that message, unless the body is exactly some pool message's body
		}
		for i := range s.msgs {
			if s.msgs[i].stage == 1 && len(pkt) >= header.Len && bytes.Equal(pkt[header.Len:], s.msgs[i].b[header.Len:]) {
				mg.reply, mg.exact = i, true
			}
		}
		mm.sent = len(s.msgs)
		s.msgs = append(s.msgs, mg)
	}
	if res != nil {
		s.tl.judged()
		s.judgeResult(mm, pkt, out, res, err, crafted, before, ncalls)
	}
	switch {
	case res != nil && err == nil:
		outcome = "completed"
	case res != nil:
		outcome = "result+error"
	case err == nil:
		outcome = "accepted, no result"
	case mm.m.Failed():
		outcome = "refused, machine failed"
		if before != "done" {
			mm.status = "failed"
		}
	default:
		outcome = "refused, machine usable"
	}
	if len(mm.vcalls) > ncalls && mm.vcalls[len(mm.vcalls)-1].err != nil && res != nil {
		s.violation("Machine ("+role+") returns a Result although the verifier refused the certificate", map[string]any{"verifier_error": mm.vcalls[len(mm.vcalls)-1].err.Error()})
	}
	return outcome
}

func (s *c05Sim) judgeResult(mm *c05Mach, pkt, out []byte, res *handshake.Result, err error, crafted *c05Crafted, before string, ncalls int) {
	role := c05RoleName(mm.init)
	if before == "done" || before == "failed" {
		s.violation("Machine ("+role+") returns a second Result after it had "+before, nil)
		return
	}
	if err != nil {
		s.violation("Machine ("+role+") returns a Result together with an error", map[string]any{"error": err.Error()})
	}
	// (1) the verifier accepted exactly Result.RemoteCert
	if res.RemoteCert == nil || res.RemoteCert.Certificate == nil {
		s.violation("Machine ("+role+") completes without a peer certificate", nil)
		mm.status, mm.res = "done", res
		return
	}
	if len(mm.vcalls) == 0 {
		s.violation("Machine ("+role+") completes although the verifier was never asked", nil)
	} else if last := mm.vcalls[len(mm.vcalls)-1]; last.err != nil || last.accepted != res.RemoteCert {
		s.violation("Machine ("+role+") reports a certificate other than the one the verifier accepted", map[string]any{"verifier_error": fmt.Sprint(last.err)})
	}
	rc := res.RemoteCert.Certificate
	// (2) the independent trust rule accepts it now
	id, why := s.w.trustRule(rc, s.now, s.tr)
	if why != "" {
		s.violation("Machine ("+role+") completes with a certificate the trust rule refuses: "+why, map[string]any{"certificate_of": c05IdName(id)})
	}
	// (3) the certified key is the static key of the Noise exchange
	var proven []byte   // static public key the peer demonstrably holds the private key for (nil: nobody proved anything)
	var onWire []byte   // static public key transmitted in the consumed message
	var honest *c05Mach // honest machine that produced exactly the consumed bytes
	if !mm.init {
		_, sOff, pOff := c05Regions(1, s.w.d, len(pkt))
		if len(pkt) >= pOff {
			onWire = pkt[sOff:pOff]
		}
		for i := range s.msgs {
			if s.msgs[i].stage == 1 && bytes.Equal(s.msgs[i].b[header.Len:], pkt[header.Len:]) {
				honest = s.mach[s.msgs[i].prod]
			}
		}
		// stage 1 proves nothing yet: possession is only demonstrated by whoever can use the derived keys. What the
		// statement fixes is that the reported certificate carries exactly the static key of the exchange.
		if !bytes.Equal(rc.PublicKey(), onWire) {
			s.violation("Machine (responder) completes with a certificate whose public key is not the static key of the Noise exchange", map[string]any{
				"static_key_on_the_wire": hex.EncodeToString(onWire), "certificate_key": hex.EncodeToString(rc.PublicKey()), "certificate_of": c05IdName(id)})
		}
		if honest != nil && (id == nil || id != honest.id) {
			s.violation("Machine (responder) completes on an honest initiator's bytes but reports another identity", map[string]any{"sender": honest.id.name, "reported": c05IdName(id)})
		}
	} else {
		switch {
		case crafted != nil:
			if crafted.v.pubOf == "M" {
				proven = s.w.ids["M"].pub
			}
		default:
			found := -1
			for i := range s.msgs {
				if s.msgs[i].stage == 2 && bytes.Equal(s.msgs[i].b[header.Len:], pkt[header.Len:]) {
					found = i
				}
			}
			if found < 0 {
				s.violation("Machine (initiator) completes on bytes that no participant produced (forged or spliced stage 2)", nil)
			} else {
				mg := s.msgs[found]
				honest = s.mach[mg.prod]
				if honest.id.holdsKey {
					proven = honest.id.pub
				}
				if mg.reply != mm.sent || !mg.exact {
					s.violation("Machine (initiator) completes on a stage 2 that answers another session's stage 1 (cross-session)", map[string]any{"answers_msg": mg.reply, "own_msg": mm.sent, "exact": mg.exact})
				}
			}
		}
		if proven == nil {
			s.violation("Machine (initiator) completes with a peer that holds no private key for the transmitted static key", map[string]any{"certificate_of": c05IdName(id)})
		} else if !bytes.Equal(rc.PublicKey(), proven) {
			s.violation("Machine (initiator) completes with a certificate whose public key is not the static key the peer proved to hold", map[string]any{
				"proven_static_key_of": c05IdName(s.w.byPub[string(proven)]), "certificate_of": c05IdName(id)})
		}
	}
	// (4) key <-> certificate: the holder of the key is reported with its own certificate, never with someone else's
	if holder := s.w.byPub[string(rc.PublicKey())]; holder == nil || !bytes.Equal(holder.full, c05MustMarshal(rc)) {
		s.violation("Machine ("+role+") reports a certificate that is not the certificate issued for that key", map[string]any{"certificate_of": c05IdName(id)})
	}
	// (5) both sides of the same bytes report each other; the keys are shared with the authenticated peer only
	mine := func() (noiseutil.CipherState, noiseutil.CipherState) {
		return noiseutil.NewCipherState(res.EKey, res.Cipher), noiseutil.NewCipherState(res.DKey, res.Cipher)
	}
	if mm.init && crafted != nil && crafted.c1 != nil {
		ie, idk := mine()
		re, rd := noiseutil.NewCipherState(crafted.c2, s.w.ncs), noiseutil.NewCipherState(crafted.c1, s.w.ncs)
		if why := c05PairsWith(ie, idk, re, rd); why != "" {
			s.violation("Machine (initiator): session keys are not shared with the authenticated peer: "+why, map[string]any{"peer": "M"})
		}
		if id == nil || id.name != "M" {
			s.violation("Machine (initiator) completes with the adversary but reports another identity", map[string]any{"reported": c05IdName(id)})
		}
		s.tl.inc("pairing verified: initiator with M")
	}
	if mm.init && honest != nil && honest.res != nil && honest.res.RemoteCert != nil {
		rid, _ := s.w.trustRule(honest.res.RemoteCert.Certificate, s.now, s.tr)
		if id != honest.id || rid != mm.id {
			s.violation("two sides completed on the same bytes but do not report each other's certificates", map[string]any{
				"initiator": mm.id.name, "initiator_reports": c05IdName(id), "responder": honest.id.name, "responder_reports": c05IdName(rid)})
		}
		ie, idk := mine()
		re, rd := noiseutil.NewCipherState(honest.res.EKey, honest.res.Cipher), noiseutil.NewCipherState(honest.res.DKey, honest.res.Cipher)
		if why := c05PairsWith(ie, idk, re, rd); why != "" {
			s.violation("Machine (initiator): session keys are not shared with the authenticated peer: "+why, map[string]any{"peer": honest.id.name})
		}
		s.tl.inc("pairing verified: " + c05Class(mm.id.name) + " initiator with " + c05Class(honest.id.name) + " responder")
	}
	mm.status, mm.res, mm.peer = "done", res, c05IdName(id)
	if honest != nil {
		mm.via = fmt.Sprintf("m%d", honest.idx)
	} else if crafted != nil {
		mm.via = "M"
	} else {
		mm.via = "variant"
	}
	s.tl.inc("completed: " + role + " " + c05Class(mm.id.name) + " with " + c05Class(c05IdName(id)))
}

func c05MustMarshal(c cert.Certificate) []byte {
	b, _ := c.Marshal()
	return b
}

func c05IdName(id *c05Ident) string {
	if id == nil {
		return "(unknown)"
	}
	return id.name
}

// c05Class folds the three interchangeable honest identities for statistics.
func c05Class(n string) string {
	if n == "A" || n == "B" || n == "C" {
		return "honest"
	}
	return n
}

// apply executes one event.
func (s *c05Sim) apply(e c05Ev) {
	s.trace = append(s.trace, s.label(e))
	mm := s.mach[e.Tgt]
	switch e.K {
	case 'd':
		src := s.msgs[e.Msg]
		var other []byte
		mu := s.muts[e.Mut]
		if mu.needs2 {
			other = s.msgs[e.Msg2].b
		}
		pkt := mu.f(src.b, other, s.w.d)
		oc := s.deliver(mm, pkt, e.Msg, nil)
		cross := ""
		eff := src // the pool message whose body is actually delivered (a splice may substitute another one's)
		for _, mg := range s.msgs {
			if len(pkt) >= header.Len && bytes.Equal(mg.b[header.Len:], pkt[header.Len:]) {
				eff = mg
			}
		}
		if eff.stage == 2 && mm.init && (eff.reply != mm.sent || !eff.exact) {
			cross = " cross-session"
		} else if src.stage == 1 && !mm.init && e.Mut == 0 {
			cross = " genuine/replayed stage 1"
		}
		s.tl.inc("deliver [" + mu.class + "] stage " + strconv.Itoa(src.stage) + " to " + c05RoleName(mm.init) + cross + " -> " + oc)
	case '1':
		v := s.vars[e.Var]
		M := s.w.ids["M"]
		pkt := s.w.craft1(M.priv, s.w.ids[v.pubOf].pub, s.w.variantPayload(v, 0x0c05aaaa, 0))
		oc := s.deliver(mm, pkt, -1, &c05Crafted{v: v})
		s.tl.inc("M stage 1 [" + v.label + "] -> " + oc)
	case '2':
		v := s.vars[e.Var]
		M := s.w.ids["M"]
		pkt, c1, c2, ok := s.w.craft2(s.msgs[e.Msg].b, M.priv, s.w.ids[v.pubOf].pub, func(ii uint32) []byte { return s.w.variantPayload(v, ii, 0x0c05bbbb) })
		if !ok {
			panic("c05: M cannot answer a genuine stage 1")
		}
		oc := s.deliver(mm, pkt, -1, &c05Crafted{v: v, c1: c1, c2: c2})
		own := "own"
		if s.msgs[e.Msg].prod != mm.idx {
			own = "another machine's"
		}
		s.tl.inc("M stage 2 [" + v.label + "] answering the target's " + own + " stage 1 -> " + oc)
	}
}

// state key and menu ------------------------------------------------------------------------------------------------

func (s *c05Sim) key() string {
	var ms []string
	for _, mm := range s.mach {
		x := mm.status
		if mm.status == "done" {
			x += "(" + mm.peer + " via " + mm.via + ")"
		}
		ms = append(ms, x)
	}
	var ps []string
	for _, mg := range s.msgs {
		if mg.stage == 2 {
			ps = append(ps, fmt.Sprintf("s2 by m%d on msg%d exact=%v", mg.prod, mg.reply, mg.exact))
		}
	}
	sort.Strings(ps)
	return s.w.name() + "|" + s.castString() + "|" + strings.Join(ms, ",") + "|" + strings.Join(ps, ";")
}

// menu lists the events enabled in the current state. full=false restricts mutants and variants to the reduced alphabet.
func (s *c05Sim) menu(full bool) []c05Ev {
	var out []c05Ev
	for _, mm := range s.mach {
		if mm.status == "failed" {
			continue // C07: a failed machine refuses everything; nothing to learn for this property
		}
		live := mm.status != "done"
		want := 1
		if mm.init {
			want = 2
		}
		for i, mg := range s.msgs {
			out = append(out, c05Ev{K: 'd', Tgt: mm.idx, Msg: i, Msg2: -1})
			if !live || mg.stage != want {
				continue
			}
			for k, mu := range s.muts {
				if k == 0 || (!full && !mu.rep) {
					continue
				}
				if !mu.needs2 {
					out = append(out, c05Ev{K: 'd', Tgt: mm.idx, Msg: i, Mut: k, Msg2: -1})
					continue
				}
				for j := range s.msgs {
					if j != i {
						out = append(out, c05Ev{K: 'd', Tgt: mm.idx, Msg: i, Mut: k, Msg2: j})
					}
				}
			}
		}
		for k, v := range s.vars {
			if !full && !v.rep {
				continue
			}
			if !mm.init && live {
				out = append(out, c05Ev{K: '1', Tgt: mm.idx, Msg: -1, Msg2: -1, Var: k})
			}
			if mm.init {
				for i, mg := range s.msgs {
					if mg.stage != 1 {
						continue
					}
					own := mg.prod == mm.idx
					if (live && (own || v.rep)) || (!live && own && v.legit) {
						out = append(out, c05Ev{K: '2', Tgt: mm.idx, Msg: i, Msg2: -1, Var: k})
					}
				}
			}
		}
	}
	return out
}

func c05ParseCast(spec string) []c05Role {
	var out []c05Role
	for _, f := range strings.Fields(spec) {
		switch {
		case strings.HasSuffix(f, "->"):
			out = append(out, c05Role{id: strings.TrimSuffix(f, "->"), init: true})
		case strings.HasSuffix(f, "<-"):
			out = append(out, c05Role{id: strings.TrimSuffix(f, "<-")})
		default:
			panic("c05: bad cast " + spec)
		}
	}
	return out
}

type c05CastJob struct {
	w    *c05World
	cast []c05Role
	now  vtime.Time
	full bool
}

// c05Casts returns the searches of part 1, cheap and diverse first.
func c05Casts(c *mc.Check, worlds []*c05World) []c05CastJob {
	var jobs []c05CastJob
	add := func(w *c05World, full bool, now vtime.Time, specs ...string) {
		for _, sp := range specs {
			jobs = append(jobs, c05CastJob{w: w, cast: c05ParseCast(sp), now: now, full: full})
		}
	}
	late := vtime.Epoch.Add(2 * vtime.Hour)
	inits := []string{"A", "X", "U", "K", "W"}
	resps := []string{"B", "X", "U", "K", "W"}
	for wi, w := range worlds {
		full := c.Thorough() || wi == 0
		// one session: every identity against every identity
		for _, i := range inits {
			for _, r := range resps {
				add(w, full, vtime.Epoch, i+"-> "+r+"<-")
			}
		}
		// Y expires at Epoch+90min: valid early, expired late
		add(w, full, vtime.Epoch, "Y-> B<-", "A-> Y<-")
		add(w, full, late, "Y-> B<-", "A-> Y<-", "A-> B<-")
	}
	three := []string{"A-> C-> B<-", "A-> A-> B<-", "A-> B<- C<-", "A-> B<- B<-", "A-> X-> B<-", "A-> B<- K<-", "U-> A-> B<-", "A-> B<- W<-"}
	for wi, w := range worlds {
		if wi == 0 || c.Thorough() {
			add(w, c.Thorough(), vtime.Epoch, three...)
		}
	}
	if c.Thorough() {
		// all casts of three machines with at least one initiator and one responder
		ii := []string{"A", "C", "X", "U", "K", "W"}
		rr := []string{"B", "C", "X", "U", "K", "W"}
		seen := map[string]bool{}
		for _, sp := range three {
			seen[sp] = true
		}
		w := worlds[0]
		for a := 0; a < len(ii); a++ {
			for b := 0; b < len(rr); b++ {
				for x := a; x < len(ii); x++ { // two initiators, one responder
					sp := ii[a] + "-> " + ii[x] + "-> " + rr[b] + "<-"
					if !seen[sp] {
						seen[sp] = true
						add(w, false, vtime.Epoch, sp)
					}
				}
				for x := b; x < len(rr); x++ { // one initiator, two responders
					sp := ii[a] + "-> " + rr[b] + "<- " + rr[x] + "<-"
					if !seen[sp] {
						seen[sp] = true
						add(w, false, vtime.Epoch, sp)
					}
				}
			}
		}
		// two and three concurrent sessions
		for _, w := range worlds {
			add(w, false, vtime.Epoch, "A-> C-> B<- C<-", "A-> A-> B<- B<-", "A-> X-> B<- U<-", "A-> K-> B<- W<-", "A-> U-> B<- X<-")
		}
		add(worlds[0], false, vtime.Epoch, "A-> C-> B-> A<- B<- C<-", "A-> C-> X-> B<- B<- K<-")
	}
	return jobs
}

func c05LabelOf(muts []c05Mut, vars []c05Variant) func(c05Ev) string {
	s := &c05Sim{muts: muts, vars: vars}
	return s.label
}

// c05DepthOne delivers every truncation length and every single-bit flip of both genuine messages of the honest session
// A->B, each to a fresh machine, and judges whatever completes.
func c05DepthOne(c *mc.Check, st *c05Stats, w *c05World, muts []c05Mut, vars []c05Variant, par func(n int, fn func(i int)) bool) (int, bool) {
	probe := c05NewSim(c, st, w, c05ParseCast("A-> B<-"), muts, vars)
	n1 := len(probe.msgs[0].b)
	probe.apply(c05Ev{K: 'd', Tgt: 1, Msg: 0, Msg2: -1})
	if len(probe.msgs) != 2 {
		c.Broken("honest responder produced no stage 2 in %s", w.name())
	}
	n2 := len(probe.msgs[1].b)
	type job struct {
		stage, cut, bit int
	}
	var jobs []job
	for l := 0; l < n1; l++ {
		jobs = append(jobs, job{1, l, -1})
	}
	for l := 0; l < n2; l++ {
		jobs = append(jobs, job{2, l, -1})
	}
	for b := 0; b < 8*n1; b++ {
		jobs = append(jobs, job{1, -1, b})
	}
	for b := 0; b < 8*n2; b++ {
		jobs = append(jobs, job{2, -1, b})
	}
	done := par(len(jobs), func(i int) {
		j := jobs[i]
		s := c05NewSim(c, st, w, c05ParseCast("A-> B<-"), muts, vars)
		st.histories.Add(1)
		tgt, src := s.mach[1], 0
		if j.stage == 2 {
			s.tl.quiet = true
			s.apply(c05Ev{K: 'd', Tgt: 1, Msg: 0, Msg2: -1})
			s.tl.quiet = false
			tgt, src = s.mach[0], 1
		}
		if len(s.msgs[src].b) != map[int]int{1: n1, 2: n2}[j.stage] {
			c.Broken("genuine message length varies between sessions")
		}
		pkt := c05Clone(s.msgs[src].b)
		what := ""
		if j.cut >= 0 {
			pkt = pkt[:j.cut]
			what = fmt.Sprintf("every length: msg%d truncated to %d bytes, to m%d", src, j.cut, tgt.idx)
		} else {
			pkt[j.bit/8] ^= 1 << (j.bit % 8)
			what = fmt.Sprintf("every bit: msg%d with bit %d (byte %d) flipped, to m%d", src, j.bit, j.bit/8, tgt.idx)
		}
		s.trace = append(s.trace, what)
		oc := s.deliver(tgt, pkt, src, nil)
		kind := "truncation"
		if j.cut < 0 {
			kind = "bit flip"
		}
		st.inc(fmt.Sprintf("depth-1 %s of stage %d -> %s", kind, j.stage, oc))
		// and then the genuine message: whatever happens, a Result is judged
		if tgt.status != "failed" && tgt.status != "done" {
			s.trace = append(s.trace, fmt.Sprintf("deliver msg%d to m%d", src, tgt.idx))
			s.tl.quiet = true
			s.deliver(tgt, s.msgs[src].b, src, nil)
		}
	})
	return len(jobs), done
}

// ---------------------------------------------------------------------------------------------------------------------
// part 2: through the real HandshakeManager (victim V and honest B are real nodes; everybody else is a stub)

const (
	c05AddrV = "192.0.2.1:4242"
	c05AddrB = "192.0.2.2:4242"
	c05AddrT = "192.0.2.3:4242" // underlay address V believes 10.0.0.3 (identity C) lives at
	c05AddrM = "198.51.100.7:4242"
)

var c05NetWorldOnce sync.Once
var c05NetWorld *c05World

// c05GetNetWorld mints the stub identities under the CA of the E4 PKI. C, X, U, K, Y, W all claim C's overlay address
// 10.0.0.3 (an old expired certificate of C, a revoked one, one issued by a foreign CA ...).
func c05GetNetWorld() *c05World {
	c05NetWorldOnce.Do(func() {
		pk := vGetPKI()
		addr := func(n string) string {
			switch n {
			case "A":
				return "10.0.0.4/24"
			}
			return "10.0.0.3/24" // M too: an insider holding a valid certificate for the address V wants to reach
		}
		w, err := c05Mint(cert.Curve_CURVE25519, "aes", pk.ca, pk.caKey, vtime.Epoch.Add(-24*vtime.Hour), vtime.Epoch.Add(10*365*24*vtime.Hour), addr,
			func(n string) string {
				if n == "A" {
					return "c05a"
				}
				return "c05c"
			})
		if err != nil {
			panic("c05: net world: " + err.Error())
		}
		for _, n := range [][2]string{{"V", "10.0.0.1/24"}, {"B", "10.0.0.2/24"}} {
			leaf := pk.leafFor("c05"+strings.ToLower(n[0]), n[1], "", nil, cert.Version2)
			full, _ := leaf.crt.Marshal()
			fp, _ := leaf.crt.Fingerprint()
			id := &c05Ident{name: n[0], crt: leaf.crt, full: full, pub: leaf.crt.PublicKey(), fp: fp, byTrustedCA: true,
				nb: vtime.Epoch.Add(-vtime.Hour), na: vtime.Epoch.Add(5 * 365 * 24 * vtime.Hour), holdsKey: true}
			w.ids[n[0]], w.byFull[string(full)], w.byPub[string(id.pub)] = id, id, id
		}
		c05NetWorld = w
	})
	return c05NetWorld
}

type c05NMsg struct {
	pkt   vpkt
	stage int
	prod  string // "V", "B"
	reply int    // stage 2: pool index of the stage 1 it answers (-1 unknown)
}

// c05Peer is whoever produced a datagram delivered to a node, as far as the oracle needs to know.
type c05Peer struct {
	name   string            // identity holding the private static key (nil-name: nobody)
	proven []byte            // static public key the producer holds the private key for
	res    *handshake.Result // stub machine result (responder stubs complete at once)
	c1, c2 *noise.CipherState
	mach   *handshake.Machine // stub initiator waiting for the node's stage 2
	mhs    *noise.HandshakeState
}

type c05Entry struct {
	peerCert *cert.CachedCertificate
	desc     string
}

type c05NEv struct {
	K    string // startVB startVT startBV wire stub1 m1 stub2 m2 clock
	Msg  int
	Mut  int
	Msg2 int
	Id   string
	Var  int
	Re   int // stub2/m2: address the answer to the pending index of this other stage-1 pool message (-1: its own)
}

type c05Net struct {
	c       *mc.Check
	st      *c05Stats
	tl      c05Tally
	w       *c05World
	net     *vnet
	v, b    *vnode
	pool    []c05NMsg
	muts    []c05Mut
	vars    []c05Variant
	seen    map[*HostInfo]*c05Entry
	started map[string]bool
	late    bool
	trace   []string
	trust   map[string]c05Trust
}

func c05NewNet(t *testing.T, c *mc.Check, st *c05Stats, muts []c05Mut, vars []c05Variant) *c05Net {
	w := c05GetNetWorld()
	v := vnodeSpec{Name: "c05v", Networks: "10.0.0.1/24", Udp: c05AddrV, Overrides: m{
		"static_host_map": m{"10.0.0.2": []string{c05AddrB}, "10.0.0.3": []string{c05AddrT}},
		"pki":             m{"blocklist": []string{w.ids["K"].fp}},
	}}
	b := vnodeSpec{Name: "c05b", Networks: "10.0.0.2/24", Udp: c05AddrB, Overrides: m{"static_host_map": m{"10.0.0.1": []string{c05AddrV}}}}
	net := vNewNet(t, 5, v, b)
	n := &c05Net{c: c, st: st, tl: c05Tally{st: st}, w: w, net: net, v: net.node("c05v"), b: net.node("c05b"), muts: muts, vars: vars,
		seen: map[*HostInfo]*c05Entry{}, started: map[string]bool{}}
	n.trust = map[string]c05Trust{"V": {blocked: map[string]bool{w.ids["K"].fp: true}}, "B": {blocked: map[string]bool{}}}
	return n
}

func (n *c05Net) node(name string) *vnode {
	if name == "V" {
		return n.v
	}
	return n.b
}

func (n *c05Net) violation(sig string, extra map[string]any) {
	if n.st.viol.Add(1) > 200 {
		return
	}
	d := map[string]any{"level": "HandshakeManager (real nodes V 10.0.0.1 and B 10.0.0.2; C/X/U/K/Y/W/M are stubs; V blocks K's fingerprint and believes 10.0.0.3 is at " + c05AddrT + ")",
		"history": append([]string{}, n.trace...),
		"replay":  "build V and B with the E4 assembly, execute `history`; msgN numbers the handshake datagrams V and B put on the wire, in order"}
	for k, v := range extra {
		d[k] = v
	}
	n.c.Violation(sig, d)
}

// harvest moves handshake datagrams the nodes emitted into the pool; everything else on the wire is dropped.
func (n *c05Net) harvest() {
	n.net.collect()
	for _, p := range n.net.inflight {
		var h header.H
		if h.Parse(p.Data) != nil || h.Type != header.Handshake {
			continue
		}
		mg := c05NMsg{pkt: p, stage: c05Stage(p.Data), prod: "B", reply: -1}
		if p.From == n.v.udp {
			mg.prod = "V"
		}
		dup := false
		for _, q := range n.pool {
			if bytes.Equal(q.pkt.Data, p.Data) && q.pkt.To == p.To {
				dup = true
			}
		}
		if !dup {
			n.pool = append(n.pool, mg)
		}
	}
	n.net.inflight = nil
}

func (n *c05Net) label(e c05NEv) string {
	switch e.K {
	case "startVB":
		return "V starts a handshake to 10.0.0.2 (B)"
	case "startVT":
		return "V starts a handshake to 10.0.0.3 (C's address)"
	case "startBV":
		return "B starts a handshake to 10.0.0.1 (V)"
	case "clock":
		return "clock +2h (Y's certificate expires)"
	case "wire":
		l := fmt.Sprintf("deliver msg%d to its destination", e.Msg)
		if e.Mut > 0 {
			l += " [" + n.muts[e.Mut].label
			if n.muts[e.Mut].needs2 {
				l += fmt.Sprintf(", other = msg%d", e.Msg2)
			}
			l += "]"
		} else if e.Mut < 0 {
			l += fmt.Sprintf(" [header index := V's pending index of msg%d]", e.Msg2)
		}
		return l
	case "stub1":
		return "stub " + e.Id + " (real Machine, own credential) sends a stage 1 to V"
	case "m1":
		return "M sends a stage 1 to V: " + n.vars[e.Var].label
	case "stub2":
		l := fmt.Sprintf("stub %s (real Machine, own credential) answers msg%d towards V", e.Id, e.Msg)
		if e.Re >= 0 {
			l += fmt.Sprintf(", addressed to V's pending index of msg%d", e.Re)
		}
		return l
	}
	l := fmt.Sprintf("M answers msg%d towards V: %s", e.Msg, n.vars[e.Var].label)
	if e.Re >= 0 {
		l += fmt.Sprintf(", addressed to V's pending index of msg%d", e.Re)
	}
	return l
}

func (n *c05Net) stubMachine(id *c05Ident, initiator bool, idx uint32) *handshake.Machine {
	pool := n.w.plain
	mach, err := handshake.NewMachine(cert.Version2, id.get, func(c cert.Certificate) (*cert.CachedCertificate, error) {
		return pool.VerifyCertificate(vtime.Now(), c)
	}, func() (uint32, error) { return idx, nil }, initiator, header.HandshakeIXPSK0)
	if err != nil {
		panic("c05: stub machine: " + err.Error())
	}
	return mach
}

func c05SetIndex(pkt []byte, idx uint32) []byte {
	x := c05Clone(pkt)
	if len(x) >= 8 {
		binary.BigEndian.PutUint32(x[4:8], idx)
	}
	return x
}

// apply executes one event on the real nodes and judges every hostmap entry afterwards.
func (n *c05Net) apply(e c05NEv) {
	n.trace = append(n.trace, n.label(e))
	if e.Msg >= len(n.pool) || e.Msg2 >= len(n.pool) || e.Re >= len(n.pool) {
		n.trace = append(n.trace, "(previous event not applicable: no such message)")
		return // only reachable from the scripted probe history when the handshakes it relies on do not happen
	}
	var toNode string  // node that received a datagram in this event
	var pkt []byte     // that datagram
	var peer *c05Peer  // who produced it (nil: a real node's / mutated pool message, resolved by body comparison)
	from := netip.AddrPort{}
	M := n.w.ids["M"]
	pendingIndexOf := func(i int) (uint32, bool) { // V's local index of the pending handshake that sent pool message i
		hh := n.v.hm.queryVpnIp(n.targetOf(i))
		if hh == nil || hh.hostinfo == nil || !bytes.Equal(hh.hostinfo.HandshakePacket[handshakePacketStage0], n.pool[i].pkt.Data) {
			return 0, false
		}
		return hh.hostinfo.localIndexId, true
	}
	switch e.K {
	case "startVB":
		n.started[e.K] = true
		n.v.hm.StartHandshake(n.b.vpnIP, nil)
		n.v.settle()
	case "startVT":
		n.started[e.K] = true
		n.v.hm.StartHandshake(netip.MustParseAddr("10.0.0.3"), nil)
		n.v.settle()
	case "startBV":
		n.started[e.K] = true
		n.b.hm.StartHandshake(n.v.vpnIP, nil)
		n.b.settle()
	case "clock":
		n.late = true
		vtime.Advance(2 * vtime.Hour)
	case "wire":
		src := n.pool[e.Msg]
		pkt = src.pkt.Data
		switch {
		case e.Mut > 0:
			var other []byte
			if n.muts[e.Mut].needs2 {
				other = n.pool[e.Msg2].pkt.Data
			}
			pkt = n.muts[e.Mut].f(pkt, other, n.w.d)
		case e.Mut < 0:
			if idx, ok := pendingIndexOf(e.Msg2); ok {
				pkt = c05SetIndex(pkt, idx)
				n.tl.inc("manager: cross-session redirect of a node's stage 2 to another pending handshake")
			}
		}
		from = src.pkt.From
		toNode = "B"
		if src.pkt.To == n.v.udp {
			toNode = "V"
		}
	case "stub1":
		id := n.w.ids[e.Id]
		mach := n.stubMachine(id, true, 0x0c05c001)
		var err error
		if pkt, err = mach.Initiate(nil); err != nil {
			panic("c05: stub initiate: " + err.Error())
		}
		peer = &c05Peer{name: id.name, mach: mach}
		if id.holdsKey {
			peer.proven = id.pub
		}
		from, toNode = netip.MustParseAddrPort(c05AddrT), "V"
	case "m1":
		v := n.vars[e.Var]
		hs, err := noise.NewHandshakeState(noise.Config{CipherSuite: n.w.ncs, Random: rand.Reader, Pattern: noise.HandshakeIX, Initiator: true,
			StaticKeypair: noise.DHKey{Private: M.priv, Public: n.w.ids[v.pubOf].pub}, PresharedKey: []byte{}})
		if err != nil {
			panic("c05 m1: " + err.Error())
		}
		pkt = make([]byte, header.Len, 1024)
		header.Encode(pkt, header.Version, header.Handshake, header.HandshakeIXPSK0, 0, 1)
		if pkt, _, _, err = hs.WriteMessage(pkt, n.w.variantPayload(v, 0x0c05aaaa, 0)); err != nil {
			panic("c05 m1 write: " + err.Error())
		}
		peer = &c05Peer{name: "M", mhs: hs}
		if v.pubOf == "M" {
			peer.proven = M.pub
		}
		from, toNode = netip.MustParseAddrPort(c05AddrM), "V"
	case "stub2", "m2":
		s1 := n.pool[e.Msg]
		from, toNode = s1.pkt.To, "V" // the answer comes from the address V sent its stage 1 to
		if e.K == "stub2" {
			id := n.w.ids[e.Id]
			mach := n.stubMachine(id, false, 0x0c05c002)
			out, res, err := mach.ProcessPacket(nil, c05Clone(s1.pkt.Data))
			if err != nil || res == nil {
				panic(fmt.Sprintf("c05: stub %s cannot answer V's genuine stage 1: %v", id.name, err))
			}
			pkt = out
			peer = &c05Peer{name: id.name, res: res}
			if id.holdsKey {
				peer.proven = id.pub
			}
		} else {
			v := n.vars[e.Var]
			out, c1, c2, ok := n.w.craft2(s1.pkt.Data, M.priv, n.w.ids[v.pubOf].pub, func(ii uint32) []byte { return n.w.variantPayload(v, ii, 0x0c05bbbb) })
			if !ok {
				panic("c05: M cannot answer V's genuine stage 1")
			}
			pkt = out
			peer = &c05Peer{name: "M", c1: c1, c2: c2}
			if v.pubOf == "M" {
				peer.proven = M.pub
			}
		}
		if e.Re >= 0 {
			if idx, ok := pendingIndexOf(e.Re); ok {
				pkt = c05SetIndex(pkt, idx)
				n.tl.inc("manager: cross-session answer addressed to another pending handshake")
			}
		}
	}
	if toNode != "" {
		n.tl.delivered()
		n.node(toNode).deliver(from, pkt)
	}
	before := len(n.pool)
	n.harvest()
	if e.K == "wire" && e.Mut == 0 {
		for i := before; i < len(n.pool); i++ {
			if n.pool[i].stage == 2 {
				n.pool[i].reply = e.Msg
			}
		}
	}
	created := n.judge(e, toNode, pkt, peer)
	what := e.K
	switch e.K {
	case "stub1", "stub2":
		what = "stub " + e.Id + " " + map[string]string{"stub1": "sends a stage 1", "stub2": "answers V's stage 1"}[e.K]
		if e.Re >= 0 {
			what += " (addressed to another pending handshake)"
		}
	case "m1", "m2":
		what = "M " + map[string]string{"m1": "sends a stage 1", "m2": "answers V's stage 1"}[e.K] + " [" + n.vars[e.Var].label + "]"
		if e.Re >= 0 {
			what += " (addressed to another pending handshake)"
		}
	case "wire":
		cl := "header index := another pending handshake"
		if e.Mut >= 0 {
			cl = n.muts[e.Mut].class
		}
		what = fmt.Sprintf("wire stage %d to %s [%s]", n.pool[e.Msg].stage, toNode, cl)
	}
	if n.late {
		what += " (late)"
	}
	n.tl.inc(fmt.Sprintf("manager: %s -> %d new hostmap entries", what, created))
}

// targetOf: overlay address V (or B) was handshaking to when it sent pool message i.
func (n *c05Net) targetOf(i int) netip.Addr {
	switch n.pool[i].pkt.To.String() {
	case c05AddrB:
		return n.b.vpnIP
	case c05AddrT:
		return netip.MustParseAddr("10.0.0.3")
	}
	return n.v.vpnIP
}

func (n *c05Net) entries(nd *vnode) []*HostInfo {
	hmap := nd.f.hostMap
	hmap.RLock()
	defer hmap.RUnlock()
	set := map[*HostInfo]bool{}
	for _, hi := range hmap.Indexes {
		set[hi] = true
	}
	for _, hi := range hmap.Hosts {
		set[hi] = true
	}
	for _, l := range hmap.moreHosts {
		for _, hi := range l {
			set[hi] = true
		}
	}
	for _, hi := range hmap.RemoteIndexes {
		set[hi] = true
	}
	var out []*HostInfo
	for hi := range set {
		out = append(out, hi)
	}
	sort.Slice(out, func(i, j int) bool { return out[i].localIndexId < out[j].localIndexId })
	return out
}

// judge evaluates the property on every hostmap entry of both real nodes.
func (n *c05Net) judge(e c05NEv, toNode string, pkt []byte, peer *c05Peer) (created int) {
	d := n.w.d
	for _, nn := range []string{"V", "B"} {
		nd := n.node(nn)
		for _, hi := range n.entries(nd) {
			if old := n.seen[hi]; old != nil {
				if hi.ConnectionState == nil || hi.ConnectionState.peerCert != old.peerCert {
					n.violation("HandshakeManager: the peer certificate of an established hostmap entry was replaced", map[string]any{"node": nn, "entry": old.desc})
				}
				continue
			}
			ent := &c05Entry{desc: fmt.Sprintf("%v local index %d", hi.vpnAddrs, hi.localIndexId)}
			n.seen[hi] = ent
			created++
			n.tl.judged()
			if hi.ConnectionState == nil || hi.ConnectionState.peerCert == nil || hi.ConnectionState.peerCert.Certificate == nil {
				n.violation("HandshakeManager: hostmap entry without a verified peer certificate", map[string]any{"node": nn, "entry": ent.desc})
				continue
			}
			cs := hi.ConnectionState
			ent.peerCert = cs.peerCert
			rc := cs.peerCert.Certificate
			role := c05RoleName(cs.initiator)
			// (a) trusted now, under this node's trust configuration
			id, why := n.w.trustRule(rc, vtime.Now(), n.trust[nn])
			ent.desc += " peer=" + c05IdName(id)
			if why != "" {
				n.violation("HandshakeManager: hostmap entry ("+role+" side) with a peer certificate the trust rule refuses: "+why, map[string]any{"node": nn, "entry": ent.desc})
			}
			if nn != toNode {
				n.violation("HandshakeManager: a hostmap entry appeared on a node that received no datagram", map[string]any{"node": nn, "entry": ent.desc})
				continue
			}
			// (b) bound to the static key of the exchange that created it
			var proven []byte
			prodName := ""
			if !cs.initiator {
				_, sOff, pOff := c05Regions(1, d, len(pkt))
				onWire := []byte(nil)
				if len(pkt) >= pOff {
					onWire = pkt[sOff:pOff]
				}
				if !bytes.Equal(rc.PublicKey(), onWire) {
					n.violation("HandshakeManager: hostmap entry (responder side) whose peer certificate does not carry the static key of the Noise exchange", map[string]any{
						"node": nn, "entry": ent.desc, "static_key_on_the_wire": hex.EncodeToString(onWire), "certificate_key": hex.EncodeToString(rc.PublicKey())})
				}
			} else {
				switch {
				case peer != nil:
					proven, prodName = peer.proven, peer.name
				default:
					for _, mg := range n.pool {
						if mg.stage == 2 && len(pkt) >= header.Len && bytes.Equal(mg.pkt.Data[header.Len:], pkt[header.Len:]) {
							proven, prodName = n.w.ids[mg.prod].pub, mg.prod
						}
					}
				}
				if proven == nil {
					n.violation("HandshakeManager: hostmap entry (initiator side) created by a message whose sender holds no private key for the transmitted static key", map[string]any{"node": nn, "entry": ent.desc, "sender": prodName})
				} else if !bytes.Equal(rc.PublicKey(), proven) {
					n.violation("HandshakeManager: hostmap entry (initiator side) whose peer certificate does not carry the static key the sender proved to hold", map[string]any{
						"node": nn, "entry": ent.desc, "sender": prodName})
				}
			}
			if holder := n.w.byPub[string(rc.PublicKey())]; holder == nil || !bytes.Equal(holder.full, c05MustMarshal(rc)) {
				n.violation("HandshakeManager: hostmap entry reports a certificate that is not the certificate issued for that key", map[string]any{"node": nn, "entry": ent.desc})
			}
			// (c) the tunnel keys are shared with the authenticated peer
			n.pairing(nn, nd, hi, id, pkt, peer)
			n.tl.inc("manager: new hostmap entry on " + nn + " (" + role + " side) for peer " + c05IdName(id))
		}
	}
	return created
}

// pairing: whoever holds the other end of the new tunnel is the identity the entry reports.
func (n *c05Net) pairing(nn string, nd *vnode, hi *HostInfo, id *c05Ident, pkt []byte, peer *c05Peer) {
	cs := hi.ConnectionState
	const ctr = uint64(1) << 40
	check := func(pe, pd noiseutil.CipherState, who string) {
		if !c05Opens(cs.eKey, pd, ctr) || !c05Opens(pe, cs.dKey, ctr+1) {
			n.violation("HandshakeManager: tunnel keys are not shared with the peer the hostmap entry reports", map[string]any{"node": nn, "peer": who, "reported": c05IdName(id)})
			return
		}
		if id == nil || id.name != who {
			n.violation("HandshakeManager: the party holding the tunnel keys is not the identity the hostmap entry reports", map[string]any{"node": nn, "key_holder": who, "reported": c05IdName(id)})
		}
		n.tl.inc("manager: pairing verified between " + nn + " and " + who)
	}
	switch {
	case peer != nil && peer.res != nil: // stub responder
		check(noiseutil.NewCipherState(peer.res.EKey, peer.res.Cipher), noiseutil.NewCipherState(peer.res.DKey, peer.res.Cipher), peer.name)
	case peer != nil && peer.c1 != nil: // M answered as responder
		check(noiseutil.NewCipherState(peer.c2, n.w.ncs), noiseutil.NewCipherState(peer.c1, n.w.ncs), "M")
	case peer != nil && (peer.mach != nil || peer.mhs != nil): // stub initiator: feed it the node's stage 2
		s2 := hi.HandshakePacket[handshakePacketStage2]
		if s2 == nil {
			return
		}
		if peer.mach != nil {
			_, res, err := peer.mach.ProcessPacket(nil, c05Clone(s2))
			if err != nil || res == nil {
				if n.w.ids[peer.name].holdsKey {
					n.violation("HandshakeManager: the honest stub initiator cannot complete on the node's stage 2", map[string]any{"node": nn, "stub": peer.name, "error": fmt.Sprint(err)})
				}
				return
			}
			if res.RemoteCert == nil {
				return // the stub runs the (possibly broken) Machine as well; its own completion is judged in part 1
			}
			if vid, _ := n.w.trustRule(res.RemoteCert.Certificate, vtime.Now(), c05Trust{}); vid == nil || vid.name != nn {
				n.violation("two sides completed on the same bytes but do not report each other's certificates", map[string]any{"node": nn, "stub": peer.name, "stub_reports": c05IdName(vid)})
			}
			check(noiseutil.NewCipherState(res.EKey, res.Cipher), noiseutil.NewCipherState(res.DKey, res.Cipher), peer.name)
		} else {
			_, c1, c2, err := peer.mhs.ReadMessage(nil, s2[header.Len:])
			if err != nil || c1 == nil {
				if peer.proven != nil {
					n.violation("HandshakeManager: M (acting as itself) cannot complete on the node's stage 2", map[string]any{"node": nn, "error": fmt.Sprint(err)})
				} else {
					n.tl.inc("manager: M cannot use the tunnel created with a static key it holds no private key for")
				}
				return
			}
			check(noiseutil.NewCipherState(c1, n.w.ncs), noiseutil.NewCipherState(c2, n.w.ncs), "M")
		}
	default: // real node on the other side: find its entry for the same bytes
		other := n.b
		on := "B"
		if nn == "B" {
			other, on = n.v, "V"
		}
		var mine []byte
		if cs.initiator {
			if len(pkt) > header.Len {
				mine = pkt[header.Len:]
			}
		} else if s2 := hi.HandshakePacket[handshakePacketStage2]; len(s2) > header.Len {
			mine = s2[header.Len:]
		}
		for _, ho := range n.entries(other) {
			s2 := ho.HandshakePacket[handshakePacketStage2]
			if ho.ConnectionState == nil || ho.ConnectionState.peerCert == nil || len(s2) <= header.Len || mine == nil {
				continue
			}
			match := bytes.Equal(s2[header.Len:], mine)
			if !cs.initiator { // we produced the stage 2; the other side consumed it as initiator: it has no copy, match by index pair
				match = ho.ConnectionState.initiator && ho.remoteIndexId == hi.localIndexId && ho.localIndexId == hi.remoteIndexId
			}
			if !match {
				continue
			}
			oid, _ := n.w.trustRule(ho.ConnectionState.peerCert.Certificate, vtime.Now(), c05Trust{})
			if id == nil || id.name != on || oid == nil || oid.name != nn {
				n.violation("two sides completed on the same bytes but do not report each other's certificates", map[string]any{"node": nn, "reports": c05IdName(id), "other_node": on, "other_reports": c05IdName(oid)})
			}
			check(ho.ConnectionState.eKey, ho.ConnectionState.dKey, on)
		}
	}
}

func (n *c05Net) key() string {
	view := func(nd *vnode) string {
		var p []string
		for _, hi := range n.entries(nd) {
			if e := n.seen[hi]; e != nil {
				init := hi.ConnectionState != nil && hi.ConnectionState.initiator
				p = append(p, fmt.Sprintf("%v/%v/%s", hi.vpnAddrs, init, e.desc[strings.LastIndex(e.desc, " ")+1:]))
			}
		}
		sort.Strings(p)
		return strings.Join(p, ",") + " pending=" + strings.Join(nd.pendingAddrs(), ",")
	}
	var ps []string
	for _, mg := range n.pool {
		ps = append(ps, fmt.Sprintf("s%d %s->%s", mg.stage, mg.prod, mg.pkt.To))
	}
	return fmt.Sprintf("V[%s] B[%s] pool[%s] late=%v", view(n.v), view(n.b), strings.Join(ps, ";"), n.late)
}

func (n *c05Net) menu(full bool) []c05NEv {
	var out []c05NEv
	for _, k := range []string{"startVB", "startVT", "startBV"} {
		if !n.started[k] {
			out = append(out, c05NEv{K: k, Msg: -1, Msg2: -1, Re: -1})
		}
	}
	if !n.late {
		out = append(out, c05NEv{K: "clock", Msg: -1, Msg2: -1, Re: -1})
	}
	stubs := []string{"C", "X", "U", "K", "Y", "W"}
	for _, id := range stubs {
		out = append(out, c05NEv{K: "stub1", Id: id, Msg: -1, Msg2: -1, Re: -1})
	}
	for k, v := range n.vars {
		if full || v.rep {
			out = append(out, c05NEv{K: "m1", Var: k, Msg: -1, Msg2: -1, Re: -1})
		}
	}
	var vStage1 []int
	for i, mg := range n.pool {
		if mg.stage == 1 && mg.prod == "V" {
			vStage1 = append(vStage1, i)
		}
	}
	for i, mg := range n.pool {
		out = append(out, c05NEv{K: "wire", Msg: i, Msg2: -1, Re: -1})
		if mg.pkt.To != n.v.udp {
			continue
		}
		for k, mu := range n.muts {
			if k == 0 || (!full && !mu.rep) {
				continue
			}
			if !mu.needs2 {
				out = append(out, c05NEv{K: "wire", Msg: i, Mut: k, Msg2: -1, Re: -1})
				continue
			}
			for j := range n.pool {
				if j != i && (full || n.pool[j].stage == mg.stage) {
					out = append(out, c05NEv{K: "wire", Msg: i, Mut: k, Msg2: j, Re: -1})
				}
			}
		}
		if mg.stage == 2 {
			for _, j := range vStage1 {
				if j != mg.reply {
					out = append(out, c05NEv{K: "wire", Msg: i, Mut: -1, Msg2: j, Re: -1})
				}
			}
		}
	}
	for _, i := range vStage1 {
		for _, id := range stubs {
			out = append(out, c05NEv{K: "stub2", Id: id, Msg: i, Msg2: -1, Re: -1})
		}
		for k, v := range n.vars {
			if full || v.rep {
				out = append(out, c05NEv{K: "m2", Var: k, Msg: i, Msg2: -1, Re: -1})
			}
		}
		for _, j := range vStage1 {
			if j != i {
				out = append(out, c05NEv{K: "stub2", Id: "C", Msg: i, Msg2: -1, Re: j}, c05NEv{K: "m2", Var: 0, Msg: i, Msg2: -1, Re: j})
			}
		}
	}
	return out
}

func TestVerifC05(t *testing.T) {
	c := mc.Begin(t, "C05", "model_checking")
	defer c.End()
	st := &c05Stats{n: map[string]int64{}}
	budget := mc.Pick(c, 45.0, 900.0)
	if f, err := strconv.ParseFloat(os.Getenv("VERIF_BUDGET_S"), 64); err == nil && f > 0 {
		budget = f
	}
	muts, vars := c05Muts(), c05Variants()
	type combo struct {
		curve  cert.Curve
		cipher string
	}
	combos := mc.Pick(c, []combo{{cert.Curve_CURVE25519, "aes"}, {cert.Curve_P256, "chachapoly"}},
		[]combo{{cert.Curve_CURVE25519, "aes"}, {cert.Curve_P256, "chachapoly"}, {cert.Curve_CURVE25519, "chachapoly"}, {cert.Curve_P256, "aes"}})
	var worlds []*c05World
	for _, cb := range combos {
		w, err := c05Mint(cb.curve, cb.cipher, nil, nil, vtime.Time{}, vtime.Time{}, func(n string) string { return "10.5.0." + strconv.Itoa(int(n[0]-'A')+1) + "/24" }, func(n string) string { return "c05-" + strings.ToLower(n) })
		if err != nil {
			c.Broken("mint %v: %v", cb, err)
		}
		worlds = append(worlds, w)
	}
	capped := false
	only := os.Getenv("VERIF_C05_ONLY") // "manager": skip part 1 (used to demonstrate detection at manager level alone)
	part1Stop := func() bool { return only == "manager" || st.viol.Load() > 100 || c.Elapsed() > 0.6*budget }

	// ---- part 1a: closure search per cast
	jobs := c05Casts(c, worlds)
	label := c05LabelOf(muts, vars)
	castsDone, closureDepth := 0, 0
	for _, jb := range jobs {
		if part1Stop() {
			break
		}
		jb := jb
		res := mc.BFSReplay(c, mc.BFSConfig[c05Ev]{MaxDepth: 12, Label: label, Stop: part1Stop,
			Run: func(hist []c05Ev) (string, []c05Ev) {
				s := c05NewSim(c, st, jb.w, jb.cast, muts, vars)
				s.now = jb.now
				if !jb.now.Equal(vtime.Epoch) {
					s.trace = append(s.trace, "(verification time = Epoch+2h)")
				}
				st.histories.Add(1)
				for i, e := range hist {
					s.tl.quiet = i < len(hist)-1
					s.apply(e)
				}
				return s.key() + "|" + jb.now.String(), s.menu(jb.full)
			}})
		if res.Exhaustive {
			castsDone++
		}
		if res.MaxDepth > closureDepth {
			closureDepth = res.MaxDepth
		}
	}
	if only == "manager" {
		capped = true
		c.Capped("VERIF_C05_ONLY=manager: part 1 skipped")
	} else if castsDone < len(jobs) {
		capped = true
		c.Capped(fmt.Sprintf("time budget: %d of %d casts searched to closure", castsDone, len(jobs)))
	}

	// ---- part 1b: every truncation length and every single-bit flip at depth 1
	par := func(n int, fn func(i int)) bool {
		var next atomic.Int64
		var stopped atomic.Bool
		var wg sync.WaitGroup
		for k := 0; k < 16; k++ {
			wg.Add(1)
			go func() {
				defer wg.Done()
				for {
					i := int(next.Add(1) - 1)
					if i >= n || stopped.Load() {
						return
					}
					if i&0x3f == 0 && (st.viol.Load() > 100 || c.Elapsed() > 0.75*budget) {
						stopped.Store(true)
						return
					}
					fn(i)
				}
			}()
		}
		wg.Wait()
		return !stopped.Load()
	}
	depth1 := 0
	for wi, w := range worlds {
		if (wi > 0 && !c.Thorough()) || st.viol.Load() > 0 || only == "manager" { // premises of the later phases may not hold once the property is broken
			break
		}
		n, done := c05DepthOne(c, st, w, muts, vars, par)
		depth1 += n
		if !done {
			capped = true
			c.Capped("time budget in the depth-1 every-length/every-bit phase")
		}
	}
	c.Add("traces_validated_against_impl", int64(depth1))
	c.Add("transitions", int64(depth1))

	// ---- part 2: the real HandshakeManager (process-global clock and randomness: strictly serial)
	machineStates := c.Counter("states").Load()
	// One P while real nodes are assembled: the E4 assembly waits (bounded Gosched spin) for the lighthouse worker goroutine
	// to exit; on an oversubscribed machine that goroutine may be parked on another P whose thread gets no CPU in time.
	defer runtime.GOMAXPROCS(runtime.GOMAXPROCS(1))
	full2 := c.Thorough()
	runNet := func(hist []c05NEv) (string, string, []c05NEv) {
		n := c05NewNet(t, c, st, muts, vars)
		defer n.net.close()
		for i, e := range hist {
			n.tl.quiet = i < len(hist)-1
			n.apply(e)
		}
		st.histories.Add(1)
		return n.key(), n.net.wireHash(), n.menu(full2)
	}
	probe := []c05NEv{{K: "startVB", Msg: -1, Msg2: -1, Re: -1}, {K: "wire", Msg: 0, Msg2: -1, Re: -1}, {K: "wire", Msg: 1, Msg2: -1, Re: -1}, {K: "stub1", Id: "C", Msg: -1, Msg2: -1, Re: -1}}
	k1, w1, _ := runNet(probe)
	k2, w2, _ := runNet(probe)
	if st.viol.Load() > 0 {
		c.Set("note", "violations found: remaining phases and vacuity guards skipped")
		return
	}
	if k1 != k2 || w1 != w2 {
		c.Broken("manager level: replay is not deterministic:\n%s %s\n%s %s", k1, w1, k2, w2)
	}
	if !strings.Contains(k1, "peer=B") || !strings.Contains(k1, "peer=C") || !strings.Contains(k1, "peer=V") {
		c.Broken("manager level: the honest handshakes of the probe history do not complete: %s", k1)
	}
	nl := (&c05Net{muts: muts, vars: vars}).label
	res2 := mc.BFSReplay(c, mc.BFSConfig[c05NEv]{MaxDepth: mc.Pick(c, 3, 5), Workers: 1, Label: nl,
		Stop: func() bool { return st.viol.Load() > 100 || c.OutOfTime() },
		Run: func(hist []c05NEv) (string, []c05NEv) {
			k, _, mn := runNet(hist)
			return k, mn
		}})
	c.Set("manager_states", res2.States)
	c.Set("manager_transitions", res2.Transitions)
	c.Set("manager_depth", res2.MaxDepth)
	// Second manager-level search from a NON-initial state: the probe history (V<->B established through the wire, honest stub C
	// accepted by V) first, then every event sequence up to the bound. Anything a node remembers about a certificate it has
	// already accepted (caches keyed by fingerprint / signature, hostmap entries to be replaced) is only reachable from here
	// within the quick depth.
	if st.viol.Load() == 0 && !c.OutOfTime() {
		res3 := mc.BFSReplay(c, mc.BFSConfig[c05NEv]{MaxDepth: mc.Pick(c, 3, 4), Workers: 1, Label: nl,
			Stop: func() bool { return st.viol.Load() > 100 || c.OutOfTime() },
			Run: func(hist []c05NEv) (string, []c05NEv) {
				k, _, mn := runNet(append(append([]c05NEv{}, probe...), hist...))
				return k, mn
			}})
		c.Set("manager_after_honest_handshakes_states", res3.States)
		c.Set("manager_after_honest_handshakes_transitions", res3.Transitions)
		c.Set("manager_after_honest_handshakes_depth", res3.MaxDepth)
	}
	c.Set("machine_states", machineStates)

	// ---- evidence
	c.Set("machine_casts", len(jobs))
	c.Set("machine_casts_searched_to_closure", castsDone)
	c.Set("machine_level_closed", castsDone == len(jobs) && !capped) // part 1 is exhaustive within its box; part 2 is depth-bounded
	c.Set("machine_closure_depth", closureDepth)
	c.Set("machine_depth1_mutants", depth1)
	c.Set("histories_executed", st.histories.Load())
	c.Set("deliveries_judged", st.deliver.Load())
	c.Set("completions_judged", st.results.Load())
	c.Set("mutation_alphabet", len(muts))
	c.Set("adversary_variants", len(vars))
	c.Set("worlds", len(worlds))
	st.mu.Lock()
	outc := map[string]int64{}
	for k, v := range st.n {
		outc[k] = v
	}
	st.mu.Unlock()
	c.Set("outcomes", outc)
	c.Set("distinct_outcomes", len(outc))
	c.Set("explanation", "part 1: one closure search (BFS by replay, parallel) per cast of handshake.Machines, a state = (per machine: idle/initiated/failed/done(reported peer, via whom); pool of produced stage-2 messages by (producer, stage 1 consumed, exact body?)), rejected deliveries leave the state unchanged so each search closes; plus every truncation length and every bit of both genuine messages at depth 1. part 2: BFS by replay (serial) over two real nodes and stub identities, a state = hostmap views of V and B (peer identity, role, addresses), pending tables, wire pool, clock phase. transitions = real ProcessPacket / readOutsidePackets / StartHandshake calls; every count in `outcomes` counts explored transitions (prefix replays are not counted).")
	c.Assume("the trust check is read as: the certificate is one that was actually issued (byte-identical to a minted certificate), by the trusted CA, inside the validity windows of certificate and CA at the (virtual) time of completion, and not blocklisted by the verifying party; signature/AEAD/DH unforgeability beyond the enumerated mutants is assumed")
	c.Assume("IX: the responder completes on stage 1, before the initiator has proved possession of its static key; 'the static public key the peer proved it holds' is therefore read, on the responder side, as the static key transmitted in the Noise exchange (a replayed or re-assembled stage 1 carrying A's key and A's certificate completes reporting A; whoever lacks A's private key cannot use the resulting keys — checked at manager level). On the initiator side it is the key of the party that produced exactly the consumed bytes")
	c.Assume("version-2 certificates only; part 2 uses X25519/AES-GCM (the shared E4 PKI); datagrams the nodes emit other than handshakes are dropped; M's crafted messages are delivered once and are not themselves replayed or mutated")
	c.Assume("starting a machine/initiator commutes with all other events, so part 1 fixes the cast of machines at the root of each search instead of interleaving 'start session' events")
	if st.viol.Load() > 0 || capped || c.OutOfTime() {
		return // vacuity guards need the whole box
	}
	sum := func(pred func(k string) bool) (n int64) {
		for k, v := range outc {
			if pred(k) {
				n += v
			}
		}
		return
	}
	has := func(sub ...string) int64 {
		return sum(func(k string) bool {
			for _, x := range sub {
				if !strings.Contains(k, x) {
					return false
				}
			}
			return true
		})
	}
	// honest sessions complete, on both sides, and the keys pair
	c.Require(outc["completed: initiator honest with honest"] > 0 && outc["completed: responder honest with honest"] > 0, "honest sessions do not complete")
	c.Require(outc["pairing verified: honest initiator with honest responder"] > 0 && outc["pairing verified: initiator with M"] > 0, "key pairing never verified")
	// every bad identity is really refused, in both roles, for the right reason
	for id, why := range map[string]string{"X": "expired", "U": "unknown CA", "K": "blocklisted"} {
		for _, role := range []string{"initiator", "responder"} {
			c.Require(outc["verifier: certificate of "+id+" presented to a "+role+" -> "+why] > 0, "identity %s never refused (%s) by a %s", id, why, role)
		}
		c.Require(has("completed:", "with "+id) == 0, "identity %s completed", id)
		c.Require(has("manager: stub "+id+" sends a stage 1", "-> 0 new") > 0 && has("manager: stub "+id+" sends a stage 1", "-> 1 new") == 0, "manager: stub %s not refused as initiator", id)
		c.Require(has("manager: stub "+id+" answers", "-> 0 new") > 0 && has("manager: stub "+id+" answers", "-> 1 new") == 0, "manager: stub %s not refused as responder", id)
	}
	c.Require(has("verifier: certificate of Y", "-> ok") > 0 && has("verifier: certificate of Y", "-> expired") > 0, "Y (expires at Epoch+90min) not seen both valid and expired")
	c.Require(has("manager: stub Y sends a stage 1 ->", "1 new") > 0 && has("manager: stub Y sends a stage 1 (late)", "-> 0 new") > 0 && has("manager: stub Y sends a stage 1 (late)", "-> 1 new") == 0, "manager: Y not accepted early / refused late")
	c.Require(has("completed: initiator W") == 0 && has("completed:", "with W") > 0, "W (certificate without its private key): expected to be reported by responders and never to complete itself")
	// the adversary: accepted as itself, refused with anybody else's certificate
	for _, v := range vars {
		if !v.rep {
			continue
		}
		switch {
		case v.legit:
			c.Require(outc["M stage 1 ["+v.label+"] -> completed"] > 0 && has("M stage 2 ["+v.label+"]", "own stage 1 -> completed") > 0, "M as itself is not accepted")
			c.Require(has("manager: M sends a stage 1 ["+v.label+"]", "-> 1 new") > 0 && has("manager: M answers V's stage 1 ["+v.label+"] ->", "1 new") > 0, "manager: M as itself is not accepted")
		case v.pubOf == "M":
			c.Require(has("M stage 1 ["+v.label+"] -> refused") > 0 && has("M stage 1 ["+v.label+"] -> completed") == 0, "M stage 1 %q not refused", v.label)
			c.Require(has("M stage 2 ["+v.label+"]", "own stage 1 -> refused") > 0 && has("M stage 2 ["+v.label+"]", "-> completed") == 0, "M stage 2 %q not refused", v.label)
			c.Require(has("manager: M sends a stage 1 ["+v.label+"]", "-> 0 new") > 0 && has("manager: M answers V's stage 1 ["+v.label+"]", "-> 0 new") > 0, "manager: M %q never tried", v.label)
		default:
			c.Require(has("M stage 2 ["+v.label+"]", "own stage 1 -> refused") > 0 && has("M stage 2 ["+v.label+"]", "-> completed") == 0, "M stage 2 %q not refused", v.label)
		}
	}
	// reordering / replay / cross-session really happen
	c.Require(has("deliver [", "cross-session") > 0, "no cross-session delivery at Machine level")
	c.Require(has("cross-session -> completed") == 0, "a cross-session stage 2 completed without being flagged")
	c.Require(has("manager: cross-session") > 0, "no cross-session delivery at manager level")
	c.Require(outc["deliver [raw] stage 1 to responder genuine/replayed stage 1 -> completed"] > 0 && has("deliver [raw] stage 2 to initiator -> completed") > 0, "genuine deliveries do not complete")
	classes := map[string]bool{}
	for _, mu := range muts {
		classes[mu.class] = true
	}
	for cl := range classes {
		c.Require(has("deliver ["+cl+"] stage 1 to responder") > 0 || strings.HasPrefix(cl, "splice: e"), "mutation class %q never delivered to a responder", cl)
		c.Require(has("deliver ["+cl+"] stage 2 to initiator") > 0, "mutation class %q never delivered to an initiator", cl)
	}
	// manager level: honest tunnels appear on both sides and in both roles, keys pair
	for _, x := range []string{"V (initiator side) for peer B", "V (responder side) for peer B", "B (responder side) for peer V", "V (initiator side) for peer C", "V (responder side) for peer C", "V (initiator side) for peer M", "V (responder side) for peer M"} {
		c.Require(outc["manager: new hostmap entry on "+x] > 0, "manager: never saw a new hostmap entry on %s", x)
	}
	for _, x := range []string{"V and B", "V and C", "V and M"} {
		c.Require(outc["manager: pairing verified between "+x] > 0, "manager: key pairing between %s never verified", x)
	}
	c.Require(outc["manager: M cannot use the tunnel created with a static key it holds no private key for"] > 0, "manager: replayed-identity stage 1 never tried")
	c.Require(len(outc) >= 100, "only %d distinct outcomes", len(outc))
}
