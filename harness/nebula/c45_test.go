//go:build verif

package nebula

import (
	"fmt"
	"strings"
	"sync"
	"sync/atomic"
	"testing"

	"github.com/slackhq/nebula/zzverif/mc"
)

// C45 — SSH debug file paths stay inside the sandbox.
//
// Bounded-exhaustive enumeration of (sandbox, path) pairs against a stack-based lexical resolver that shares nothing
// with path/filepath. Oracle (both halves of the statement are the same implication read in two directions):
//
//	sshSanitizeFilePath accepts  ==>  the requested path, resolved lexically (relative paths start in the sandbox),
//	                                  is strictly inside the sandbox, AND the path handed back (the one the commands
//	                                  open) is strictly inside the sandbox too.
//
// The converse (every inside path is accepted) is not demanded; such refusals are counted as information.

// c45Loc is a lexically resolved location: absolute or relative to the process directory, a number of unresolved
// leading ".." (relative only) and the remaining segments.
type c45Loc struct {
	abs  bool
	ups  int
	segs []string
}

// c45Resolve walks the path segment by segment: "" and "." are skipped, ".." pops (at the root of an absolute path it
// stays at the root; on an empty relative stack it becomes one more leading "..").
func c45Resolve(start c45Loc, p string) c45Loc {
	loc := c45Loc{abs: start.abs, ups: start.ups, segs: append([]string{}, start.segs...)}
	if len(p) > 0 && p[0] == '/' {
		loc = c45Loc{abs: true}
	}
	seg := ""
	flush := func() {
		switch seg {
		case "", ".":
		case "..":
			if len(loc.segs) > 0 {
				loc.segs = loc.segs[:len(loc.segs)-1]
			} else if !loc.abs {
				loc.ups++
			}
		default:
			loc.segs = append(loc.segs, seg)
		}
		seg = ""
	}
	for i := 0; i < len(p); i++ {
		if p[i] == '/' {
			flush()
		} else {
			seg += string(p[i])
		}
	}
	flush()
	return loc
}

// c45Inside: x is strictly below dir (same root, dir's segments are a proper prefix of x's).
func c45Inside(dir, x c45Loc) bool {
	if dir.abs != x.abs || dir.ups != x.ups || len(x.segs) <= len(dir.segs) {
		return false
	}
	for i := range dir.segs {
		if dir.segs[i] != x.segs[i] {
			return false
		}
	}
	return true
}

func c45Same(a, b c45Loc) bool {
	return a.abs == b.abs && a.ups == b.ups && strings.Join(a.segs, "/") == strings.Join(b.segs, "/")
}

func (l c45Loc) String() string {
	s := ""
	if l.abs {
		s = "/"
	}
	parts := append(strings.Split(strings.Repeat("..,", l.ups), ","), l.segs...)
	nonEmpty := parts[:0]
	for _, p := range parts {
		if p != "" {
			nonEmpty = append(nonEmpty, p)
		}
	}
	s += strings.Join(nonEmpty, "/")
	if s == "" {
		s = "."
	}
	return s
}

func TestVerifC45(t *testing.T) {
	c := mc.Begin(t, "C45", "exploration")
	defer c.End()

	segs := []string{"", ".", "..", "a", "sb", "sbx"}
	if c.Thorough() {
		segs = append(segs, "in", "...", "sb.")
	}
	maxSegs := mc.Pick(c, 5, 6)
	sandboxes := []string{
		"/sb", "/sb/", "/sb/in", "/sb/../sb", "//sb", "/sb/.", "/a/../sb/in/..", "/", "/..", // absolute
		"sb", "sb/", "./sb", "sb/in", ".", "sb/..", // relative to the process directory
		"..", "../", "../..", "../sb", "sb/../..", // relative, climbing above the process directory
	}
	c.Set("alphabet_segments", segs)
	c.Set("alphabet_sandboxes", sandboxes)
	c.Set("max_segments", maxSegs)

	// all segment sequences of length 0..maxSegs, absolute/relative, with/without trailing slash
	var paths []string
	var gen func(prefix []string, n int)
	gen = func(prefix []string, n int) {
		if len(prefix) == n {
			body := strings.Join(prefix, "/")
			for _, abs := range []string{"", "/"} {
				for _, trail := range []string{"", "/"} {
					paths = append(paths, abs+body+trail)
				}
			}
			return
		}
		for _, s := range segs {
			gen(append(prefix, s), n)
		}
	}
	for n := 0; n <= maxSegs; n++ {
		gen(nil, n)
	}
	// distinct strings only (e.g. ""+"/" == "/"+"")
	{
		seen := make(map[string]struct{}, len(paths))
		out := paths[:0]
		for _, p := range paths {
			if _, ok := seen[p]; !ok {
				seen[p] = struct{}{}
				out = append(out, p)
			}
		}
		paths = out
	}
	c.Set("distinct_paths", len(paths))

	var evals, accepted, refusedOutside, refusedInside, refusedSelf, acceptedRel, acceptedAbs, acceptedViaDotDot atomic.Int64
	var mu sync.Mutex
	perSandbox := map[string][2]int64{}
	outcomeClasses := map[string]bool{}

	mc.ParallelItems(len(sandboxes), 0, nil, func(si int, _ *mc.Enum) {
		sb := sandboxes[si]
		sbLoc := c45Resolve(c45Loc{}, sb)
		var acc, rej int64
		for _, p := range paths {
			evals.Add(1)
			got, err := sshSanitizeFilePath(sb, p)
			want := c45Resolve(sbLoc, p) // relative paths start in the sandbox, absolute ones at the root
			inside := c45Inside(sbLoc, want)
			if err != nil {
				rej++
				switch {
				case inside:
					refusedInside.Add(1)
				case c45Same(sbLoc, want):
					refusedSelf.Add(1)
				default:
					refusedOutside.Add(1)
				}
				continue
			}
			acc++
			n := accepted.Add(1)
			if strings.HasPrefix(p, "/") {
				acceptedAbs.Add(1)
			} else {
				acceptedRel.Add(1)
			}
			if strings.Contains(p, "..") {
				acceptedViaDotDot.Add(1)
			}
			sbClass := "absolute sandbox"
			if !sbLoc.abs {
				sbClass = "relative sandbox"
				if sbLoc.ups > 0 && len(sbLoc.segs) == 0 {
					sbClass = "relative sandbox that is a pure chain of '..'"
				} else if sbLoc.ups > 0 {
					sbClass = "relative sandbox starting with '..'"
				}
			}
			pClass := "a relative path"
			if strings.HasPrefix(p, "/") {
				pClass = "an absolute path"
			}
			detail := map[string]any{"sandbox": sb, "path": p, "returned": got, "sandbox_resolves_to": sbLoc.String(), "path_resolves_to": want.String()}
			if !inside {
				how := "outside the sandbox"
				if c45Same(sbLoc, want) {
					how = "the sandbox directory itself"
				} else if len(want.segs) > len(sbLoc.segs) && want.abs == sbLoc.abs && want.ups == sbLoc.ups && len(sbLoc.segs) > 0 &&
					fmt.Sprint(want.segs[:len(sbLoc.segs)-1]) == fmt.Sprint(sbLoc.segs[:len(sbLoc.segs)-1]) && strings.HasPrefix(want.segs[len(sbLoc.segs)-1], sbLoc.segs[len(sbLoc.segs)-1]) {
					how = "a sibling whose name starts with the sandbox's name"
				}
				c.Violation(fmt.Sprintf("sshSanitizeFilePath accepts %s that resolves to %s (%s)", pClass, how, sbClass), detail)
				continue
			}
			gotLoc := c45Resolve(c45Loc{}, got) // the returned string is what os.Create/WriteFile gets: process-relative
			if !c45Inside(sbLoc, gotLoc) {
				detail["returned_resolves_to"] = gotLoc.String()
				c.Violation(fmt.Sprintf("sshSanitizeFilePath returns a path outside the sandbox after accepting %s (%s)", pClass, sbClass), detail)
				continue
			}
			c.SampleEvery(n, func() any { return map[string]any{"sandbox": sb, "path": p, "returned": got} })
		}
		mu.Lock()
		perSandbox[sb] = [2]int64{acc, rej}
		if acc > 0 {
			outcomeClasses["accept"] = true
		}
		if rej > 0 {
			outcomeClasses["refuse"] = true
		}
		mu.Unlock()
	})

	c.Set("evaluations", evals.Load())
	c.Set("distinct_nontrivial", accepted.Load()+refusedOutside.Load()+refusedSelf.Load())
	c.Set("rule", "(sandbox, path) pairs (all distinct) that were accepted, or that resolve outside the sandbox / to the sandbox itself and therefore had to be refused; refusals of inside paths are not counted")
	c.Set("accepted", accepted.Load())
	c.Set("accepted_relative_paths", acceptedRel.Load())
	c.Set("accepted_absolute_paths", acceptedAbs.Load())
	c.Set("accepted_paths_containing_dotdot", acceptedViaDotDot.Load())
	c.Set("refused_outside", refusedOutside.Load())
	c.Set("refused_sandbox_itself", refusedSelf.Load())
	c.Set("refused_although_inside_information_only", refusedInside.Load())
	ps := map[string]any{}
	for k, v := range perSandbox {
		ps[k] = map[string]int64{"accepted": v[0], "refused": v[1]}
	}
	c.Set("per_sandbox", ps)
	if c.Violations() == 0 {
		c.Require(accepted.Load() > 0 && refusedOutside.Load() > 0 && refusedSelf.Load() > 0, "outcome classes missing: accepted=%d refusedOutside=%d refusedSelf=%d", accepted.Load(), refusedOutside.Load(), refusedSelf.Load())
		c.Require(acceptedRel.Load() > 0 && acceptedAbs.Load() > 0 && acceptedViaDotDot.Load() > 0, "accepted classes missing: rel=%d abs=%d dotdot=%d", acceptedRel.Load(), acceptedAbs.Load(), acceptedViaDotDot.Load())
		for _, sb := range []string{"/sb", "/sb/", "/sb/in", "/sb/../sb", "//sb", "sb"} {
			c.Require(perSandbox[sb][0] > 0 && perSandbox[sb][1] > 0, "sandbox %q: accepted=%d refused=%d", sb, perSandbox[sb][0], perSandbox[sb][1])
		}
	}
	c.Set("distinct_outcomes", len(outcomeClasses))
	c.Assume("lexical resolution only (the statement's word): symlinks inside the sandbox are out of scope")
	c.Assume("a relative path is resolved starting in the sandbox directory (that is the file the commands open); a relative sandbox is relative to the process directory")
	c.Assume("the converse (every path inside the sandbox is accepted) is not demanded: e.g. sandbox '/' or '.' refuse everything; counted in refused_although_inside_information_only")
	c.Assume("an empty sandbox setting means 'no sandbox configured' and is outside the statement")
}
