//go:build verif

package nebula

import (
	"bytes"
	"encoding/binary"
	"fmt"
	"net/netip"
	"runtime"
	"sort"
	"strings"
	"testing"
	"testing/cryptotest"

	"github.com/slackhq/nebula/cert"
	"github.com/slackhq/nebula/config"
	"github.com/slackhq/nebula/header"
	"github.com/slackhq/nebula/noiseutil"
	"github.com/slackhq/nebula/overlay/tio"
	"github.com/slackhq/nebula/zzverif/mc"
	"github.com/slackhq/nebula/zzverif/vtime"
)

// C15 — relays never see or alter end-to-end traffic; attribution is by tunnel key.
//
// Four REAL nodes: A—R—B and C—R—B (A and C reach B only through relay R; every tunnel and every relay slot is built by
// the real handshake / relay-negotiation code). The relay is wrapped by a byzantine filter that lives in the harness at
// the wire level: every data frame R forwards is taken off the wire and the explorer decides what R "does" with it —
// forward as is, drop, send A's inner packet on the slot of the other pair (C—R—B) or on a slot R obtained from B by
// lying about the relayed-from address, replay it (raw, and re-wrapped in a fresh authentic outer frame). Authentic outer
// frames are produced with R's own real tunnel keys (Interface.SendVia on R), i.e. exactly what a malicious relay can do.
// In every distinct state the held frame is additionally rewritten at every byte / truncated / spliced / re-indexed and
// delivered to the real endpoint (raw and re-authenticated by R on every slot it holds towards that endpoint).
//
// Oracles (independent of the code under test: byte comparisons, and trial decryption with every key R holds):
//  (1) no 16-byte marker of an injected payload occurs in any datagram R receives or emits, nor in R's tun output, and no
//      tunnel key held by R opens the inner payload of a relayed frame (R never holds plaintext);
//  (2) an endpoint's tun only ever receives packets byte-identical to what the peer's tun injected;
//  (3) the packet is attributed to the true sender's tunnel whatever slot carried it: only the true sender's tunnel
//      (replay window / liveness flag) moves, and B's per-peer firewall (port 2000 only for "a", 3000 only for "c")
//      never lets A's packet to port 3000 through, also when it arrives on C's slot.

var c15Fake = netip.MustParseAddr("10.0.0.77") // an address nobody owns: what a lying relay claims as relayed-from

func c15Marker(n int) []byte {
	return []byte{0xc1, 0x5e, 'M', 'K', byte(n >> 8), byte(n), 0x9d, 0x3a, 0x71, 0xe4, 0x0b, 0xd6, 0x58, 0xaf, 0x27, 0x93}
}

type c15Inject struct {
	origin, dest string
	port         uint16
	bytes        []byte
	mark         int
	allowed      bool // the destination's firewall admits it when (and only when) attributed to the true sender
	gen          int
	delivered    int
	spoof        bool // hostile sender colluding with the relay: inner source address is another peer's
}

type c15Held struct {
	pkt   vpkt   // the datagram R emitted towards an endpoint
	inner []byte // the relayed payload (inner nebula packet: plaintext header + end-to-end ciphertext)
	inj   int    // index into w.inj (-1 unknown)
}

type c15Stats struct {
	rFrames, keyTrials, tunChecked, sweepDeliveries, sweeps, xslotSends, lieSends, lieRefused, replays, fwdDelivered,
	denied3000, reestabs, authenticAfterSweep, spoofXslot int64
}

type c15World struct {
	t      testing.TB
	c      *mc.Check
	st     *c15Stats
	net    *vnet
	a, r   *vnode
	b, cn  *vnode
	inj    []c15Inject
	held   []c15Held
	last   *c15Held
	pend   int // injection whose frame is currently travelling (-1 none)
	filter bool
	gen    int
	lie    *Relay // R's (unregistered) record of the slot it obtained from B by lying
	hist   []string
	bad    bool
	dead    bool // scenario broke after a reported violation
	inSweep bool // frames built by the sweep are the harness's own rewrites: marker scan only, no key trials
	tunPos map[string]int
	nb     []byte
}

func (w *c15World) violation(sig string, detail map[string]any) {
	detail["history"] = strings.Join(w.hist, " ")
	w.bad = true
	w.c.Violation("C15: "+sig, detail)
}

// ---- world ------------------------------------------------------------------------------------------------------

func c15PeerFirewall(tb testing.TB, n *vnode) {
	cfg := config.NewC(n.l)
	err := cfg.LoadString(`
firewall:
  outbound:
    - {port: any, proto: any, host: any}
  inbound:
    - {port: 2000, proto: udp, host: a}
    - {port: 3000, proto: udp, host: c}
`)
	if err != nil {
		tb.Fatalf("c15 firewall config: %v", err)
	}
	fw, err := NewFirewallFromConfig(n.l, n.f.pki.getCertState(), cfg)
	if err != nil {
		tb.Fatalf("c15 firewall: %v", err)
	}
	n.f.firewall = fw
}

func (w *c15World) teach() {
	a, r, b, cn := w.a, w.r, w.b, w.cn
	a.injectLighthouseAddr(r.vpnIP, r.udp)
	a.injectRelays(b.vpnIP, []netip.Addr{r.vpnIP})
	cn.injectLighthouseAddr(r.vpnIP, r.udp)
	cn.injectRelays(b.vpnIP, []netip.Addr{r.vpnIP})
	r.injectLighthouseAddr(a.vpnIP, a.udp)
	r.injectLighthouseAddr(b.vpnIP, b.udp)
	r.injectLighthouseAddr(cn.vpnIP, cn.udp)
	b.injectLighthouseAddr(r.vpnIP, r.udp)
	b.injectRelays(a.vpnIP, []netip.Addr{r.vpnIP})
	b.injectRelays(cn.vpnIP, []netip.Addr{r.vpnIP})
}

// c15TB lets the world builder survive a flake of the shared node assembly on an oversubscribed machine ("lighthouse
// query worker did not exit": a goroutine-count wait loop that can time out when the box is 5-8x oversubscribed): the
// failure is turned into a panic that c15Net recovers from, and the build is retried. Any other failure stays fatal.
type c15TB struct{ testing.TB }
type c15Retry struct{ msg string }

func (b c15TB) Fatalf(format string, args ...any) { panic(c15Retry{fmt.Sprintf(format, args...)}) }
func (b c15TB) Fatal(args ...any)                 { panic(c15Retry{fmt.Sprint(args...)}) }

// c15Net = vRelayNet(+C) with pinned randomness exactly as vNewNet does it, retried on the assembly flake.
func c15Net(t testing.TB, seed int64) (net *vnet) {
	extra := vnodeSpec{Name: "c", Networks: "10.0.0.3/24", Udp: "192.0.2.3:4242", Overrides: m{"relay": m{"use_relays": true}}}
	// one P while the nodes are assembled: the goroutine the assembly waits for then runs on this very thread
	defer runtime.GOMAXPROCS(runtime.GOMAXPROCS(1))
	for attempt := 0; ; attempt++ {
		func() {
			defer func() {
				if r := recover(); r != nil {
					rt, ok := r.(c15Retry)
					if !ok {
						panic(r)
					}
					if attempt >= 3 || !strings.Contains(rt.msg, "did not exit") {
						t.Fatalf("%s", rt.msg)
					}
					runtime.Gosched()
					net = nil
				}
			}()
			vGetPKI()
			for _, sp := range []vnodeSpec{{Name: "a", Networks: "10.0.0.1/24"}, {Name: "r", Networks: "10.0.0.9/24"}, {Name: "b", Networks: "10.0.0.2/24"}, extra} {
				vGetPKI().leafFor(sp.Name, sp.Networks, sp.Unsafe, sp.Groups, cert.Version2) // minted once, before randomness is pinned
			}
			if tt, ok := t.(*testing.T); ok {
				cryptotest.SetGlobalRandom(tt, uint64(seed)+1)
			}
			net = vRelayNet(c15TB{t}, seed, extra)
			net.tb = t
		}()
		if net != nil {
			return net
		}
	}
}

func c15New(t testing.TB, c *mc.Check, st *c15Stats) *c15World {
	net := c15Net(t, c.Seed())
	w := &c15World{t: t, c: c, st: st, net: net, a: net.node("a"), r: net.node("r"), b: net.node("b"), cn: net.node("c"), pend: -1,
		tunPos: map[string]int{}, nb: make([]byte, 12)}
	c15PeerFirewall(t, w.b)
	w.teach()
	ok := w.establish("a", "b", 2000) && w.establish("b", "a", 1000) && w.establish("c", "b", 3000) && w.establish("b", "c", 1000)
	if !ok {
		if c.Violations() == 0 {
			c.Broken("c15: scenario could not be established (hist %v)", w.hist)
		}
		w.dead = true // a violation was already reported while establishing: the verdict stands, nothing more to explore
	}
	w.filter = true
	return w
}

func (w *c15World) node(name string) *vnode { return w.net.node(name) }

// inject puts a marked UDP packet on origin's tun. spoofAs != "": a hostile origin (colluding with the relay) encrypts,
// under its OWN tunnel key, a packet whose inner source address belongs to peer spoofAs (its own stack would refuse to
// send that, so the real sendInsideMessage is called directly, past the sender's outbound firewall).
func (w *c15World) inject(origin, dest string, port uint16, spoofAs string) int {
	o, d := w.node(origin), w.node(dest)
	k := len(w.inj)
	payload := append([]byte("c15:"+origin+">"+dest+":"), c15Marker(k)...)
	src := o.vpnIP
	if spoofAs != "" {
		src = w.node(spoofAs).vpnIP
	}
	pkt := vUDPPacket(src, d.vpnIP, 999, port, payload)
	allowed := spoofAs == ""
	if dest == "b" && allowed {
		allowed = (origin == "a" && port == 2000) || (origin == "c" && port == 3000)
	}
	w.inj = append(w.inj, c15Inject{origin: origin, dest: dest, port: port, bytes: pkt, mark: k, allowed: allowed, gen: w.gen, spoof: spoofAs != ""})
	w.pend = k
	if spoofAs == "" {
		o.tunSend(pkt)
	} else if hi := o.f.hostMap.QueryVpnAddr(d.vpnIP); hi != nil && hi.ConnectionState != nil {
		o.f.sendInsideMessage(hi, tio.Packet{Bytes: append([]byte(nil), pkt...)}, o.nb, o.sb)
		o.f.flushSendBatch(o.sb, 0)
		o.settle()
	}
	w.collect()
	return k
}

// establish sends a marked packet and runs the network loss-free (filter off) until the destination's tun has it.
func (w *c15World) establish(origin, dest string, port uint16) bool {
	saved := w.filter
	w.filter = false
	defer func() { w.filter = saved }()
	k := w.inject(origin, dest, port, "")
	for round := 0; round < 40; round++ {
		w.run()
		if w.inj[k].delivered > 0 {
			return true
		}
		vtime.Advance(100 * vtime.Millisecond)
		for _, n := range w.net.nodes {
			n.hsTick()
		}
		w.collect()
	}
	return w.inj[k].delivered > 0
}

// ---- wire -------------------------------------------------------------------------------------------------------

func c15IsRelayFrame(d []byte) (inner []byte, ok bool) {
	var h header.H
	if len(d) < header.Len+16 || h.Parse(d) != nil || h.Type != header.Message || h.Subtype != header.MessageRelay {
		return nil, false
	}
	return d[header.Len : len(d)-16], true
}

// observeR is oracle (1): applied to every datagram R receives or emits.
func (w *c15World) observeR(dir string, d []byte) {
	for i := range w.inj {
		if bytes.Contains(d, c15Marker(w.inj[i].mark)) {
			w.violation("plaintext of a relayed packet is visible on the relay ("+dir+")", map[string]any{"datagram": fmt.Sprintf("%x", d), "header": vDescribe(d), "marker": w.inj[i].mark})
			return
		}
	}
	inner, ok := c15IsRelayFrame(d)
	if !ok || w.inSweep {
		return
	}
	var ih header.H
	if ih.Parse(inner) != nil || ih.Type == header.Handshake || ih.Type == header.RecvError || len(inner) < header.Len+16 {
		return // handshake messages are not tunnel traffic (C05)
	}
	w.st.rFrames++
	hmap := w.r.f.hostMap
	hmap.RLock()
	his := make([]*HostInfo, 0, len(hmap.Indexes))
	for _, hi := range hmap.Indexes {
		his = append(his, hi)
	}
	hmap.RUnlock()
	for _, hi := range his {
		cs := hi.ConnectionState
		if cs == nil {
			continue
		}
		for which, k := range []noiseutil.CipherState{cs.dKey, cs.eKey} {
			if k == nil {
				continue
			}
			w.st.keyTrials++
			if out, err := k.DecryptDanger(nil, inner[:header.Len], inner[header.Len:], ih.MessageCounter, w.nb); err == nil {
				w.violation("a tunnel key held by the relay opens the relayed end-to-end payload", map[string]any{"dir": dir, "inner_header": vDescribe(inner),
					"relay_tunnel_with": fmt.Sprint(hi.vpnAddrs), "key": []string{"dKey", "eKey"}[which], "plaintext_has_marker": bytes.Contains(out, []byte{0xc1, 0x5e, 'M', 'K'})})
				return
			}
		}
	}
}

// collect gathers node outputs; everything R emitted is observed, R's tun must stay silent, endpoint tuns are judged.
func (w *c15World) collect() {
	before := len(w.net.inflight)
	w.net.collect()
	for _, p := range w.net.inflight[before:] {
		if p.From == w.r.udp {
			w.observeR("emitted", p.Data)
		}
	}
	w.judgeTuns(nil)
}

type c15Win struct {
	peer string
	dig  string
	in   bool
}

func c15Windows(n *vnode) map[uint32]c15Win {
	out := map[uint32]c15Win{}
	hmap := n.f.hostMap
	hmap.RLock()
	defer hmap.RUnlock()
	for i, hi := range hmap.Indexes {
		if hi.ConnectionState == nil {
			continue
		}
		name := ""
		if hi.ConnectionState.peerCert != nil {
			name = hi.ConnectionState.peerCert.Certificate.Name()
		}
		out[i] = c15Win{name, vWindowDigest(hi.ConnectionState.window), hi.in.Load()}
	}
	return out
}

// moved lists the peers (other than the relay) whose tunnel at n advanced between two window snapshots.
func c15Moved(before, after map[uint32]c15Win) []string {
	set := map[string]bool{}
	for i, a := range after {
		if b, ok := before[i]; ok && b.dig != a.dig && a.peer != "r" {
			set[a.peer] = true
		}
	}
	var out []string
	for k := range set {
		out = append(out, k)
	}
	sort.Strings(out)
	return out
}

// judgeTuns is oracle (2): every packet written to a tun is byte-identical to an injected packet for that node, and the
// destination's firewall would admit it for its true sender. moved (optional) is oracle (3) for the delivery just made.
func (w *c15World) judgeTuns(moved []string) {
	for _, n := range w.net.nodes {
		name := n.spec.Name
		log := w.net.tunLog[name]
		for ; w.tunPos[name] < len(log); w.tunPos[name]++ {
			p := log[w.tunPos[name]]
			w.st.tunChecked++
			if name == "r" {
				w.violation("the relay wrote a packet to its own tun", map[string]any{"packet": fmt.Sprintf("%x", p)})
				continue
			}
			found := -1
			for i := range w.inj {
				if w.inj[i].dest == name && bytes.Equal(w.inj[i].bytes, p) {
					found = i
				}
			}
			if found < 0 {
				w.violation("an endpoint's tun received bytes nobody injected (altered or fabricated packet)", map[string]any{"node": name, "packet": fmt.Sprintf("%x", p)})
				continue
			}
			w.inj[found].delivered++
			if !w.inj[found].allowed {
				w.violation("a packet was admitted by a per-peer firewall rule that belongs to another peer (misattribution)", map[string]any{"node": name,
					"true_sender": w.inj[found].origin, "port": w.inj[found].port})
			}
			if moved != nil && !(len(moved) == 1 && moved[0] == w.inj[found].origin) {
				w.violation("a delivered packet advanced a tunnel other than its true sender's (misattribution)", map[string]any{"node": name,
					"true_sender": w.inj[found].origin, "tunnels_moved": fmt.Sprint(moved)})
			}
		}
	}
}

// deliverTo hands one datagram to a node; for endpoints the moved-tunnel attribution oracle is evaluated.
func (w *c15World) deliverTo(n *vnode, from netip.AddrPort, data []byte) []string {
	if n == w.r {
		w.observeR("received", data)
		n.deliver(from, data)
		w.collect()
		return nil
	}
	before := c15Windows(n)
	n.deliver(from, data)
	moved := c15Moved(before, c15Windows(n))
	before2 := len(w.net.inflight)
	w.net.collect()
	for _, p := range w.net.inflight[before2:] {
		if p.From == w.r.udp {
			w.observeR("emitted", p.Data)
		}
	}
	w.judgeTuns(moved)
	return moved
}

// run delivers everything in flight FIFO. With the filter on, data frames forwarded by R are held instead.
func (w *c15World) run() {
	for k := 0; k < 400 && len(w.net.inflight) > 0; k++ {
		p := w.net.inflight[0]
		w.net.inflight = w.net.inflight[1:]
		dst, ok := w.net.byUDP[p.To.Addr()]
		if !ok {
			continue
		}
		if w.filter && p.From == w.r.udp && dst != w.r {
			if inner, ok := c15IsRelayFrame(p.Data); ok {
				var ih header.H
				if ih.Parse(inner) == nil && ih.Type == header.Message && ih.Subtype == header.MessageNone {
					w.held = append(w.held, c15Held{pkt: p, inner: append([]byte(nil), inner...), inj: w.pend})
					continue
				}
			}
		}
		w.deliverTo(dst, p.From, p.Data)
	}
}

// rSlots lists the relay records R holds towards endpoint e (established pairs, plus the lie slot for B).
func (w *c15World) rSlots(e *vnode) (hi *HostInfo, slots []*Relay) {
	hi = w.r.f.hostMap.QueryVpnAddr(e.vpnIP)
	if hi == nil {
		return nil, nil
	}
	for _, r := range hi.relayState.CopyAllRelayFor() {
		if r.State == Established && r.Type == ForwardingType {
			slots = append(slots, r)
		}
	}
	sort.Slice(slots, func(i, j int) bool { return slots[i].PeerAddr.Less(slots[j].PeerAddr) })
	if e == w.b && w.lie != nil {
		slots = append(slots, w.lie)
	}
	return hi, slots
}

// wrap makes R authenticate payload towards endpoint e on the given slot with its real tunnel key and returns the frame.
func (w *c15World) wrap(hi *HostInfo, slot *Relay, payload []byte) []byte {
	w.r.conn.take()
	w.r.f.SendVia(hi, slot, append([]byte(nil), payload...), make([]byte, 12), make([]byte, mtu), false, 0)
	out := w.r.conn.take()
	if len(out) != 1 {
		return nil
	}
	w.net.wire = append(w.net.wire, out[0].Data)
	w.observeR("emitted", out[0].Data)
	return out[0].Data
}

func (w *c15World) ownSlot(slots []*Relay, h *c15Held) *Relay {
	var oh header.H
	_ = oh.Parse(h.pkt.Data)
	for _, s := range slots {
		if s.RemoteIndex == oh.RemoteIndex {
			return s
		}
	}
	return nil
}

// makeLie: R asks B for a relay slot claiming the traffic comes from an address that is not the true sender's.
func (w *c15World) makeLie() {
	hiB := w.r.f.hostMap.QueryVpnAddr(w.b.vpnIP)
	if hiB == nil {
		return
	}
	send := func(from netip.Addr, idx uint32) {
		msg, _ := (&NebulaControl{Type: NebulaControl_CreateRelayRequest, InitiatorRelayIndex: idx,
			RelayFromAddr: netAddrToProtoAddr(from), RelayToAddr: netAddrToProtoAddr(w.b.vpnIP)}).Marshal()
		w.r.f.SendMessageToHostInfo(header.Control, 0, hiB, msg, make([]byte, 12), make([]byte, mtu))
		w.collect()
		saved := w.filter
		w.filter = false
		w.run()
		w.filter = saved
	}
	bR := w.b.f.hostMap.QueryVpnAddr(w.r.vpnIP)
	if bR == nil {
		return
	}
	// lies that name an existing peer with a different index, or B itself, must be refused by B
	beforeA, okA := bR.relayState.QueryRelayForByIp(w.a.vpnIP)
	send(w.a.vpnIP, 0x0a0a0a0a)
	send(w.b.vpnIP, 0x0b0b0b0b)
	afterA, _ := bR.relayState.QueryRelayForByIp(w.a.vpnIP)
	_, self := bR.relayState.QueryRelayForByIp(w.b.vpnIP)
	if okA && *beforeA == *afterA && !self {
		w.st.lieRefused++
	}
	send(c15Fake, 0x0c0c0c0c)
	if rl, ok := bR.relayState.QueryRelayForByIp(c15Fake); ok {
		w.lie = &Relay{Type: ForwardingType, State: Established, LocalIndex: 0x0c0c0c0c, RemoteIndex: rl.LocalIndex, PeerAddr: c15Fake}
	}
}

// ---- events -----------------------------------------------------------------------------------------------------

func (w *c15World) apply(ev string) {
	w.hist = append(w.hist, ev)
	if w.dead {
		return
	}
	switch ev { // events whose precondition vanished (only possible when the code under test misbehaves) are no-ops
	case "fwd", "drop", "xslot", "lieslot":
		if len(w.held) == 0 {
			return
		}
	case "replay":
		if w.last == nil {
			return
		}
	}
	switch ev {
	case "sendA2000":
		w.inject("a", "b", 2000, "")
		w.run()
	case "sendA3000":
		w.inject("a", "b", 3000, "")
		w.run()
	case "sendAasC":
		w.inject("a", "b", 3000, "c")
		w.run()
	case "sendC3000":
		w.inject("c", "b", 3000, "")
		w.run()
	case "sendB":
		w.inject("b", "a", 1000, "")
		w.run()
	case "fwd":
		h := w.held[0]
		w.held = w.held[1:]
		before := w.delivered(h.inj)
		w.deliverTo(w.net.byUDP[h.pkt.To.Addr()], h.pkt.From, h.pkt.Data)
		if w.delivered(h.inj) > before {
			w.st.fwdDelivered++
		} else if h.inj >= 0 && !w.inj[h.inj].allowed {
			w.st.denied3000++
		}
		w.last = &h
		w.run()
	case "drop":
		w.held = w.held[1:]
	case "xslot", "lieslot":
		h := w.held[0]
		e := w.net.byUDP[h.pkt.To.Addr()]
		if ev == "lieslot" && w.lie == nil {
			w.makeLie()
		}
		hi, slots := w.rSlots(e)
		own := w.ownSlot(slots, &h)
		for _, s := range slots {
			if s == own || (ev == "lieslot") != (s == w.lie) {
				continue
			}
			if f := w.wrap(hi, s, h.inner); f != nil {
				w.deliverTo(e, w.r.udp, f)
				if ev == "xslot" {
					w.st.xslotSends++
					if h.inj >= 0 && w.inj[h.inj].spoof {
						w.st.spoofXslot++
					}
				} else {
					w.st.lieSends++
				}
			}
		}
		w.run()
	case "replay":
		h := *w.last
		e := w.net.byUDP[h.pkt.To.Addr()]
		w.deliverTo(e, h.pkt.From, h.pkt.Data) // outer replay
		hi, slots := w.rSlots(e)
		for _, s := range slots { // inner replay inside fresh authentic outer frames, on every slot
			if f := w.wrap(hi, s, h.inner); f != nil {
				w.deliverTo(e, w.r.udp, f)
				w.st.replays++
			}
		}
		w.run()
	case "reestab":
		// A tears down its tunnel with B (notified through the relay) and with R, then everything is renegotiated
		w.filter = false
		if hi := w.a.f.hostMap.QueryVpnAddr(w.b.vpnIP); hi != nil {
			w.a.f.sendCloseTunnel(hi)
			w.a.f.closeTunnel(hi)
		}
		w.collect()
		w.run()
		if hi := w.a.f.hostMap.QueryVpnAddr(w.r.vpnIP); hi != nil {
			w.a.f.sendCloseTunnel(hi)
			w.a.f.closeTunnel(hi)
		}
		w.collect()
		w.run()
		w.gen++
		w.teach()
		if !(w.establish("a", "b", 2000) && w.establish("b", "a", 1000)) {
			if w.c.Violations() == 0 {
				w.c.Broken("c15: re-establishment failed (hist %v)", w.hist)
			}
			w.dead = true
		}
		w.filter = true
		w.st.reestabs++
	default:
		w.c.Broken("c15: unknown event %q", ev)
	}
}

func (w *c15World) delivered(inj int) int {
	if inj < 0 {
		return 0
	}
	return w.inj[inj].delivered
}

func (w *c15World) class(inj int) string {
	if inj < 0 {
		return "?"
	}
	i := w.inj[inj]
	return fmt.Sprintf("%s>%s:%d@g%d%s", i.origin, i.dest, i.port, i.gen, map[bool]string{true: "spoof"}[i.spoof])
}

func (w *c15World) menu(maxInj, maxGen int) []string {
	var mnu []string
	if w.dead {
		return nil
	}
	scenario := 4 + 2*w.gen // injections made by establish()
	if len(w.inj)-scenario < maxInj && len(w.held) < 2 {
		mnu = append(mnu, "sendA2000", "sendC3000", "sendA3000", "sendAasC", "sendB")
	}
	if len(w.held) > 0 {
		mnu = append(mnu, "fwd", "xslot", "lieslot", "drop")
	}
	if w.last != nil {
		mnu = append(mnu, "replay")
	}
	if w.gen < maxGen {
		mnu = append(mnu, "reestab")
	}
	return mnu
}

// key: structural canonical state (no index values, no key bytes).
func (w *c15World) key() string {
	var sb strings.Builder
	fmt.Fprintf(&sb, "gen=%d lie=%v|", w.gen, w.lie != nil)
	cnt := map[string][2]int{}
	for _, in := range w.inj {
		k := w.class(in.mark)
		v := cnt[k]
		v[0]++
		v[1] += in.delivered
		cnt[k] = v
	}
	var ks []string
	for k, v := range cnt {
		ks = append(ks, fmt.Sprintf("%s=%d/%d", k, v[0], v[1]))
	}
	sort.Strings(ks)
	sb.WriteString(strings.Join(ks, ","))
	sb.WriteString("|held:")
	for _, h := range w.held {
		sb.WriteString(w.class(h.inj) + fmt.Sprintf("d%d;", w.delivered(h.inj)))
	}
	if w.last != nil {
		sb.WriteString("|last:" + w.class(w.last.inj) + fmt.Sprintf("d%d", w.delivered(w.last.inj)))
	}
	for _, n := range w.net.nodes {
		sb.WriteString("|" + n.spec.Name + ":")
		hmap := n.f.hostMap
		hmap.RLock()
		var parts []string
		for _, hi := range hmap.Indexes {
			var rs []string
			for _, r := range hi.relayState.CopyAllRelayFor() {
				rs = append(rs, fmt.Sprintf("%v/t%d/s%d", r.PeerAddr, r.Type, r.State))
			}
			sort.Strings(rs)
			parts = append(parts, fmt.Sprintf("%v%v via%v", hi.vpnAddrs, rs, hi.relayState.CopyRelayIps()))
		}
		hmap.RUnlock()
		sort.Strings(parts)
		sb.WriteString(strings.Join(parts, ";"))
	}
	return sb.String()
}

// ---- the per-state rewrite sweep ---------------------------------------------------------------------------------

type c15Mut struct {
	class string
	data  []byte
}

func (w *c15World) innerMutants(h *c15Held, e *vnode, thorough bool) []c15Mut {
	p := h.inner
	var ms []c15Mut
	add := func(class string, d []byte) {
		if !bytes.Equal(d, p) {
			ms = append(ms, c15Mut{class, d})
		}
	}
	vals := []byte{0xff, 0x01, 0x80}
	if thorough {
		vals = []byte{0x01, 0x02, 0x04, 0x08, 0x10, 0x20, 0x40, 0x80, 0xff}
	}
	for i := range p { // rewrite any byte
		for _, v := range vals {
			d := append([]byte(nil), p...)
			d[i] ^= v
			add("inner-byte", d)
		}
	}
	for l := 0; l < len(p); l++ {
		add("inner-truncate", append([]byte(nil), p[:l]...))
	}
	add("inner-extend", append(append([]byte(nil), p...), 0))
	// inner index re-pointed at every tunnel / relay index the endpoint knows (attribution attempt)
	hmap := e.f.hostMap
	hmap.RLock()
	idxs := []uint32{0}
	for i := range hmap.Indexes {
		idxs = append(idxs, i)
	}
	for i := range hmap.Relays {
		idxs = append(idxs, i)
	}
	hmap.RUnlock()
	sort.Slice(idxs, func(i, j int) bool { return idxs[i] < idxs[j] })
	var ih header.H
	_ = ih.Parse(p)
	for _, ix := range idxs {
		d := append([]byte(nil), p...)
		binary.BigEndian.PutUint32(d[4:8], ix)
		add("inner-index", d)
	}
	for _, ctr := range []uint64{0, 1, ih.MessageCounter - 1, ih.MessageCounter + 1, ih.MessageCounter + 1000, 1 << 40} {
		d := append([]byte(nil), p...)
		binary.BigEndian.PutUint64(d[8:16], ctr)
		add("inner-counter", d)
	}
	for ty := 0; ty < 8; ty++ {
		for _, st := range []byte{0, 1} {
			d := append([]byte(nil), p...)
			d[0] = d[0]&0xf0 | byte(ty)
			d[1] = st
			add("inner-type", d)
		}
	}
	// splices with the other held / last forwarded inner packets
	others := [][]byte{}
	for i := range w.held {
		if &w.held[i] != h {
			others = append(others, w.held[i].inner)
		}
	}
	if w.last != nil {
		others = append(others, w.last.inner)
	}
	for _, o := range others {
		if len(o) > header.Len {
			add("inner-splice", append(append([]byte(nil), p[:header.Len]...), o[header.Len:]...))
			add("inner-splice", append(append([]byte(nil), o[:header.Len]...), p[header.Len:]...))
		}
	}
	return ms
}

// sweep delivers every rewrite of held[0] to the real endpoint; nothing may reach the tun and no end-to-end tunnel may move.
func (w *c15World) sweep(thorough bool) {
	h := &w.held[0]
	e := w.net.byUDP[h.pkt.To.Addr()]
	hi, slots := w.rSlots(e)
	if hi == nil {
		return
	}
	w.st.sweeps++
	w.inSweep = true
	defer func() { w.inSweep = false }()
	check := func(class string, frame []byte, from netip.AddrPort) bool {
		tunBefore := len(w.net.tunLog[e.spec.Name])
		moved := w.deliverTo(e, from, frame)
		w.st.sweepDeliveries++
		if len(w.net.tunLog[e.spec.Name]) != tunBefore {
			w.violation("a rewritten relayed packet was delivered to the endpoint's tun ("+class+")", map[string]any{"frame": fmt.Sprintf("%x", frame), "class": class})
			return false
		}
		if len(moved) > 0 {
			w.violation("a rewritten relayed packet moved an end-to-end tunnel's replay window ("+class+")", map[string]any{"frame": fmt.Sprintf("%x", frame), "class": class, "moved": fmt.Sprint(moved)})
			return false
		}
		return true
	}
	for _, mu := range w.innerMutants(h, e, thorough) {
		for _, s := range slots {
			if f := w.wrap(hi, s, mu.data); f != nil {
				if !check(mu.class, f, w.r.udp) {
					return
				}
			}
		}
		if w.c.OutOfTime() {
			return
		}
	}
	raw := h.pkt.Data
	for i := 0; i < len(raw)*8; i++ {
		d := append([]byte(nil), raw...)
		d[i/8] ^= 1 << uint(i%8)
		if !check("outer-bitflip", d, w.r.udp) {
			return
		}
	}
	// vacuity: after all that, the authentic frame is still accepted (and attributed / filtered correctly)
	w.inSweep = false
	inj := h.inj
	before := w.delivered(inj)
	w.deliverTo(e, h.pkt.From, h.pkt.Data)
	if inj >= 0 && before == 0 && w.inj[inj].allowed && w.inj[inj].gen == w.gen {
		if w.delivered(inj) != before+1 {
			if !w.bad {
				w.c.Broken("c15: authentic held frame not accepted after the sweep (hist %v, class %s)", w.hist, w.class(inj))
			}
		} else {
			w.st.authenticAfterSweep++
		}
	}
}

// ---- the check --------------------------------------------------------------------------------------------------

func TestVerifC15(t *testing.T) {
	c := mc.Begin(t, "C15", "model_checking")
	defer c.End()
	st := &c15Stats{}

	run := func(hist []string) *c15World {
		w := c15New(t, c, st)
		for _, e := range hist {
			w.apply(e)
		}
		return w
	}
	// determinism: one fixed history twice — identical wire bytes and canonical state
	probe := []string{"sendA2000", "xslot", "lieslot", "fwd", "replay", "sendAasC", "xslot", "fwd", "sendB", "fwd"}
	w1 := run(probe)
	k1, h1 := w1.key(), w1.net.wireHash()
	w1.net.close()
	w2 := run(probe)
	k2, h2 := w2.key(), w2.net.wireHash()
	w2.net.close()
	if (k1 != k2 || h1 != h2) && c.Violations() == 0 {
		c.Broken("c15: replay is not deterministic: %s/%s\n%s\n%s", h1, h2, k1, k2)
	}

	depth := mc.Pick(c, 4, 7)
	maxInj := mc.Pick(c, 2, 3)
	maxGen := mc.Pick(c, 1, 2)
	swept := map[string]bool{}
	mc.BFSReplay(c, mc.BFSConfig[string]{
		MaxDepth: depth, Workers: 1,
		Stop:  func() bool { return c.OutOfTime() || c.Violations() > 50 },
		Label: func(e string) string { return e },
		Run: func(hist []string) (string, []string) {
			w := run(hist)
			defer w.net.close()
			key := w.key()
			mnu := w.menu(maxInj, maxGen)
			if len(w.held) > 0 && !w.bad && !w.dead {
				// one sweep per class of held frame x relay generation x slot set x replay context (the rewrites only
				// concern the endpoint's handling of this frame; other packets' delivery counts do not enter)
				_, slots := w.rSlots(w.net.byUDP[w.held[0].pkt.To.Addr()])
				sk := fmt.Sprintf("%s d%d gen%d slots%d held%d last%v", w.class(w.held[0].inj), w.delivered(w.held[0].inj), w.gen, len(slots), len(w.held), w.last != nil)
				if !swept[sk] {
					swept[sk] = true
					w.sweep(c.Thorough())
				}
			}
			return key, mnu
		},
	})

	c.Set("relay_frames_tried_with_relay_keys", st.rFrames)
	c.Set("relay_key_trials", st.keyTrials)
	c.Set("tun_packets_judged", st.tunChecked)
	c.Set("state_sweeps", st.sweeps)
	c.Set("rewritten_frames_delivered", st.sweepDeliveries)
	c.Set("cross_slot_sends", st.xslotSends)
	c.Set("lie_slot_sends", st.lieSends)
	c.Set("lies_refused_by_endpoint", st.lieRefused)
	c.Set("replayed_frames", st.replays)
	c.Set("honest_forwards_delivered", st.fwdDelivered)
	c.Set("port3000_from_a_denied", st.denied3000)
	c.Set("spoofed_source_sent_on_the_spoofed_peers_slot", st.spoofXslot)
	c.Set("relay_reestablishments", st.reestabs)
	c.Set("authentic_accepted_after_sweep", st.authenticAfterSweep)
	c.Set("explanation", "states = distinct structural network states (relay slots and their states on every node, held/forwarded frames by class, deliveries per class); transitions = histories replayed on four real nodes; in each new state with a held frame every rewrite is delivered to the real endpoint")
	c.Assume("forged = the enumerated rewrites; AEAD unforgeability is assumed beyond them")
	c.Assume("a relay frame carries no address: the relayed-from claim is the slot it arrives on; lying = using another pair's slot or a slot obtained with a false RelayFromAddr")
	c.Assume("at-most-once delivery under replay is C12's property; here a replay must only never produce different bytes or another tunnel's attribution")
	if c.Violations() == 0 && !c.OutOfTime() {
		c.Require(st.rFrames > 0 && st.keyTrials > 0, "no relayed frame was tried against the relay's keys")
		c.Require(st.fwdDelivered > 0, "honest forwarding never delivered a packet")
		c.Require(st.xslotSends > 0 && st.lieSends > 0 && st.lieRefused > 0, "cross-slot (%d) / lie-slot (%d) / refused lies (%d) not reached", st.xslotSends, st.lieSends, st.lieRefused)
		c.Require(st.denied3000 > 0 && st.spoofXslot > 0, "A's packet to C's port (%d) / A's packet with C's source address on C's slot (%d) never tried", st.denied3000, st.spoofXslot)
		c.Require(st.replays > 0 && st.sweeps > 0 && st.authenticAfterSweep > 0, "replays (%d) / sweeps (%d) / authentic-after-sweep (%d) not reached", st.replays, st.sweeps, st.authenticAfterSweep)
		c.Require(st.reestabs > 0, "relay re-establishment never happened")
	}
}
