//go:build verif

package nebula

import (
	"context"
	"fmt"
	"log/slog"
	"net/netip"
	"reflect"
	"runtime"
	"sort"
	"strings"
	"sync"
	"sync/atomic"
	"testing"
	"unsafe"

	"github.com/gaissmai/bart"
	"github.com/rcrowley/go-metrics"
	"github.com/slackhq/nebula/cert"
	"github.com/slackhq/nebula/cert_test"
	"github.com/slackhq/nebula/firewall"
	"github.com/slackhq/nebula/zzverif/mc"
	"github.com/slackhq/nebula/zzverif/vtime"
)

// C18 — tracked flows are per-tuple and expire when idle.
//
// Explicit-state BFS by replay (E2) over a REAL Firewall (NewFirewall + AddRule, real conntrack map, real TimerWheel,
// real routine-local ConntrackCacheTicker objects) on the virtual clock. Every event is one real Firewall.Drop call or
// one advance of the virtual clock. The reference is a map tuple -> time of the last packet of that flow that passed
// (plus a flat rule list); it knows nothing about wheels, Expires fields or caches.
//
// What is judged (statement, both sentences):
//   * a packet that no rule allows and whose tuple was never allowed passes            -> violation (per-tuple)
//   * ... whose flow has been idle longer than its timeout                               -> violation (expiry)
//   * ... whose flow was already refused as expired and not re-allowed since            -> violation (sentence 2)
//   * ... whose flow has been idle for less than timeout (- cache period) is refused    -> violation (flow cut early)
// In the band in between either answer is accepted and the reference follows the implementation.

const c18Unit = vtime.Second

type c18Cfg struct {
	Name          string
	TCP, UDP, Def int64 // conntrack timeouts in units
	Cache         int64 // routine-local cache period in units, 0 = no cache (must be below the smallest timeout)
}

func (g c18Cfg) String() string {
	return fmt.Sprintf("%s(tcp=%d udp=%d default=%d cache=%d)", g.Name, g.TCP, g.UDP, g.Def, g.Cache)
}

func (g c18Cfg) tick() int64 { // the wheel's tick is the smallest timeout (NewFirewall); recomputed here independently
	m := g.TCP
	if g.UDP < m {
		m = g.UDP
	}
	if g.Def < m {
		m = g.Def
	}
	return m
}

func (g c18Cfg) timeout(proto uint8) int64 {
	switch proto {
	case firewall.ProtoTCP:
		return g.TCP
	case firewall.ProtoUDP:
		return g.UDP
	}
	return g.Def
}

func c18ProtoClass(proto uint8) string {
	switch proto {
	case firewall.ProtoTCP:
		return "tcp"
	case firewall.ProtoUDP:
		return "udp"
	}
	return "default"
}

// flat reference rule: direction, protocol, port (0 = any). host any, local_cidr any, no CA restriction.
type c18Rule struct {
	Incoming bool
	Proto    uint8
	Port     uint16
}

var c18Rules = []c18Rule{
	{false, firewall.ProtoTCP, 80},
	{false, firewall.ProtoUDP, 53},
	{false, firewall.ProtoICMP, 0},
	{true, firewall.ProtoTCP, 22},
}

// c18RefAllows transcribes "a rule allows this packet" for the flat rules above.
func c18RefAllows(rules []c18Rule, p firewall.Packet, incoming bool) bool {
	for _, r := range rules {
		if r.Incoming != incoming || r.Proto != p.Protocol {
			continue
		}
		if p.Protocol == firewall.ProtoICMP {
			return true // ICMP rules ignore ports
		}
		if p.Fragment { // a non-first fragment carries no ports: only port-any rules can match it
			if r.Port == 0 {
				return true
			}
			continue
		}
		port := p.RemotePort
		if incoming {
			port = p.LocalPort
		}
		if r.Port == 0 || r.Port == port {
			return true
		}
	}
	return false
}

type c18Pkt struct {
	Label    string
	P        firewall.Packet
	Incoming bool
	Peer     int    // which peer's tunnel carries it (0 = p1 10.0.0.2, 1 = p2 10.0.0.3)
	Variant  string // for A' packets: the tuple field that differs from flow A
	Flow     string // name of the tuple
	// derived
	Authentic  bool
	RuleAllows bool
}

var (
	c18Me  = netip.MustParseAddr("10.0.0.1")
	c18MeU = netip.MustParseAddr("172.16.0.1") // inside my unsafe network 172.16.0.0/16
	c18P1  = netip.MustParseAddr("10.0.0.2")
	c18P2  = netip.MustParseAddr("10.0.0.3")
)

func c18Alphabet(full bool) []c18Pkt {
	tA := firewall.Packet{LocalAddr: c18Me, RemoteAddr: c18P1, LocalPort: 1000, RemotePort: 80, Protocol: firewall.ProtoTCP}
	tB := firewall.Packet{LocalAddr: c18Me, RemoteAddr: c18P1, LocalPort: 1000, RemotePort: 53, Protocol: firewall.ProtoUDP}
	tC := firewall.Packet{LocalAddr: c18Me, RemoteAddr: c18P1, LocalPort: 0, RemotePort: 7, Protocol: firewall.ProtoICMP}
	tD := firewall.Packet{LocalAddr: c18Me, RemoteAddr: c18P1, LocalPort: 22, RemotePort: 5000, Protocol: firewall.ProtoTCP}
	mod := func(f func(p *firewall.Packet)) firewall.Packet { p := tA; f(&p); return p }
	out := []c18Pkt{
		{Label: "A.out", P: tA, Flow: "A"},
		{Label: "A.in", P: tA, Incoming: true, Flow: "A"},
		{Label: "B.out", P: tB, Flow: "B"},
		{Label: "B.in", P: tB, Incoming: true, Flow: "B"},
		{Label: "C.out", P: tC, Flow: "C"},
		{Label: "C.in", P: tC, Incoming: true, Flow: "C"},
		{Label: "D.in", P: tD, Incoming: true, Flow: "D"},
		{Label: "D.out", P: tD, Flow: "D"},
		{Label: "A'rport.in", P: mod(func(p *firewall.Packet) { p.RemotePort = 81 }), Incoming: true, Variant: "remote port", Flow: "A'rport"},
		{Label: "A'lport.in", P: mod(func(p *firewall.Packet) { p.LocalPort = 1001 }), Incoming: true, Variant: "local port", Flow: "A'lport"},
		{Label: "A'raddr.in", P: mod(func(p *firewall.Packet) { p.RemoteAddr = c18P2 }), Incoming: true, Peer: 1, Variant: "remote address", Flow: "A'raddr"},
		{Label: "A'laddr.in", P: mod(func(p *firewall.Packet) { p.LocalAddr = c18MeU }), Incoming: true, Variant: "local address", Flow: "A'laddr"},
		{Label: "A'proto.in", P: mod(func(p *firewall.Packet) { p.Protocol = firewall.ProtoUDP }), Incoming: true, Variant: "protocol", Flow: "A'proto"},
		{Label: "A'frag.in", P: mod(func(p *firewall.Packet) { p.Fragment = true }), Incoming: true, Variant: "fragment flag", Flow: "A'frag"},
		{Label: "A.in/p2", P: tA, Incoming: true, Peer: 1, Flow: "A"}, // A's tuple arriving through the tunnel of a peer that does not own 10.0.0.2
	}
	if full {
		out = append(out,
			c18Pkt{Label: "A'rport.out", P: mod(func(p *firewall.Packet) { p.RemotePort = 81 }), Variant: "remote port", Flow: "A'rport"},
			c18Pkt{Label: "A'lport.out", P: mod(func(p *firewall.Packet) { p.LocalPort = 1001 }), Flow: "A2"}, // allowed by the tcp/80 rule: a second TCP flow
			c18Pkt{Label: "A2.in", P: mod(func(p *firewall.Packet) { p.LocalPort = 1001 }), Incoming: true, Flow: "A2"},
		)
	}
	peerAddr := []netip.Addr{c18P1, c18P2}
	for i := range out {
		p := &out[i]
		p.Authentic = p.P.RemoteAddr == peerAddr[p.Peer] && (p.P.LocalAddr == c18Me || p.P.LocalAddr == c18MeU)
		p.RuleAllows = c18RefAllows(c18Rules, p.P, p.Incoming)
	}
	return out
}

type c18Ev struct {
	Kind byte // 'P' packet, 'T' clock advance
	Arg  int64
}

// ---------------------------------------------------------------------------------------------------------------
// certificates (minted once per process)

var c18Once sync.Once
var c18Pki struct {
	me    cert.Certificate
	peers [2]cert.Certificate
}

func c18Prefixes(ss ...string) []netip.Prefix {
	var out []netip.Prefix
	for _, s := range ss {
		out = append(out, netip.MustParsePrefix(s))
	}
	return out
}

func c18Certs() {
	c18Once.Do(func() {
		nb, na := vtime.Epoch.Add(-vtime.Hour), vtime.Epoch.Add(24*365*vtime.Hour)
		ca, _, caKey, _ := cert_test.NewTestCaCert(cert.Version2, cert.Curve_CURVE25519, nb, na, nil, nil, nil)
		mk := func(name string, nets, unsafe []netip.Prefix) cert.Certificate {
			c, _, _, _ := cert_test.NewTestCert(cert.Version2, cert.Curve_CURVE25519, ca, caKey, name, nb, na, nets, unsafe, nil)
			return c
		}
		c18Pki.me = mk("me", c18Prefixes("10.0.0.1/24"), c18Prefixes("172.16.0.0/16"))
		c18Pki.peers[0] = mk("p1", c18Prefixes("10.0.0.2/24"), nil)
		c18Pki.peers[1] = mk("p2", c18Prefixes("10.0.0.3/24"), nil)
	})
}

// c18Host builds the HostInfo of a peer the way the handshake does (vpnAddrs from the certificate, buildNetworks).
func c18Host(me, peer cert.Certificate) *HostInfo {
	inv := map[string]struct{}{}
	for _, g := range peer.Groups() {
		inv[g] = struct{}{}
	}
	h := &HostInfo{ConnectionState: &ConnectionState{peerCert: &cert.CachedCertificate{Certificate: peer, InvertedGroups: inv}}}
	for _, nw := range peer.Networks() {
		h.vpnAddrs = append(h.vpnAddrs, nw.Addr())
	}
	mine := new(bart.Lite) // same construction as CertState.myVpnNetworksTable
	for _, nw := range me.Networks() {
		mine.Insert(nw)
	}
	h.buildNetworks(mine, peer)
	return h
}

// ---------------------------------------------------------------------------------------------------------------
// access to the private fields of firewall.ConntrackCacheTicker (other package): read-only views for the canonical
// state and for synchronising with its ticker goroutine. A renamed field is a harness fault (exit 2), not a verdict.

type c18CacheView struct {
	v    *uint64
	tick *atomic.Uint64
	m    *firewall.ConntrackCache
}

func c18View(c *mc.Check, ct *firewall.ConntrackCacheTicker) c18CacheView {
	rv := reflect.ValueOf(ct).Elem()
	f := func(name, typ string) unsafe.Pointer {
		fv := rv.FieldByName(name)
		if !fv.IsValid() || fv.Type().String() != typ {
			c.Broken("firewall.ConntrackCacheTicker.%s is not a %s any more", name, typ)
		}
		return unsafe.Pointer(fv.UnsafeAddr())
	}
	return c18CacheView{(*uint64)(f("cacheV", "uint64")), (*atomic.Uint64)(f("cacheTick", "atomic.Uint64")), (*firewall.ConntrackCache)(f("cache", "firewall.ConntrackCache"))}
}

// ---------------------------------------------------------------------------------------------------------------
// world = real firewall + reference

const (
	c18Live    = 1 // a packet of the flow passed at lastSeen
	c18Refused = 2 // a packet of the flow was refused after it had been tracked; nothing allowed since
)

type c18Flow struct {
	state    int
	lastSeen int64
	churn    int // inserts of OTHER tuples (rule-allowed packets of untracked / stale tuples) (never tracked or refused before) made while this flow was already overdue
}

type c18Stat struct {
	rulePass, trackedPass, neverDrop, refusedDrop   int64
	mustPass, mustDrop                              map[string]int64 // judged per protocol class
	greyPass, greyDrop                              int64
	expiredDropChurn, expiredDropNoChurn            int64
	variantLive                                     map[string]int64 // A' packets judged while A is live
	wrongPeerLive                                   int64
	cacheHit, cacheReset                            int64
	maxConns                                        int
	longGap                                         int64
}

type c18World struct {
	c      *mc.Check
	cfg    c18Cfg
	alpha  []c18Pkt
	fw     *Firewall
	hosts  [2]*HostInfo
	cp     *cert.CAPool
	caches [2]*firewall.ConntrackCacheTicker // [0] = inside->outside routine, [1] = outside->inside routine
	views  [2]c18CacheView
	cancel context.CancelFunc
	now    int64
	ref    map[firewall.Packet]*c18Flow
	names  map[firewall.Packet]string
	trace  []string
	st     *c18Stat
}

func c18NewWorld(c *mc.Check, cfg c18Cfg, alpha []c18Pkt, st *c18Stat) *c18World {
	c18Certs()
	vtime.Reset()
	l := slog.New(slog.DiscardHandler)
	w := &c18World{c: c, cfg: cfg, alpha: alpha, st: st, ref: map[firewall.Packet]*c18Flow{}, names: map[firewall.Packet]string{}, cp: cert.NewCAPool()}
	for _, p := range alpha {
		w.names[p.P] = p.Flow
	}
	w.fw = NewFirewall(l, vtime.Duration(cfg.TCP)*c18Unit, vtime.Duration(cfg.UDP)*c18Unit, vtime.Duration(cfg.Def)*c18Unit, c18Pki.me)
	// private drop counters instead of the process-global go-metrics registry (not a verdict input)
	w.fw.incomingMetrics = firewallMetrics{metrics.NewCounter(), metrics.NewCounter(), metrics.NewCounter()}
	w.fw.outgoingMetrics = firewallMetrics{metrics.NewCounter(), metrics.NewCounter(), metrics.NewCounter()}
	for _, r := range c18Rules {
		if err := w.fw.AddRule(r.Incoming, r.Proto, int32(r.Port), int32(r.Port), nil, "any", "", "any", "", ""); err != nil {
			c.Broken("AddRule: %v", err)
		}
	}
	w.hosts[0] = c18Host(c18Pki.me, c18Pki.peers[0])
	w.hosts[1] = c18Host(c18Pki.me, c18Pki.peers[1])
	ctx, cancel := context.WithCancel(context.Background())
	w.cancel = cancel
	if cfg.Cache > 0 {
		// The real per-routine caches with their real ticker goroutines, ticking on the virtual clock. Wait until both
		// goroutines have registered their ticker (at virtual time 0) before the first event.
		for i := range w.caches {
			w.caches[i] = firewall.NewConntrackCacheTicker(ctx, l, vtime.Duration(cfg.Cache)*c18Unit)
			w.views[i] = c18View(c, w.caches[i])
		}
		for i := 0; vtime.PendingTimers() < 2; i++ {
			runtime.Gosched()
			if i > 50_000_000 {
				c.Broken("conntrack cache tickers did not start")
			}
		}
	}
	return w
}

func (w *c18World) close() { w.cancel() }

// advance moves the virtual clock by dt units. With caches enabled it stops at every ticker deadline and waits until
// both ticker goroutines have counted the tick, so that the replay is deterministic.
func (w *c18World) advance(dt int64) {
	w.now += dt
	target := vtime.Now().Add(vtime.Duration(dt) * c18Unit)
	if w.caches[0] != nil {
		for {
			nd, ok := vtime.NextDeadline()
			if !ok || nd.After(target) {
				break
			}
			b0, b1 := w.views[0].tick.Load(), w.views[1].tick.Load()
			vtime.Advance(nd.Sub(vtime.Now()))
			for i := 0; w.views[0].tick.Load() == b0 || w.views[1].tick.Load() == b1; i++ {
				runtime.Gosched()
				if i > 50_000_000 {
					w.c.Broken("conntrack cache ticker goroutine did not count a tick")
				}
			}
		}
	}
	vtime.Advance(target.Sub(vtime.Now()))
}

func (w *c18World) violation(sig string, extra map[string]any) {
	d := map[string]any{"config": w.cfg.String(), "history": append([]string{}, w.trace...), "now": w.now,
		"rules": "outbound: tcp/80, udp/53, icmp; inbound: tcp/22 (host any, local_cidr any)"}
	for k, v := range extra {
		d[k] = v
	}
	w.c.Violation("conntrack: "+sig, d)
}

// slack is what the reference grants above the timeout before an idle flow MUST be refused. It used to be two wheel ticks
// plus the cache period (the wheel's rounding); since Firewall.inConns compares Expires with the clock on every lookup
// (fix 990b7dd) the implementation is exact and nothing is granted: a routine-cache hit implies a pass of the same flow
// within the last cache period (< every timeout), so the caches add no slack either.
func (w *c18World) slack() int64 { return 0 }

func (w *c18World) packet(i int) {
	pk := &w.alpha[i]
	st := w.st
	var cache firewall.ConntrackCache
	if w.caches[0] != nil {
		ci := 0
		if pk.Incoming {
			ci = 1
		}
		v := w.views[ci]
		if v.tick.Load() != *v.v && len(*v.m) > 0 {
			st.cacheReset++
		}
		cache = w.caches[ci].Get()
		if _, ok := cache[pk.P]; ok {
			st.cacheHit++
		}
	}
	err := w.fw.Drop(pk.P, pk.Incoming, w.hosts[pk.Peer], w.cp, cache)
	pass := err == nil
	if n := len(w.fw.Conntrack.Conns); n > st.maxConns {
		st.maxConns = n
	}
	fl := w.ref[pk.P]
	live := func(t firewall.Packet) bool { f := w.ref[t]; return f != nil && f.state == c18Live && w.now-f.lastSeen < w.cfg.timeout(t.Protocol) }
	detail := map[string]any{"packet": pk.Label, "fwPacket": pk.P, "incoming": pk.Incoming, "drop_result": fmt.Sprint(err)}

	if !pk.Authentic {
		if live(pk.P) {
			st.wrongPeerLive++
		}
		if pass {
			w.violation("a tracked flow is honoured for a packet from a peer that does not own the remote address", detail)
		}
		return // refused before conntrack: no effect on the flow expected (checked through later events)
	}

	if pk.RuleAllows {
		if !pass {
			w.violation("a packet that a rule allows is dropped", detail)
			return
		}
		st.rulePass++
		if fl == nil || fl.state != c18Live {
			// certainly a fresh insert of this tuple (never tracked, or refused since): unrelated churn for every other flow
			// that is already overdue at this moment
			for t, o := range w.ref {
				if t != pk.P && o.state == c18Live && w.now-o.lastSeen > w.cfg.timeout(t.Protocol)+w.slack() {
					o.churn++
				}
			}
		}
		w.ref[pk.P] = &c18Flow{state: c18Live, lastSeen: w.now}
		return
	}

	// no rule allows this packet: only a live tracked flow may carry it
	if pk.Variant != "" && live(w.alpha[0].P) {
		st.variantLive[pk.Variant]++
	}
	to := w.cfg.timeout(pk.P.Protocol)
	class := c18ProtoClass(pk.P.Protocol)
	switch {
	case fl == nil:
		if pass {
			what := "its tuple was never allowed"
			if pk.Variant != "" {
				what = "its tuple differs from a tracked flow in the " + pk.Variant
			}
			w.violation("a packet that no rule allows passes although "+what, detail)
		} else {
			st.neverDrop++
		}
	case fl.state == c18Refused:
		if pass {
			detail["refused_at_idle_since"] = fl.lastSeen
			w.violation("a flow already refused as expired is honoured again without a new allowed packet", detail)
		} else {
			st.refusedDrop++
		}
	default:
		idle := w.now - fl.lastSeen
		detail["idle"], detail["timeout"], detail["granted_slack"] = idle, to, w.slack()
		switch {
		case idle < to-w.cfg.Cache:
			st.mustPass[class]++
			if !pass {
				w.violation("a tracked flow is cut although it has been idle for less than its timeout", detail)
			} else {
				st.trackedPass++
			}
		case idle <= to+w.slack():
			if pass {
				st.greyPass++
			} else {
				st.greyDrop++
			}
		default:
			st.mustDrop[class]++
			if idle > 3*int64(w.fw.Conntrack.TimerWheel.wheelLen)*w.cfg.tick() {
				st.longGap++
			}
			if pass {
				if fl.churn == 0 {
					w.violation("an expired flow is honoured: idle longer than its timeout, no other flow inserted since", detail)
				} else {
					detail["other_flows_inserted_since"] = fl.churn
					w.violation("an expired flow is honoured: idle longer than its timeout, although other flows were inserted since", detail)
				}
			} else if fl.churn > 0 {
				st.expiredDropChurn++
			} else {
				st.expiredDropNoChurn++
			}
		}
	}
	// the reference follows what the implementation did
	if pass {
		w.ref[pk.P] = &c18Flow{state: c18Live, lastSeen: w.now}
	} else if fl != nil {
		fl.state = c18Refused
	}
}

func (w *c18World) apply(e c18Ev) {
	switch e.Kind {
	case 'T':
		w.trace = append(w.trace, fmt.Sprintf("+%d", e.Arg))
		w.advance(e.Arg)
	case 'P':
		w.trace = append(w.trace, w.alpha[e.Arg].Label)
		w.packet(int(e.Arg))
	}
}

// key: canonical state, all times relative to now. Implementation part: conntrack map (remaining lifetime clamped at
// "expired": only its sign is ever read), wheel slots rotated to the current slot, expired list, phase since the last
// wheel tick (clamped beyond a full revolution, where every slot has been flushed anyway), cache contents / pending reset
// / ticker phase. Reference part: per tuple never / refused / live with idle time clamped above the judged band.
func (w *c18World) key() string {
	var sb strings.Builder
	now := vtime.Now()
	name := func(p firewall.Packet) string {
		if n, ok := w.names[p]; ok {
			return n
		}
		return fmt.Sprint(p)
	}
	ct := w.fw.Conntrack
	var cs []string
	for p, c := range ct.Conns {
		rem := c.Expires.Sub(now)
		if rem < 0 {
			rem = 0
		}
		cs = append(cs, fmt.Sprintf("%s:%d:%v:%d", name(p), rem/c18Unit, c.incoming, c.rulesVersion))
	}
	sort.Strings(cs)
	sb.WriteString(strings.Join(cs, ","))
	tw := ct.TimerWheel
	if tw.lastTick == nil {
		sb.WriteString("|lt=nil")
	} else {
		d := now.Sub(*tw.lastTick)
		if full := tw.tickDuration * vtime.Duration(tw.wheelLen+1); d >= full {
			d = full + d%tw.tickDuration
		}
		fmt.Fprintf(&sb, "|lt=%d", d/c18Unit)
	}
	list := func(tl *TimeoutList[firewall.Packet]) {
		n := 0
		for it := tl.Head; it != nil && n < 64; it = it.Next {
			sb.WriteString(name(it.Item))
			sb.WriteByte(',')
			n++
		}
		sb.WriteByte(';')
	}
	for k := 0; k < tw.wheelLen; k++ {
		list(tw.wheel[(tw.current+k)%tw.wheelLen])
	}
	sb.WriteString("|x=")
	list(tw.expired)
	if w.caches[0] != nil {
		for i := range w.views {
			v := w.views[i]
			var ks []string
			for p := range *v.m {
				ks = append(ks, name(p))
			}
			sort.Strings(ks)
			fmt.Fprintf(&sb, "|c%d=%s/%v", i, strings.Join(ks, ","), v.tick.Load() != *v.v)
		}
		if nd, ok := vtime.NextDeadline(); ok {
			fmt.Fprintf(&sb, "|tk=%d", nd.Sub(now)/c18Unit)
		}
	}
	var rs []string
	for p, f := range w.ref {
		if f.state == c18Refused {
			rs = append(rs, name(p)+"=R")
			continue
		}
		idle := w.now - f.lastSeen
		if top := w.cfg.timeout(p.Protocol) + w.slack() + 1; idle > top {
			idle = top
		}
		churn := 0
		if f.churn > 0 {
			churn = 1
		}
		rs = append(rs, fmt.Sprintf("%s=%d/%d", name(p), idle, churn))
	}
	sort.Strings(rs)
	sb.WriteString("|ref=")
	sb.WriteString(strings.Join(rs, ","))
	return sb.String()
}

func TestVerifC18(t *testing.T) {
	c := mc.Begin(t, "C18", "model_checking")
	defer c.End()

	c.Assume("observation point is Firewall.Drop on a firewall built by NewFirewall+AddRule (rules: outbound tcp/80, udp/53, icmp; inbound tcp/22; host any, local_cidr any); the packet parser and the tunnel are not in the loop")
	c.Assume("'idle' is measured from the last packet of the flow that PASSED (in either direction); refused packets are not activity")
	c.Assume("weak reading of the timeout boundary: a flow idle for exactly its timeout may be honoured or refused; it must be honoured when idle for less (minus the routine-cache period when that cache is on, because cache hits do not refresh the table), and must be refused when idle for more than its timeout (no allowance for the timer wheel's rounding: the table entry's deadline is compared with the clock on every lookup)")
	c.Assume("routine-local cache: one real ConntrackCacheTicker per direction (as listenIn / listenOut have), period below the smallest timeout; their ticker goroutines run on the virtual clock and the harness waits for each tick to be counted")
	c.Assume("timeouts are a few virtual seconds (tick = smallest timeout); production values differ only in scale")

	// "wide": a TCP timeout far above UDP timeout + granted band, so that a mixed-up protocol timeout is outside the band
	cfgs := []c18Cfg{
		{"base", 6, 3, 4, 0},
		{"wide+cache", 15, 3, 5, 2},
		{"odd", 5, 2, 7, 0}, // default timeout longest, span not a multiple of the tick
	}
	depths := []int{mc.Pick(c, 6, 7), mc.Pick(c, 5, 6), mc.Pick(c, 5, 6)}
	if c.Thorough() {
		// (the cache configurations run ~5x slower: every cache tick is a hand-off to the two real ticker goroutines)
		cfgs = append(cfgs, c18Cfg{"wide", 15, 3, 5, 0}, c18Cfg{"base+cache", 6, 3, 4, 2}, c18Cfg{"equal+cache", 4, 4, 4, 1})
		depths = append(depths, 6, 6, 6)
	}
	alpha := c18Alphabet(c.Thorough())

	st := &c18Stat{mustPass: map[string]int64{}, mustDrop: map[string]int64{}, variantLive: map[string]int64{}}
	label := func(e c18Ev) string {
		if e.Kind == 'T' {
			return fmt.Sprintf("+%d", e.Arg)
		}
		return alpha[e.Arg].Label
	}
	perCfg := map[string]any{}
	complete := true
	for ci, cfg := range cfgs {
		cfg, maxDepth := cfg, depths[ci]
		if cfg.Cache >= cfg.tick() {
			c.Broken("config %v: cache period must be below the smallest timeout", cfg)
		}
		// clock steps: 1, every timeout -1/+0/+1, just above each judged band, and more than three wheel revolutions
		dts := map[int64]bool{1: true}
		for _, to := range []int64{cfg.TCP, cfg.UDP, cfg.Def} {
			dts[to] = true
			if c.Thorough() {
				dts[to-1], dts[to+1] = true, true
			}
		}
		dts[cfg.UDP+2*cfg.tick()+cfg.Cache+1] = true
		wheelLen := cfg.TCP
		if cfg.Def > wheelLen {
			wheelLen = cfg.Def
		}
		wheelLen = wheelLen/cfg.tick() + 2
		dts[3*wheelLen*cfg.tick()+1] = true
		var menu []c18Ev
		for i := range alpha {
			menu = append(menu, c18Ev{'P', int64(i)})
		}
		var dl []int64
		for d := range dts {
			if d > 0 {
				dl = append(dl, d)
			}
		}
		sort.Slice(dl, func(i, j int) bool { return dl[i] < dl[j] })
		for _, d := range dl {
			menu = append(menu, c18Ev{'T', d})
		}
		res := mc.BFSReplay(c, mc.BFSConfig[c18Ev]{
			MaxDepth: maxDepth,
			Workers:  1, // the virtual clock is process-global
			Label:    label,
			Stop:     c.OutOfTime,
			Run: func(hist []c18Ev) (string, []c18Ev) {
				w := c18NewWorld(c, cfg, alpha, st)
				defer w.close()
				for _, e := range hist {
					w.apply(e)
				}
				return w.key(), menu
			},
		})
		fmt.Printf("INFO C18 %v: states=%d transitions=%d depth=%d closed=%v t=%.1fs\n", cfg, res.States, res.Transitions, res.MaxDepth, res.Exhaustive, c.Elapsed())
		perCfg[cfg.String()] = map[string]any{"states": res.States, "transitions": res.Transitions, "max_depth": res.MaxDepth, "closed": res.Exhaustive, "clock_steps": dl, "events": len(menu)}
		if c.OutOfTime() {
			complete = false
			break
		}
		// Second search on the same configuration: a narrow alphabet (three flows of the three protocol classes, replies, unit
		// clock steps) searched much deeper. Histories such as "allow, refresh, refresh, unrelated inserts just before the deadline,
		// probe after it" are 10+ events long and out of the wide search's depth; here they are inside the box.
		if cfg.Cache == 0 {
			var narrow []c18Ev
			for i := range alpha {
				switch alpha[i].Label {
				case "A.out", "A.in", "B.out", "B.in", "C.out", "C.in":
					narrow = append(narrow, c18Ev{'P', int64(i)})
				}
			}
			narrow = append(narrow, c18Ev{'T', 1})
			deep := mc.Pick(c, 14, 17)
			rn := mc.BFSReplay(c, mc.BFSConfig[c18Ev]{
				MaxDepth: deep,
				Workers:  1,
				Label:    label,
				Stop:     c.OutOfTime,
				Run: func(hist []c18Ev) (string, []c18Ev) {
					w := c18NewWorld(c, cfg, alpha, st)
					defer w.close()
					for _, e := range hist {
						w.apply(e)
					}
					return w.key(), narrow
				},
			})
			fmt.Printf("INFO C18 %v narrow: states=%d transitions=%d depth=%d closed=%v t=%.1fs\n", cfg, rn.States, rn.Transitions, rn.MaxDepth, rn.Exhaustive, c.Elapsed())
			perCfg[cfg.String()+" narrow alphabet"] = map[string]any{"states": rn.States, "transitions": rn.Transitions, "max_depth": rn.MaxDepth, "closed": rn.Exhaustive, "events": len(narrow)}
			if c.OutOfTime() {
				complete = false
				break
			}
		}
	}
	c.Set("per_config", perCfg)
	c.Set("packet_alphabet", len(alpha))
	c.Set("outcomes", map[string]any{
		"passed_by_rule": st.rulePass, "passed_by_live_flow": st.trackedPass, "refused_never_tracked": st.neverDrop,
		"refused_again_after_expiry": st.refusedDrop, "judged_must_pass": st.mustPass, "judged_must_drop": st.mustDrop,
		"band_passed": st.greyPass, "band_refused": st.greyDrop, "expired_refused_with_churn": st.expiredDropChurn,
		"expired_refused_without_churn": st.expiredDropNoChurn, "variant_probes_while_A_live": st.variantLive,
		"wrong_peer_probes_while_A_live": st.wrongPeerLive, "cache_hits": st.cacheHit, "cache_resets": st.cacheReset,
		"max_tracked_tuples": st.maxConns, "idle_gaps_beyond_3_revolutions_judged": st.longGap,
	})
	kinds := 0
	for _, n := range []int64{st.rulePass, st.trackedPass, st.neverDrop, st.refusedDrop, st.greyPass, st.greyDrop, st.expiredDropChurn + st.expiredDropNoChurn} {
		if n > 0 {
			kinds++
		}
	}
	c.Set("distinct_outcomes", kinds)

	// vacuity guards: only for a search that was not cut short by the soft budget and that reported nothing (a run that
	// ends in a VIOLATION is a verdict already; an implementation that misbehaves may well skew the outcome counts)
	if complete && c.Violations() == 0 {
		c.Require(st.rulePass > 0 && st.trackedPass > 0 && st.neverDrop > 0, "outcomes missing: by-rule=%d by-flow=%d never-tracked-refused=%d", st.rulePass, st.trackedPass, st.neverDrop)
		for _, cl := range []string{"tcp", "udp", "default"} {
			c.Require(st.mustPass[cl] > 0 && st.mustDrop[cl] > 0, "protocol class %s: judged must-pass=%d must-drop=%d", cl, st.mustPass[cl], st.mustDrop[cl])
		}
		c.Require(st.greyPass+st.greyDrop > 0, "no probe inside the granted band")
		c.Require(st.expiredDropChurn+st.expiredDropNoChurn+st.greyDrop > 0, "no tracked flow was ever refused after idling")
		for _, v := range []string{"remote port", "local port", "remote address", "local address", "protocol", "fragment flag"} {
			c.Require(st.variantLive[v] > 0, "tuple variant %q never probed while flow A was live", v)
		}
		c.Require(st.wrongPeerLive > 0, "wrong-peer packet never probed while flow A was live")
		c.Require(st.cacheHit > 0 && st.cacheReset > 0, "routine cache not exercised: hits=%d resets=%d", st.cacheHit, st.cacheReset)
		c.Require(st.maxConns >= 3, "never more than %d tuples tracked at once", st.maxConns)
		c.Require(st.longGap > 0, "no idle gap beyond three wheel revolutions judged")
		c.Require(kinds >= 5, "only %d distinct outcome kinds", kinds)
	}
}
