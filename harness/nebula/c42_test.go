//go:build verif

package nebula

// C42 — certificate reload never changes a node's identity.
//
// Engine E2: explicit-state BFS by history replay over the REAL PKI. Every history starts from a fresh config.C +
// NewPKIFromConfig (one of the initial certificate states of c42Inits) and submits reloads through the real
// config.C.ReloadConfigString -> PKI.reload callback. One event is one complete (certificate bundle, private key, CA
// configuration) triple; all triples over the alphabets below are offered in every state, so a state's successors are
// "every reload an operator could push". After every attempt the certificate state and trust store in use are read
// back (PKI.getCertState / GetCAPool) and judged against the statement with the facts the harness knows about the
// material it minted itself (version, key pair, curve, networks, expiry). Two real tunnels (peers signed by two
// different CAs) sit in a real HostMap under a real connectionManager; after every reload "the next check" (the real
// doTrafficCheck) runs for both and a newly blocklisted / untrusted peer must be gone.
//
// Network order: certificates carry extra networks that sort AFTER the primary network N (X) and BEFORE it (L). A v2
// certificate sorts its networks when signed, so one issued for {N, L} has L as ITS primary network although it contains
// N; v1 keeps the given order (both orders minted). Such certificates are offered as an added version, a replacing version
// and with both versions submitted, from initial states on either side (N-led and L-led). Judged after every accepted
// reload and every initial load: the node's own primary address / first network (CertState.myVpnAddrs/myVpnNetworks) did
// not move, and the v1 and v2 certificates in use share the primary network (each one's first network is the node's).

import (
	"bytes"
	"fmt"
	"net/netip"
	"slices"
	"sort"
	"strings"
	"sync"
	"testing"
	"time"

	"github.com/flynn/noise"
	"github.com/rcrowley/go-metrics"
	"github.com/slackhq/nebula/cert"
	"github.com/slackhq/nebula/cert_test"
	"github.com/slackhq/nebula/config"
	"github.com/slackhq/nebula/noiseutil"
	"github.com/slackhq/nebula/udp"
	"github.com/slackhq/nebula/zzverif/mc"
	"github.com/slackhq/nebula/zzverif/vtime"
	"go.yaml.in/yaml/v3"
)

// ---------------------------------------------------------------------------------------------------------------
// material

type c42Cert struct {
	id      string
	version cert.Version
	key     string // key pair id: k1 k2 (25519), k3 (P256)
	curve   cert.Curve
	nets    []netip.Prefix
	expired bool
	crt     cert.Certificate
	pem     string
	sig     string
}

type c42Key struct {
	id    string
	curve cert.Curve
	raw   []byte
	pem   string
}

type c42CA struct {
	id         string
	yaml       m      // pki.ca / pki.blocklist
	unreadable bool   // the statement's "unreadable CA bundle": must leave the trust store alone
	hasCA1     bool   // trusts the CA that signed peer A
	hasCAB     bool   // trusts the CA that signed peer B
	blocksA    bool   // blocklists peer A's certificate
	usable     bool   // the harness expects this configuration to load (good bundles)
}

type c42Bundle struct {
	id    string
	certs []*c42Cert // nil for raw
	raw   string     // used when certs == nil
}

type c42Material struct {
	certs   map[string]*c42Cert
	bySig   map[string]*c42Cert
	keys    map[string]*c42Key
	cas     map[string]*c42CA
	peerA   cert.Certificate
	peerB   cert.Certificate
	suite   noise.CipherSuite
	caCert  string // a CA certificate PEM (used as a bogus host certificate)
}

var c42Once sync.Once
var c42Mat *c42Material

const (
	c42N  = "10.0.0.1/24"
	c42Np = "10.9.9.9/24" // a different network (S9)
	c42Nm = "10.0.0.1/16" // same address, different mask
	c42X  = "10.5.5.1/24" // an extra network that sorts AFTER the primary one
	c42L  = "9.9.9.1/24"  // an extra network that sorts BEFORE the primary one (v2 certificates sort their networks when signed)
)

func c42Material_() *c42Material {
	c42Once.Do(func() {
		ep := vtime.Epoch
		nb, far := ep.Add(-time.Hour), ep.Add(5*365*24*time.Hour)
		caNb, caFar := ep.Add(-48*time.Hour), ep.Add(10*365*24*time.Hour)
		ca1, _, ca1Key, ca1PEM := cert_test.NewTestCaCert(cert.Version2, cert.Curve_CURVE25519, caNb, caFar, nil, nil, nil)
		caB, _, caBKey, caBPEM := cert_test.NewTestCaCert(cert.Version2, cert.Curve_CURVE25519, caNb, caFar, nil, nil, nil)
		caP, _, caPKey, caPPEM := cert_test.NewTestCaCert(cert.Version2, cert.Curve_P256, caNb, caFar, nil, nil, nil)
		_, _, _, caOldPEM := cert_test.NewTestCaCert(cert.Version2, cert.Curve_CURVE25519, caNb, ep.Add(-time.Hour), nil, nil, nil)
		mt := &c42Material{certs: map[string]*c42Cert{}, bySig: map[string]*c42Cert{}, keys: map[string]*c42Key{}, cas: map[string]*c42CA{}, caCert: string(ca1PEM)}

		pubs := map[string][]byte{}
		for _, k := range []struct {
			id    string
			curve cert.Curve
		}{{"k1", cert.Curve_CURVE25519}, {"k2", cert.Curve_CURVE25519}, {"k3", cert.Curve_P256}} {
			var pub, priv []byte
			if k.curve == cert.Curve_P256 {
				pub, priv = cert_test.P256Keypair()
			} else {
				pub, priv = cert_test.X25519Keypair()
			}
			pubs[k.id] = pub
			mt.keys[k.id] = &c42Key{id: k.id, curve: k.curve, raw: priv, pem: string(cert.MarshalPrivateKeyToPEM(k.curve, priv))}
		}
		mint := func(id string, v cert.Version, key string, nets string, expired bool, bump time.Duration) {
			k := mt.keys[key]
			ca, caKey := ca1, ca1Key
			if k.curve == cert.Curve_P256 {
				ca, caKey = caP, caPKey
			}
			b, a := nb, far.Add(bump)
			if expired {
				b, a = ep.Add(-3*time.Hour), ep.Add(-2*time.Hour)
			}
			t := &cert.TBSCertificate{Version: v, Curve: k.curve, Name: "me", Networks: vParsePrefixes(nets), NotBefore: b, NotAfter: a, PublicKey: pubs[key]}
			c, err := t.Sign(ca, ca.Curve(), caKey)
			if err != nil {
				panic(fmt.Sprintf("c42 mint %s: %v", id, err))
			}
			p, _ := c.MarshalPEM()
			// networks as the certificate itself lists them (v2 certificates sort their networks when signed)
			cc := &c42Cert{id: id, version: v, key: key, curve: k.curve, nets: c.Networks(), expired: expired, crt: c, pem: string(p), sig: string(c.Signature())}
			if other := mt.bySig[cc.sig]; other != nil {
				panic(fmt.Sprintf("c42 mint: %s and %s are the same certificate", id, other.id))
			}
			mt.certs[id] = cc
			mt.bySig[cc.sig] = cc
		}
		// k1: the node's own key pair
		mint("v1N", cert.Version1, "k1", c42N, false, 0)
		mint("v1N'", cert.Version1, "k1", c42N, false, time.Hour) // renewal: same content, new signature
		mint("v1P", cert.Version1, "k1", c42Np, false, 0)
		mint("v1NX", cert.Version1, "k1", c42N+","+c42X, false, 0)
		mint("v1M", cert.Version1, "k1", c42Nm, false, 0)
		mint("v1XN", cert.Version1, "k1", c42X+","+c42N, false, 0) // same set, other primary (v1 keeps the given order)
		mint("v1Nexp", cert.Version1, "k1", c42N, true, 0)
		mint("v2N", cert.Version2, "k1", c42N, false, 0)
		mint("v2N'", cert.Version2, "k1", c42N, false, time.Hour)
		mint("v2P", cert.Version2, "k1", c42Np, false, 0)
		mint("v2NX", cert.Version2, "k1", c42N+","+c42X, false, 0)
		mint("v2M", cert.Version2, "k1", c42Nm, false, 0)
		mint("v2Nexp", cert.Version2, "k1", c42N, true, 0)
		// extra network that sorts before the primary one. v1 keeps the order it was given (both orders are legal), a v2
		// certificate issued for {N, L} lists L first: its primary network is L although it contains N
		mint("v1NL", cert.Version1, "k1", c42N+","+c42L, false, 0)
		mint("v1LN", cert.Version1, "k1", c42L+","+c42N, false, 0)
		mint("v2LN", cert.Version2, "k1", c42N+","+c42L, false, 0)
		mint("v2LN'", cert.Version2, "k1", c42L+","+c42N, false, time.Hour)
		mint("v2LNX", cert.Version2, "k1", c42N+","+c42X+","+c42L, false, 0)
		mint("v1NLX", cert.Version1, "k1", c42N+","+c42L+","+c42X, false, 0)
		for _, id := range []string{"v2LN", "v2LN'", "v2LNX", "v1LN"} {
			if mt.certs[id].nets[0] != netip.MustParsePrefix(c42L) {
				panic("c42: " + id + " does not list the lower network first")
			}
		}
		for _, id := range []string{"v1NL", "v1NLX", "v1NX", "v2NX"} {
			if mt.certs[id].nets[0] != netip.MustParsePrefix(c42N) {
				panic("c42: " + id + " does not list the primary network first")
			}
		}
		// k2: another 25519 key pair; k3: a P256 key pair
		mint("v1N/k2", cert.Version1, "k2", c42N, false, 0)
		mint("v2N/k2", cert.Version2, "k2", c42N, false, 0)
		mint("v1N/p256", cert.Version1, "k3", c42N, false, 0)
		mint("v2N/p256", cert.Version2, "k3", c42N, false, 0)

		// peers (for the teardown half)
		mkPeer := func(ca cert.Certificate, caKey []byte, nets string) cert.Certificate {
			pub, _ := cert_test.X25519Keypair()
			t := &cert.TBSCertificate{Version: cert.Version2, Curve: cert.Curve_CURVE25519, Name: "peer", Networks: vParsePrefixes(nets), NotBefore: nb, NotAfter: far, PublicKey: pub}
			c, err := t.Sign(ca, ca.Curve(), caKey)
			if err != nil {
				panic(err)
			}
			return c
		}
		mt.peerA = mkPeer(ca1, ca1Key, "10.0.0.7/24")
		mt.peerB = mkPeer(caB, caBKey, "10.0.0.8/24")
		fpA, _ := mt.peerA.Fingerprint()

		good := string(ca1PEM) + string(caBPEM) + string(caPPEM)
		addCA := func(c *c42CA) { mt.cas[c.id] = c }
		addCA(&c42CA{id: "good", yaml: m{"ca": good}, hasCA1: true, hasCAB: true, usable: true})
		addCA(&c42CA{id: "good+blockA", yaml: m{"ca": good, "blocklist": []string{fpA}}, hasCA1: true, hasCAB: true, blocksA: true, usable: true})
		addCA(&c42CA{id: "dropCAB", yaml: m{"ca": string(ca1PEM) + string(caPPEM)}, hasCA1: true, usable: true})
		addCA(&c42CA{id: "good+expiredCA", yaml: m{"ca": good + string(caOldPEM)}, hasCA1: true, hasCAB: true, usable: true})
		addCA(&c42CA{id: "garbage", yaml: m{"ca": "-----BEGIN NEBULA CERTIFICATE V2-----\nnot base64 at all!\n-----END NEBULA CERTIFICATE V2-----\n"}, unreadable: true})
		addCA(&c42CA{id: "truncated", yaml: m{"ca": good[:len(good)-40]}, unreadable: true})
		addCA(&c42CA{id: "missing-file", yaml: m{"ca": "/nonexistent/c42/ca.crt"}, unreadable: true})
		addCA(&c42CA{id: "empty", yaml: m{"ca": ""}, unreadable: true})
		addCA(&c42CA{id: "host-cert-as-ca", yaml: m{"ca": mt.certs["v2N"].pem}, unreadable: true})
		addCA(&c42CA{id: "all-expired", yaml: m{"ca": string(caOldPEM)}})

		var err error
		if mt.suite, err = newCipherSuite(cert.Curve_CURVE25519, false, "aes", false); err != nil {
			panic(err)
		}
		c42Mat = mt
	})
	return c42Mat
}

func (mt *c42Material) bundle(ids ...string) c42Bundle {
	b := c42Bundle{id: strings.Join(ids, "+")}
	for _, id := range ids {
		c := mt.certs[id]
		if c == nil {
			panic("c42: no cert " + id)
		}
		b.certs = append(b.certs, c)
		b.raw += c.pem
	}
	return b
}

// alphabets: quick is a subset of thorough
func (mt *c42Material) alphabets(thorough bool) (bundles []c42Bundle, keys []string, cas []string) {
	v1s := []string{"v1N", "v1N'", "v1P", "v1NX", "v1N/k2", "v1N/p256", "v1NL", "v1LN"}
	v2s := []string{"v2N", "v2N'", "v2P", "v2NX", "v2N/k2", "v2N/p256", "v2LN"}
	if thorough {
		v1s = append(v1s, "v1M", "v1XN", "v1Nexp", "v1NLX")
		v2s = append(v2s, "v2M", "v2Nexp", "v2LN'", "v2LNX")
	}
	for _, a := range v1s {
		bundles = append(bundles, mt.bundle(a))
	}
	for _, b := range v2s {
		bundles = append(bundles, mt.bundle(b))
	}
	pair := func(a, b string) bool {
		if thorough {
			return true
		}
		// quick: pairs that share the key (the rest are refused by the key check; thorough has them all), plus two that do not
		return mt.certs[a].key == mt.certs[b].key || (a == "v1N" && b == "v2N/k2") || (a == "v1N/p256" && b == "v2N")
	}
	for _, a := range v1s {
		for _, b := range v2s {
			if pair(a, b) {
				bundles = append(bundles, mt.bundle(a, b))
			}
		}
	}
	bundles = append(bundles, mt.bundle("v2N", "v1N"))  // other order in the file
	bundles = append(bundles, mt.bundle("v1N", "v1N'")) // two v1 certificates
	bundles = append(bundles,
		c42Bundle{id: "garbage", raw: "-----BEGIN NEBULA CERTIFICATE V2-----\n!!!\n-----END NEBULA CERTIFICATE V2-----\n"},
		c42Bundle{id: "empty", raw: ""},
		c42Bundle{id: "ca-as-host-cert", raw: mt.caCert},
	)
	if thorough {
		bundles = append(bundles, c42Bundle{id: "missing-file", raw: "/nonexistent/c42/host.crt"},
			c42Bundle{id: "v2N+trailing-garbage", raw: mt.certs["v2N"].pem + "-----BEGIN X-----\n"})
	}
	keys = []string{"k1", "k2", "k3", "garbage"}
	cas = []string{"good", "good+blockA", "dropCAB", "garbage", "all-expired"}
	if thorough {
		keys = append(keys, "empty", "missing-file")
		cas = append(cas, "good+expiredCA", "truncated", "missing-file", "empty", "host-cert-as-ca")
	}
	return
}

func (mt *c42Material) keyYAML(id string) string {
	switch id {
	case "garbage":
		return "-----BEGIN NEBULA X25519 PRIVATE KEY-----\nAAAA\n-----END NEBULA X25519 PRIVATE KEY-----\n"
	case "empty":
		return ""
	case "missing-file":
		return "/nonexistent/c42/host.key"
	}
	return mt.keys[id].pem
}

// ---------------------------------------------------------------------------------------------------------------
// events and world

type c42Ev struct{ B, K, C int } // indexes into the alphabets; B<0: initial state selector (K = index of initial state)

type c42Init struct {
	name   string
	bundle []string
}

var c42Inits = []c42Init{
	{"v1-only", []string{"v1N"}},
	{"v2-only", []string{"v2N"}},
	{"v1+v2", []string{"v1N", "v2N"}},
	{"v1+v2extra", []string{"v1N", "v2NX"}},
	{"v1-only-two-networks", []string{"v1NX"}},
	{"v2-only-lower-extra-first", []string{"v2LN"}},       // primary network L, also lives on N
	{"v1-only-lower-extra-second", []string{"v1NL"}},      // primary network N, also lives on L
	{"v1+v2-lower-extra-first", []string{"v1LN", "v2LN"}}, // thorough only
}

// c42InitsQuick: how many of c42Inits the quick tier starts from
const c42InitsQuick = 7

// c42OrderBundle: bundles made of the own key's certificates with an extra network before the primary one. The quick tier
// offers them with the own key only (the key check is independent of the network checks; thorough has the full product).
func c42OrderBundle(b c42Bundle) bool {
	for _, cc := range b.certs {
		if slices.Contains(cc.nets, netip.MustParsePrefix(c42L)) {
			return true
		}
	}
	return false
}

type c42World struct {
	mt    *c42Material
	c     *config.C
	pki   *PKI
	hmap  *HostMap
	cm    *connectionManager
	lh    *LightHouse
	hsm   *HandshakeManager
	conn  *vconn
	ifce  *Interface
	tun   [2]*HostInfo // A (signed by CA1), B (signed by CAB)
	caIn  *c42CA       // CA configuration the harness believes is in force
}

var c42YamlCache sync.Map
var c42InfoMu sync.Mutex
var c42Info []string

func c42Yaml(mt *c42Material, certRaw, keyRaw string, ca *c42CA, ck string) string {
	if v, ok := c42YamlCache.Load(ck); ok {
		return v.(string)
	}
	p := m{"cert": certRaw, "key": keyRaw}
	for k, v := range ca.yaml {
		p[k] = v
	}
	b, err := yaml.Marshal(m{"pki": p})
	if err != nil {
		panic(err)
	}
	c42YamlCache.Store(ck, string(b))
	return string(b)
}

func c42Build(tb testing.TB, init *c42Init) *c42World {
	mt := c42Material_()
	l := vNewLogger("c42")
	w := &c42World{mt: mt, caIn: mt.cas["good"]}
	w.c = config.NewC(l)
	ib := mt.bundle(init.bundle...)
	if err := w.c.LoadString(c42Yaml(mt, ib.raw, mt.keys["k1"].pem, mt.cas["good"], "init|"+ib.id)); err != nil {
		tb.Fatalf("c42 config: %v", err)
	}
	var err error
	if w.pki, err = NewPKIFromConfig(l, w.c); err != nil {
		tb.Fatalf("c42 initial pki (%s): %v", init.name, err)
	}
	w.hmap = newHostMap(l)
	w.conn = &vconn{addr: netip.MustParseAddrPort("192.0.2.1:4242")}
	punchy := &Punchy{l: l, punchConn: w.conn, metricPunchyTx: metrics.NilCounter{}, metricHolepunchTx: metrics.NilCounter{}}
	w.cm = newConnectionManagerFromConfig(l, w.c, w.hmap, punchy)
	lh := &LightHouse{l: l, addrMap: map[netip.Addr]*RemoteList{}, queryChan: make(chan netip.Addr, 64)}
	lighthouses := []netip.Addr{}
	staticList := map[netip.Addr]struct{}{}
	lh.localAddrsFn = func(*LocalAllowList) []netip.Addr { return nil }
	lh.lighthouses.Store(&lighthouses)
	lh.staticList.Store(&staticList)
	w.lh, punchy.lh = lh, lh
	w.hsm = NewHandshakeManager(l, w.hmap, lh, w.conn, defaultHandshakeConfig)
	cs := w.pki.getCertState()
	w.ifce = &Interface{hostMap: w.hmap, outside: w.conn, writers: []udp.Conn{w.conn}, firewall: &Firewall{}, lightHouse: lh, pki: w.pki,
		handshakeManager: w.hsm, connectionManager: w.cm, myVpnAddrs: cs.myVpnAddrs, myVpnNetworks: cs.myVpnNetworks,
		messageMetrics: newMessageMetricsOnlyRecvError(), l: l}
	w.c.RegisterReloadCallback(w.ifce.reloadDisconnectInvalid)
	w.ifce.reloadDisconnectInvalid(w.c) // pki.disconnect_invalid stays at its default (true)
	w.cm.intf, w.hsm.f = w.ifce, w.ifce
	my := cs.GetDefaultCertificate()
	for x, pc := range []cert.Certificate{mt.peerA, mt.peerB} {
		cached, err := w.pki.GetCAPool().VerifyCertificate(vtime.Epoch, pc)
		if err != nil {
			tb.Fatalf("c42: peer %d does not verify: %v", x, err)
		}
		var key [32]byte
		key[0] = byte(0x42 + x)
		cst := &ConnectionState{myCert: my, peerCert: cached, initiator: true, window: NewBits(ReplayWindow),
			eKey: noiseutil.NewCipherState(noise.UnsafeNewCipherState(mt.suite, key, 0), noiseutil.CipherAESGCM),
			dKey: noiseutil.NewCipherState(noise.UnsafeNewCipherState(mt.suite, key, 0), noiseutil.CipherAESGCM)}
		cst.messageCounter.Store(2)
		hi := &HostInfo{ConnectionState: cst, localIndexId: uint32(4200 + x), remoteIndexId: uint32(4300 + x),
			vpnAddrs: []netip.Addr{pc.Networks()[0].Addr()}, HandshakePacket: map[uint8][]byte{},
			relayState: RelayState{relayForByAddr: map[netip.Addr]*Relay{}, relayForByIdx: map[uint32]*Relay{}}}
		remote := netip.AddrPortFrom(netip.MustParseAddr("192.0.2.7").Next(), 4242)
		hi.remote.Store(&remote)
		w.hmap.Lock()
		w.hmap.unlockedAddHostInfo(hi, w.ifce)
		w.hmap.Unlock()
		w.tun[x] = hi
	}
	w.conn.take()
	return w
}

func (w *c42World) drain() {
	for {
		select {
		case <-w.lh.queryChan:
		case <-w.hsm.trigger:
		default:
			return
		}
	}
}

func (w *c42World) present(x int) bool {
	w.hmap.RLock()
	defer w.hmap.RUnlock()
	return w.hmap.Indexes[w.tun[x].localIndexId] == w.tun[x]
}

// c42View is the certificate state in use, mapped back onto the harness' own material.
type c42View struct {
	v1, v2 *c42Cert
	keyID  string
	init   cert.Version
	nets   []netip.Prefix // what the node itself uses (CertState.myVpnNetworks)
	addrs  []netip.Addr   // the node's own overlay addresses (CertState.myVpnAddrs), [0] = its primary address
}

func (w *c42World) view(c *mc.Check) c42View { return c42ViewOf(c, w.mt, w.pki.getCertState()) }

func c42ViewOf(c *mc.Check, mt *c42Material, cs *CertState) c42View {
	var v c42View
	look := func(x cert.Certificate) *c42Cert {
		if x == nil {
			return nil
		}
		cc := mt.bySig[string(x.Signature())]
		if cc == nil {
			c.Broken("certificate in use is not one the harness minted")
		}
		return cc
	}
	v.v1, v.v2 = look(cs.v1Cert), look(cs.v2Cert)
	v.keyID = "?"
	for id, k := range mt.keys {
		if bytes.Equal(k.raw, cs.privateKey) {
			v.keyID = id
		}
	}
	v.init = cs.initiatingVersion
	v.nets = append([]netip.Prefix(nil), cs.myVpnNetworks...)
	v.addrs = append([]netip.Addr(nil), cs.myVpnAddrs...)
	return v
}

func (v c42View) shape() string {
	switch {
	case v.v1 != nil && v.v2 != nil:
		return "v1+v2"
	case v.v1 != nil:
		return "v1-only"
	case v.v2 != nil:
		return "v2-only"
	}
	return "empty"
}

func (v c42View) String() string {
	id := func(c *c42Cert) string {
		if c == nil {
			return "-"
		}
		return c.id
	}
	return fmt.Sprintf("v1=%s v2=%s key=%s init=%d nets=%v addrs=%v", id(v.v1), id(v.v2), v.keyID, v.init, v.nets, v.addrs)
}

// effective: the networks the node lives on according to the certificates themselves (v2 is the superset by design)
func (v c42View) effective() []netip.Prefix {
	if v.v2 != nil {
		return v.v2.nets
	}
	if v.v1 != nil {
		return v.v1.nets
	}
	return nil
}

func (v c42View) curve() cert.Curve {
	if v.v2 != nil {
		return v.v2.curve
	}
	return v.v1.curve
}

func (w *c42World) poolID() string {
	p := w.pki.GetCAPool()
	fps := p.GetFingerprints()
	sort.Strings(fps)
	for i := range fps {
		fps[i] = fps[i][:8]
	}
	fpA, _ := w.mt.peerA.Fingerprint()
	return fmt.Sprintf("%v/blockA=%v", fps, p.IsBlocklisted(fpA))
}

type c42Alpha struct {
	bundles []c42Bundle
	keys    []string
	cas     []string
}

// step submits one reload and judges it.
func (w *c42World) step(tb testing.TB, c *mc.Check, al *c42Alpha, ev c42Ev, hist func() []string) {
	mt := w.mt
	b, kid, ca := al.bundles[ev.B], al.keys[ev.K], mt.cas[al.cas[ev.C]]
	before := w.view(c)
	csBefore, poolBefore := w.pki.getCertState(), w.pki.GetCAPool()
	y := c42Yaml(mt, b.raw, mt.keyYAML(kid), ca, b.id+"|"+kid+"|"+ca.id)
	if err := w.c.ReloadConfigString(y); err != nil {
		tb.Fatalf("c42: reload config does not parse: %v", err)
	}
	w.drain()
	csAfter, poolAfter := w.pki.getCertState(), w.pki.GetCAPool()
	after := w.view(c)
	accepted := csAfter != csBefore
	det := func() any {
		return m{"history": hist(), "before": before.String(), "submitted": fmt.Sprintf("cert=%s key=%s ca=%s", b.id, kid, ca.id), "after": after.String(), "accepted": accepted}
	}
	kind := before.shape() + " -> " + after.shape()

	// what the submitted material would do to the node's identity, from the harness' own knowledge of it
	wellFormed := b.certs != nil && mt.keys[kid] != nil
	var sub c42View
	if wellFormed {
		for _, cc := range b.certs {
			if cc.expired || cc.key != kid {
				wellFormed = false
			}
			if cc.version == cert.Version1 {
				if sub.v1 != nil {
					wellFormed = false
				}
				sub.v1 = cc
			} else {
				if sub.v2 != nil {
					wellFormed = false
				}
				sub.v2 = cc
			}
		}
	}
	if wellFormed {
		why := c42IdentityChange(before, sub)
		if why != "" {
			c.Add("attempts_that_would_change_identity", 1)
			c.Distinct("identity_change_kinds_attempted", why)
			if !accepted {
				c.Add("identity_changes_refused", 1)
				c.Distinct("identity_change_kinds_refused", why)
			}
		} else {
			c.Add("attempts_identity_preserving", 1)
			if accepted {
				c.Add("identity_preserving_accepted", 1)
			}
		}
	} else {
		c.Add("attempts_malformed_or_mismatched", 1)
		if accepted {
			c.Add("malformed_accepted", 1)
			if b.certs == nil || mt.keys[kid] == nil {
				c.Violation("reload with unreadable certificate or key material replaces the certificates in use", det())
			}
		}
	}

	if accepted {
		c.Add("reloads_accepted", 1)
		c.Distinct("accepted_transitions", kind)
		if why := c42IdentityChange(before, after); why != "" {
			// signature = what changes + which kind of transition; the precise reason is in the detail
			what, k := "the node's overlay networks change", kind
			if why == "the primary overlay network changes" {
				what = "the node's primary overlay network changes"
			}
			if strings.Contains(why, "curve") {
				what = "the node's curve changes"
				if (before.v1 == nil || after.v1 == nil) && (before.v2 == nil || after.v2 == nil) {
					k = "certificate version switch"
				}
			} else if strings.Contains(why, "no certificate") {
				what = why
			}
			d := det().(m)
			d["why"] = why
			c.Violation(fmt.Sprintf("reload accepted although %s (%s)", what, k), d)
		} else if !slices.Equal(before.effective(), after.effective()) {
			// ◊ a version added next to / replacing another with a superset or different secondary networks, primary unchanged
			c.Add("info_secondary_networks_changed_by_design", 1)
			if c.Distinct("info_secondary_network_changes", fmt.Sprintf("%s: %v -> %v", kind, before.effective(), after.effective())) {
				c42InfoMu.Lock()
				c42Info = append(c42Info, fmt.Sprintf("%s: %v -> %v", kind, before.effective(), after.effective()))
				c42InfoMu.Unlock()
			}
		}
		// the same clause judged on what the node itself reports (CertState.myVpnAddrs / myVpnNetworks), independent of
		// the harness' bookkeeping of certificates: its primary overlay address and first network never move
		if len(before.addrs) > 0 && len(after.addrs) > 0 && before.addrs[0] != after.addrs[0] {
			c.Violation(fmt.Sprintf("reload accepted although the node's primary overlay address moves (%s)", kind), det())
		} else if len(before.nets) > 0 && len(after.nets) > 0 && before.nets[0] != after.nets[0] {
			c.Violation(fmt.Sprintf("reload accepted although the node's first overlay network changes (%s)", kind), det())
		}
		c.Distinct("accepted_transition_orders", kind+" "+c42Order(before)+" -> "+c42Order(after))
		if o := c42Order(after); strings.Contains(o, "<") {
			c.Add("accepted_with_lower_extra_network", 1)
			c.Distinct("accepted_kinds_with_lower_extra_network", kind)
		} else if strings.Contains(o, ">") {
			c.Add("accepted_with_higher_extra_network", 1)
		}
	} else {
		c.Add("reloads_refused", 1)
		if wellFormed {
			c.Distinct("refused_transition_orders", before.shape()+" "+c42Order(before)+" -/-> "+sub.shape()+" "+c42Order(sub))
			if strings.Contains(c42Order(sub), "<") && c42IdentityChange(before, sub) == "the primary overlay network changes" {
				// the seeded class: the submitted certificates contain the old primary network, but a lower network leads
				c.Add("refused_primary_move_by_lower_extra_network", 1)
				c.Distinct("refused_primary_move_by_lower_extra_kinds", before.shape()+" -/-> "+sub.shape())
			}
		}
		if before.String() != after.String() {
			c.Violation("refused reload changes the certificates in use", det())
		}
	}
	// invariant of every state: v1 and v2 in use share key pair, curve and primary network; private key is the pair
	if after.v1 != nil && after.v2 != nil {
		c.Add("states_with_both_versions", 1)
		if after.v1.key != after.v2.key || after.v1.curve != after.v2.curve {
			c.Violation("v1 and v2 certificates in use do not share one key pair", det())
		}
		if after.v1.nets[0] != after.v2.nets[0] {
			c.Violation("v1 and v2 certificates in use do not share the primary network", det())
		}
	}
	for _, cc := range []*c42Cert{after.v1, after.v2} {
		if cc != nil && cc.key != after.keyID {
			c.Violation("private key in use is not the pair of a certificate in use", det())
		}
	}
	c42JudgeState(c, after, det)

	// trust store
	caChanged := poolAfter != poolBefore
	if ca.unreadable {
		c.Add("unreadable_ca_reloads", 1)
		if caChanged {
			c.Violation("reload with an unreadable CA bundle replaces the trust store ("+ca.id+")", det())
		}
	}
	if caChanged {
		c.Add("ca_reloads_accepted", 1)
		w.caIn = ca
	} else {
		c.Add("ca_reloads_refused", 1)
		if ca.usable {
			c.Violation("reload with a good CA bundle is refused ("+ca.id+")", det())
		}
	}
	c.Distinct("ca_outcomes", fmt.Sprintf("%s:%v", ca.id, caChanged))
	// cert and CA halves are independent: count the mixed outcomes
	c.Distinct("mixed_outcomes", fmt.Sprintf("cert=%v ca=%v", accepted, caChanged))

	// the next check: newly blocklisted / untrusted peers are disconnected (disconnect_invalid at its default, true)
	nb, out := make([]byte, 12, 12), make([]byte, mtu)
	for x := 0; x < 2; x++ {
		if !w.present(x) {
			continue
		}
		w.cm.In(w.tun[x]) // the tunnel is alive: only its certificate can get it removed
		w.cm.doTrafficCheck(w.tun[x].localIndexId, []byte(""), nb, out, vtime.Epoch)
		w.drain()
		w.conn.take()
		gone := !w.present(x)
		must := (x == 0 && (w.caIn.blocksA || !w.caIn.hasCA1)) || (x == 1 && !w.caIn.hasCAB)
		if must {
			c.Add("peers_that_must_be_disconnected", 1)
			if !gone {
				c.Violation(fmt.Sprintf("peer %s stays connected after the check although the trust store in use no longer accepts it", [2]string{"A (blocklisted)", "B (CA removed)"}[x]), det())
			}
		} else if gone {
			c.Violation("peer with traffic and a still trusted certificate is disconnected after a reload", det())
		} else {
			c.Add("peers_kept", 1)
		}
	}
}

// c42InitialLoads: "always" includes the first load. Every (bundle, key) of the alphabet is offered to a fresh
// NewPKIFromConfig; whatever is accepted must satisfy the state invariants (pair shares key, curve and primary network;
// the node's primary network/address is the certificates' primary network).
func c42InitialLoads(c *mc.Check, al *c42Alpha) {
	mt := c42Material_()
	l := vNewLogger("c42i")
	for _, b := range al.bundles {
		for _, kid := range al.keys {
			cfg := config.NewC(l)
			if err := cfg.LoadString(c42Yaml(mt, b.raw, mt.keyYAML(kid), mt.cas["good"], "first|"+b.id+"|"+kid)); err != nil {
				c.Broken("c42: initial config does not parse: %v", err)
			}
			pki, err := NewPKIFromConfig(l, cfg)
			if err != nil {
				c.Add("initial_loads_refused", 1)
				continue
			}
			c.Add("initial_loads_accepted", 1)
			v := c42ViewOf(c, mt, pki.getCertState())
			det := func() any { return m{"initial_load": fmt.Sprintf("cert=%s key=%s", b.id, kid), "state": v.String()} }
			if v.v1 != nil && v.v2 != nil {
				c.Add("initial_loads_with_both_versions", 1)
				if v.v1.key != v.v2.key || v.v1.curve != v.v2.curve {
					c.Violation("initial load: v1 and v2 certificates in use do not share one key pair", det())
				}
				if v.v1.nets[0] != v.v2.nets[0] {
					c.Violation("initial load: v1 and v2 certificates in use do not share the primary network", det())
				}
			}
			for _, cc := range []*c42Cert{v.v1, v.v2} {
				if cc != nil && cc.key != v.keyID {
					c.Violation("initial load: private key in use is not the pair of a certificate in use", det())
				}
			}
			c42JudgeState(c, v, det)
		}
	}
}

// c42JudgeState: what must hold for the certificate state in use at every instant (initial load and after every reload).
func c42JudgeState(c *mc.Check, v c42View, det func() any) {
	if len(v.nets) == 0 || len(v.addrs) == 0 || v.nets[0] != v.effective()[0] || v.addrs[0] != v.nets[0].Addr() {
		c.Violation("node's primary network differs from its certificates' primary network", det())
		return
	}
	// every certificate in use presents the node's primary network as ITS primary network (a peer that handshakes with
	// the other version must see the same primary address)
	for _, cc := range []*c42Cert{v.v1, v.v2} {
		if cc != nil && cc.nets[0] != v.nets[0] {
			c.Violation(fmt.Sprintf("node's primary network differs from the primary network of the v%d certificate in use", cc.version), det())
		}
	}
}

// c42Order classifies where the extra networks of the certificates in a view sit relative to the primary network N
// (vacuity bookkeeping only): "-" none, "<" an extra network that sorts before N, ">" one that sorts after, "<>" both.
func c42Order(v c42View) string {
	one := func(cc *c42Cert) string {
		if cc == nil {
			return "."
		}
		s := ""
		for _, p := range cc.nets {
			if p == netip.MustParsePrefix(c42L) {
				s += "<"
			}
		}
		for _, p := range cc.nets {
			if p == netip.MustParsePrefix(c42X) {
				s += ">"
			}
		}
		if s == "" {
			s = "-"
		}
		if cc.nets[0] != netip.MustParsePrefix(c42N) {
			s += "!" // the certificate's own first network is not N
		}
		return s
	}
	return "[v1" + one(v.v1) + " v2" + one(v.v2) + "]"
}

// c42IdentityChange names what an (accepted) transition old -> new does to the identity, "" if nothing the statement forbids.
func c42IdentityChange(o, n c42View) string {
	if n.v1 == nil && n.v2 == nil {
		return "no certificate remains"
	}
	if o.curve() != n.curve() {
		return "the curve changes"
	}
	oe, ne := o.effective(), n.effective()
	if oe[0] != ne[0] {
		return "the primary overlay network changes"
	}
	if o.v1 != nil && n.v1 != nil && !slices.Equal(o.v1.nets, n.v1.nets) {
		return "the v1 certificate's networks change"
	}
	if o.v2 != nil && n.v2 != nil && !slices.Equal(o.v2.nets, n.v2.nets) {
		return "the v2 certificate's networks change"
	}
	if o.v2 != nil && n.v2 == nil && !slices.Equal(o.v2.nets, n.v1.nets) {
		return "the v2 certificate is dropped without a v1 certificate for the same networks"
	}
	if o.v2 == nil && n.v1 == nil {
		// v1 replaced by v2: nothing the node lived on may disappear (a superset is the designed v2 upgrade ◊)
		for _, p := range oe {
			if !slices.Contains(ne, p) {
				return "an overlay network of the replaced v1 certificate is dropped"
			}
		}
	}
	return ""
}

func (w *c42World) key(c *mc.Check) string {
	return fmt.Sprintf("%s | %s | A=%v B=%v", w.view(c).String(), w.poolID(), w.present(0), w.present(1))
}

// ---------------------------------------------------------------------------------------------------------------

func TestVerifC42(t *testing.T) {
	c := mc.Begin(t, "C42", "model_checking")
	defer c.End()
	mt := c42Material_()
	al := &c42Alpha{}
	al.bundles, al.keys, al.cas = mt.alphabets(c.Thorough())
	depth := mc.Pick(c, 3, 4)
	c.Set("alphabet_cert_bundles", len(al.bundles))
	c.Set("alphabet_keys", len(al.keys))
	c.Set("alphabet_ca_configs", len(al.cas))
	c.Set("history_depth", depth)
	c.Assume("◊ Adding or substituting a certificate version whose non-primary networks differ (v1 10.0.0.1/24 -> v1 + v2 with an extra network, or v1-only -> v2-only with a superset) is the designed v2 upgrade path (newCertState pins only the primary network): counted as information (info_secondary_networks_changed_by_design), not a violation. Dropping a network or changing the primary one is a violation.")
	c.Assume("A key rotation (new key pair, same networks and curve) is not an identity change in the statement's sense; it is accepted by the code and not judged.")
	c.Assume("'Unreadable CA bundle' = not parseable / missing / empty / not a CA; a bundle in which every CA is expired is refused by the code too but the statement does not demand it (counted in ca_outcomes).")
	c.Assume("pki.disconnect_invalid stays at its default (true) for the teardown half; the peer tunnels are installed through HostMap.unlockedAddHostInfo with real AEAD states; local certificate expiry is judged at the virtual clock's Epoch.")

	var root []c42Ev
	for i := range c42Inits {
		if c.Thorough() || i < c42InitsQuick {
			root = append(root, c42Ev{B: -1, K: i})
		}
	}
	c.Set("initial_states", len(root))
	var menu []c42Ev
	crossBundles := map[string]bool{"v1N": true, "v2N": true, "v1N+v2N": true, "v2P": true, "garbage": true}
	for b := range al.bundles {
		for k := range al.keys {
			for ca := range al.cas {
				// thorough: the full product. quick: every (bundle, key) with the good CA configuration, and every CA
				// configuration with the own key and five representative bundles (accepted, refused and unreadable ones) —
				// the certificate and CA halves of PKI.reload are independent code paths.
				// The bundles with an extra network before the primary one (quick) come with the own key only.
				if !c.Thorough() && c42OrderBundle(al.bundles[b]) && al.keys[k] != "k1" {
					continue
				}
				if c.Thorough() || al.cas[ca] == "good" || (al.keys[k] == "k1" && crossBundles[al.bundles[b].id]) {
					menu = append(menu, c42Ev{b, k, ca})
				}
			}
		}
	}
	c.Set("events_per_state", len(menu))
	label := func(e c42Ev) string {
		if e.B < 0 {
			return "init:" + c42Inits[e.K].name
		}
		return fmt.Sprintf("reload{cert=%s key=%s ca=%s}", al.bundles[e.B].id, al.keys[e.K], al.cas[e.C])
	}
	run := func(full []c42Ev) (string, []c42Ev) {
		if len(full) == 0 {
			return "root", root
		}
		w := c42Build(t, &c42Inits[full[0].K])
		hist := full[1:]
		labels := func() []string {
			out := []string{label(full[0])}
			for _, e := range hist {
				out = append(out, label(e))
			}
			return out
		}
		for _, ev := range hist {
			w.step(t, c, al, ev, labels)
		}
		if len(hist) == 0 {
			// initial states obey the pair invariant too
			v := w.view(c)
			if v.v1 != nil && v.v2 != nil && (v.v1.key != v.v2.key || v.v1.nets[0] != v.v2.nets[0]) {
				c.Violation("initial v1/v2 certificates do not share key pair and primary network", m{"init": labels()})
			}
			c42JudgeState(c, v, func() any { return m{"init": labels(), "state": v.String()} })
		}
		return w.key(c), menu
	}
	c42InitialLoads(c, al)
	var stop func() bool
	if c.Thorough() {
		stop = c.OutOfTime
	}
	res := mc.BFSReplay(c, mc.BFSConfig[c42Ev]{MaxDepth: depth + 1, Run: run, Label: label, Stop: stop})
	c.Set("bfs", fmt.Sprintf("states=%d transitions=%d depth=%d(+1 for the initial-state choice) closure_reached=%v", res.States, res.Transitions, res.MaxDepth-1, res.Exhaustive))
	sort.Strings(c42Info)
	c.Set("info_secondary_network_change_kinds", c42Info)
	c.Set("distinct_outcomes", c.DistinctCount("accepted_transitions")+c.DistinctCount("identity_change_kinds_refused"))

	// vacuity guards. A guard that fails while violations were reported (an edit can both break the property and starve a
	// counter) is printed as information: the verdict stays the violation, never "broken harness".
	guard := func(cond bool, format string, args ...any) {
		if cond {
			return
		}
		if c.Violations() > 0 {
			fmt.Printf("INFO property=C42 vacuity guard not met (violations reported): %s\n", fmt.Sprintf(format, args...))
			return
		}
		c.Require(false, format, args...)
	}
	for _, n := range []string{"reloads_accepted", "reloads_refused", "identity_changes_refused", "identity_preserving_accepted", "unreadable_ca_reloads",
		"ca_reloads_accepted", "ca_reloads_refused", "peers_that_must_be_disconnected", "peers_kept", "states_with_both_versions", "attempts_malformed_or_mismatched"} {
		guard(c.Counter(n).Load() > 0, "%s never happened", n)
	}
	for _, n := range []string{"initial_loads_accepted", "initial_loads_refused", "initial_loads_with_both_versions", "accepted_with_lower_extra_network",
		"accepted_with_higher_extra_network", "refused_primary_move_by_lower_extra_network"} {
		guard(c.Counter(n).Load() > 0, "%s never happened", n)
	}
	// an extra network in front of the old primary one must have been offered (and refused) as an added version, as a
	// replacing version and with both versions submitted
	guard(c.DistinctCount("refused_primary_move_by_lower_extra_kinds") >= 4, "transition kinds in which a leading lower network was refused: %d", c.DistinctCount("refused_primary_move_by_lower_extra_kinds"))
	guard(c.DistinctCount("accepted_kinds_with_lower_extra_network") >= 3, "accepted transition kinds with a lower extra network: %d", c.DistinctCount("accepted_kinds_with_lower_extra_network"))
	guard(c.DistinctCount("mixed_outcomes") == 4, "cert/CA outcome combinations reached: %d of 4", c.DistinctCount("mixed_outcomes"))
	guard(c.DistinctCount("identity_change_kinds_attempted") >= 6, "identity-change kinds attempted: %d", c.DistinctCount("identity_change_kinds_attempted"))
	guard(c.DistinctCount("identity_change_kinds_refused") >= 5, "identity-change kinds refused: %d", c.DistinctCount("identity_change_kinds_refused"))
	guard(c.DistinctCount("accepted_transitions") >= 7, "accepted transition shapes: %d", c.DistinctCount("accepted_transitions"))
}
