//go:build verif

package nebula

import (
	"bytes"
	"fmt"
	"net/netip"
	"os"
	"regexp"
	"strings"
	"testing"

	"github.com/slackhq/nebula/header"
	"github.com/slackhq/nebula/zzverif/mc"
	"github.com/slackhq/nebula/zzverif/vtime"
)

// C10 — replayed handshakes do not create or replace tunnels.
//
// Explicit-state BFS (by replay) over two REAL nodes. History events: A re-handshakes to B (new tunnel, B responder),
// B re-handshakes to A (B initiator), clock +1s, connection-manager tick on B, and a first message of A that is lost in
// transit (recorded, delivered only as a later replay). Every first handshake message (stage 1)
// and every reply (stage 2) ever put on the wire is recorded. In every distinct state each recorded message is
// re-delivered to its destination (from the original and from a foreign source address) and the oracle of the
// statement is evaluated on the responder's hostmap and UDP output.

type c10Msg struct {
	pkt     vpkt
	stage   uint64
	created int64 // virtual time (ns) when the message was first sent = the time it reports
	n       int   // ordinal
}

// c10Birth is the harness's own record of how a responder-side tunnel came to be: which recorded first message created
// it and which reply the responder put on the wire for it. Nothing of this is read back from the implementation later
// (in particular not from HostInfo.HandshakePacket, which the implementation itself uses to recognise a replay).
type c10Birth struct {
	msg   int
	reply []byte
}

type c10World struct {
	net  *vnet
	a, b *vnode
	msgs []c10Msg
	seen map[string]bool
	ord  map[string]int // datagram bytes -> ordinal in msgs
	born map[*HostInfo]c10Birth
	// connection-manager ticks per node since the last event that was not a tick (clamped in the key): what a tick does
	// depends on how many went before it (the first one only arms the wheel), so two histories that differ in the number
	// of ticks must not be merged even when nothing visible changed yet
	cmA, cmB int
}

func (w *c10World) record() {
	for _, p := range w.net.inflight {
		var h header.H
		if h.Parse(p.Data) != nil || h.Type != header.Handshake {
			continue
		}
		k := string(p.Data)
		if w.seen[k] {
			continue
		}
		w.seen[k] = true
		w.ord[k] = len(w.msgs)
		w.msgs = append(w.msgs, c10Msg{pkt: p, stage: h.MessageCounter, created: vtime.Now().UnixNano(), n: len(w.msgs)})
	}
}

// run delivers everything loss-free, recording every handshake message that appears on the wire.
func (w *c10World) run() {
	w.net.collect()
	for k := 0; k < 200 && len(w.net.inflight) > 0; k++ {
		w.record()
		p := w.net.inflight[0]
		var h header.H
		dst := w.net.byUDP[p.To.Addr()]
		first := dst != nil && h.Parse(p.Data) == nil && h.Type == header.Handshake && h.MessageCounter == 1
		pre := map[*HostInfo]bool{}
		nOut := len(w.net.wire)
		if first {
			for _, hi := range c10Tunnels(dst) {
				pre[hi] = true
			}
		}
		w.net.deliverAt(0, false)
		if first {
			for _, hi := range c10Tunnels(dst) {
				if pre[hi] || hi.ConnectionState == nil || hi.ConnectionState.initiator {
					continue
				}
				b := c10Birth{msg: w.ord[string(p.Data)]}
				for _, o := range w.net.wire[nOut:] { // what the responder wrote while handling this datagram
					var oh header.H
					if oh.Parse(o) == nil && oh.Type == header.Handshake && oh.MessageCounter == 2 {
						b.reply = append([]byte(nil), o...)
					}
				}
				w.born[hi] = b
			}
		}
	}
	w.record()
}

func c10Tunnels(n *vnode) []*HostInfo {
	hmap := n.f.hostMap
	hmap.RLock()
	defer hmap.RUnlock()
	var out []*HostInfo
	for _, hi := range hmap.Indexes {
		out = append(out, hi)
	}
	return out
}

func c10New(t testing.TB, seed int64) *c10World {
	net := vTwoNodes(t, seed)
	w := &c10World{net: net, a: net.node("a"), b: net.node("b"), seen: map[string]bool{}, ord: map[string]int{}, born: map[*HostInfo]c10Birth{}}
	w.a.hm.StartHandshake(w.b.vpnIP, nil)
	w.a.settle()
	w.run()
	return w
}

func (w *c10World) apply(e string) {
	switch e {
	case "cm:a":
		w.cmA++
	case "cm:b":
		w.cmB++
	default:
		w.cmA, w.cmB = 0, 0
	}
	switch e {
	case "rehs:a":
		w.a.hm.StartHandshake(w.b.vpnIP, nil)
		w.a.settle()
	case "rehs:b":
		w.b.hm.StartHandshake(w.a.vpnIP, nil)
		w.b.settle()
	case "sim":
		// simultaneous initiation: both first messages are on the wire before either is delivered (each node ends up with
		// the tunnel it initiated as primary plus the tunnel the peer's first message created)
		w.a.hm.StartHandshake(w.b.vpnIP, nil)
		w.a.settle()
		w.b.hm.StartHandshake(w.a.vpnIP, nil)
		w.b.settle()
	case "data:a":
		w.a.tunSend(vUDPPacket(w.a.vpnIP, w.b.vpnIP, 1000, 2000, []byte("c10-data")))
	case "data:b":
		w.b.tunSend(vUDPPacket(w.b.vpnIP, w.a.vpnIP, 1000, 2000, []byte("c10-data")))
	case "rehs:a@1969":
		// a's clock reads 1969 while it builds the first message: the reported time (uint64 of a negative UnixNano) has its
		// top bit set, i.e. it is NEWER than every ordinary time in the unsigned order the wire format defines
		now := vtime.Now()
		vtime.Set(vtime.Date(1969, 12, 31, 0, 0, 0, 0, vtime.UTC).Add(vtime.Duration(len(w.msgs)) * vtime.Second))
		w.a.hm.StartHandshake(w.b.vpnIP, nil)
		w.a.settle()
		w.net.collect()
		w.record()
		vtime.Set(now)
	case "lost:a":
		// a starts a handshake whose first message is lost in transit, then gives the attempt up (as its timeout would);
		// the message stays recorded and may arrive (be replayed) at any later point
		hi := w.a.hm.StartHandshake(w.b.vpnIP, nil)
		w.a.settle()
		w.net.collect()
		w.record()
		w.net.inflight = nil
		w.a.hm.DeleteHostInfo(hi)
	case "adv":
		vtime.Advance(vtime.Second)
	case "cm:b":
		vtime.Advance(2500 * vtime.Millisecond)
		w.b.cmTick()
	case "cm:a":
		vtime.Advance(2500 * vtime.Millisecond)
		w.a.cmTick()
	}
	w.run()
}

// creator returns the ordinal of the recorded stage-1 message that created hi on a responder (-1: none / initiator side).
func (w *c10World) creator(hi *HostInfo) int {
	if b, ok := w.born[hi]; ok && !hi.ConnectionState.initiator {
		return b.msg
	}
	return -1
}

// view is the structural description of a node's tunnels to its peer: primary first.
func (w *c10World) view(n *vnode, peer netip.Addr) string {
	hmap := n.f.hostMap
	hmap.RLock()
	defer hmap.RUnlock()
	var parts []string
	for _, hi := range hmap.unlockedGetHostList(peer) {
		// (in/out: the liveness marks the connection manager reads at its next tick; a replay that sets them changes what
		// that tick does — e.g. which tunnel it promotes — although nothing else moved yet)
		parts = append(parts, fmt.Sprintf("(m%d init=%v in=%v out=%v L%d)", w.creator(hi), hi.ConnectionState.initiator, hi.in.Load(), hi.out.Load(), hi.localIndexId))
	}
	return fmt.Sprintf("%d%v idx=%d", len(parts), parts, len(hmap.Indexes))
}

// c10Structural drops the liveness marks from a view: for replays whose tunnel is no longer held the node may legitimately
// use its existing tunnel (e.g. probe it with a test packet), only tunnels and primary are judged there.
var c10FlagRe = regexp.MustCompile(` in=(true|false) out=(true|false)`)

func c10Structural(v string) string { return c10FlagRe.ReplaceAllString(v, "") }

func (w *c10World) key() string {
	// local index values are pseudo-random: strip them from the key, keep structure
	strip := func(s string) string {
		for {
			i := strings.Index(s, " L")
			if i < 0 {
				return s
			}
			j := strings.IndexByte(s[i:], ')')
			s = s[:i] + s[i+j:]
		}
	}
	tr := func(n *vnode, peer netip.Addr) string {
		// rank of reported handshake times
		hmap := n.f.hostMap
		hmap.RLock()
		defer hmap.RUnlock()
		out := ""
		list := hmap.unlockedGetHostList(peer)
		for i, hi := range list {
			older, equal := 0, 0
			for j, hj := range list {
				if j != i && hj.lastHandshakeTime < hi.lastHandshakeTime {
					older++
				}
				if j != i && hj.lastHandshakeTime == hi.lastHandshakeTime {
					equal++
				}
			}
			out += fmt.Sprintf("[%d/%d pd=%v]", older, equal, hi.pendingDeletion.Load())
		}
		return out
	}
	newest := int64(0)
	for _, mg := range w.msgs {
		if mg.created > newest {
			newest = mg.created
		}
	}
	clockMoved := vtime.Now().UnixNano() > newest // a handshake started now would report a newer time than any so far
	return fmt.Sprintf("cm=%d/%d moved=%v A:%s%s B:%s%s msgs=%d pendA=%d pendB=%d", min(w.cmA, 4), min(w.cmB, 4), clockMoved, strip(w.view(w.a, w.b.vpnIP)), tr(w.a, w.b.vpnIP), strip(w.view(w.b, w.a.vpnIP)), tr(w.b, w.a.vpnIP),
		len(w.msgs), len(w.a.pendingAddrs()), len(w.b.pendingAddrs()))
}

func TestVerifC10(t *testing.T) {
	c := mc.Begin(t, "C10", "model_checking")
	defer c.End()
	seed := c.Seed()
	foreign := netip.MustParseAddrPort("198.51.100.7:7777")
	checked := map[string]bool{}
	var replays, heldReplays, oldReplays, skippedInitiatorPrimary, stage2Replays int64
	maxTunnels := 0
	sawRotation := false

	search := func(prefix []string, menu []string, depth int) mc.BFSResult {
		return mc.BFSReplay(c, mc.BFSConfig[string]{
			MaxDepth: depth, Workers: 1, Stop: c.OutOfTime,
			Label: func(e string) string { return e },
			Run: func(hist []string) (string, []string) {
				w := c10New(t, seed)
				defer w.net.close()
				for _, e := range prefix {
					w.apply(e)
				}
				for _, e := range hist {
					w.apply(e)
				}
				hist = append(append([]string{}, prefix...), hist...)
				key := w.key()
				if os.Getenv("C10_TRACE") != "" && len(prefix) > 0 {
					hp := func(n *vnode, peer netip.Addr) string {
						out := ""
						for _, hi := range n.f.hostMap.unlockedGetHostList(peer) {
							out += fmt.Sprintf("[L%d init=%v hp=%v]", hi.localIndexId, hi.ConnectionState.initiator, hi.HandshakePacket != nil)
						}
						return out
					}
					fmt.Println("INFO C10TRACE", hist, "A:", w.view(w.a, w.b.vpnIP), hp(w.a, w.b.vpnIP), "B:", w.view(w.b, w.a.vpnIP), hp(w.b, w.a.vpnIP))
				}
				if checked[key] {
					return key, menu
				}
				checked[key] = true

				for _, mg := range w.msgs {
					dst, peer := w.b, w.a
					if mg.pkt.To == w.a.udp {
						dst, peer = w.a, w.b
					}
					for _, from := range []netip.AddrPort{mg.pkt.From, foreign} {
						hmap := dst.f.hostMap
						hmap.RLock()
						list := append([]*HostInfo(nil), hmap.unlockedGetHostList(peer.vpnIP)...)
						var holder *HostInfo
						for _, hi := range list {
							if mg.stage == 1 && w.creator(hi) == mg.n {
								holder = hi
							}
						}
						var primary *HostInfo
						if len(list) > 0 {
							primary = list[0]
						}
						hmap.RUnlock()
						if len(list) > maxTunnels {
							maxTunnels = len(list)
						}
						before := w.view(dst, peer.vpnIP)
						dst.conn.take()
						dst.deliver(from, mg.pkt.Data)
						out := dst.conn.take()
						dst.tun.take()
						after := w.view(dst, peer.vpnIP)
						replays++
						detail := map[string]any{"history": fmt.Sprint(hist), "replayed": fmt.Sprintf("m%d stage %d", mg.n, mg.stage), "from": from.String(), "before": before, "after": after}
						switch {
						case mg.stage == 1 && holder != nil:
							heldReplays++
							if after != before {
								c.Violation("C10: re-delivered first message whose tunnel is still held changed the responder's tunnels, primary or liveness marks", detail)
								return key, menu
							}
							sawReply := false
							for _, o := range out {
								var oh header.H
								_ = oh.Parse(o.Data)
								if bytes.Equal(o.Data, w.born[holder].reply) {
									sawReply = true
								} else if oh.Type == header.Handshake {
									detail["emitted"] = vDescribe(o.Data)
									c.Violation("C10: responder answered a re-delivered first message with something other than its original reply", detail)
								}
							}
							if !sawReply {
								c.Violation("C10: responder did not resend its original reply to a re-delivered first message", detail)
							}
						case mg.stage == 1 && primary != nil:
							// tunnel created by this message is gone (rotated out / deleted / never accepted)
							if holderGone := true; holderGone {
								sawRotation = true
							}
							if primary.ConnectionState.initiator {
								skippedInitiatorPrimary++ // the statement only protects a tunnel accepted as responder
								if c10Structural(after) != c10Structural(before) {
									return key, menu // instance changed legitimately: stop replaying on it
								}
								continue
							}
							if uint64(mg.created) <= uint64(primary.lastHandshakeTime) { // (conversions: the field's integer type is the implementation's business)
								oldReplays++
								if c10Structural(after) != c10Structural(before) {
									c.Violation("C10: a first message not newer than the responder-accepted primary replaced or added a tunnel", detail)
									return key, menu
								}
							} else if c10Structural(after) != c10Structural(before) {
								return key, menu // newer message legitimately taken
							}
						case mg.stage == 2:
							stage2Replays++
							if c10Structural(after) != c10Structural(before) {
								c.Violation("C10: a replayed handshake reply changed the tunnels or primary", detail)
								return key, menu
							}
						default:
							if c10Structural(after) != c10Structural(before) {
								return key, menu
							}
						}
					}
				}
				return key, menu
			},
		})
	}
	// second search from a NON-initial state: after a simultaneous initiation, with application traffic and connection-manager
	// ticks on both nodes (what a tick does depends on the traffic marks); every recorded handshake message is replayed in every
	// state as above
	r2 := search([]string{"sim"}, []string{"data:a", "data:b", "cm:a", "cm:b", "adv", "rehs:a"}, mc.Pick(c, 4, 6))
	c.Set("states_after_simultaneous_initiation", r2.States)
	// (the small search runs first so that the time budget of the main search cannot starve it)
	search(nil, []string{"rehs:a", "adv", "lost:a", "rehs:b", "cm:b", "rehs:a@1969"}, mc.Pick(c, 5, 7))
	c.Require(heldReplays > 0 && oldReplays > 0, "replay classes not reached: held=%d old=%d", heldReplays, oldReplays)
	c.Require(maxTunnels >= 3, "never held several tunnels for one peer (max %d)", maxTunnels)
	if c.Thorough() {
		c.Require(maxTunnels >= MaxHostInfosPerVpnIp && sawRotation, "per-address limit not reached: max tunnels %d", maxTunnels)
	}
	c.Set("replays", replays)
	c.Set("replays_of_held_first_message", heldReplays)
	c.Set("replays_of_old_first_message_vs_responder_primary", oldReplays)
	c.Set("replays_skipped_primary_is_initiator_side", skippedInitiatorPrimary)
	c.Set("replays_of_replies", stage2Replays)
	c.Set("max_tunnels_held_for_one_peer", maxTunnels)
	c.Set("explanation", "states = distinct structural states of the two hostmaps; transitions = history replays on real nodes; in each new state every recorded handshake message is re-delivered (original + foreign source) and judged")
	c.Assume("a replay of a reply (stage 2) is required not to change tunnels or primary (the statement names first messages; the quantifier names any earlier handshake message)")
	c.Assume("when the responder's primary is a tunnel it initiated itself, the statement makes no promise; those replays are counted, not judged")
}
