//go:build verif

package nebula

import (
	"bytes"
	"fmt"
	"net/netip"
	"sort"
	"strings"
	"sync"
	"sync/atomic"
	"testing"

	"github.com/slackhq/nebula/zzverif/mc"
)

// C37 — remote address lists are deduplicated and deterministically ordered.
//
// Two searches over the REAL RemoteList:
//  (1) populations: every assignment of 8 underlay addresses to sources (absent / reported by one owner / by two owners /
//      DNS result / twice in one report) x blocked sets x learned slots, observed under 4 preferred-range settings;
//  (2) histories: BFS by replay over the mutators the rest of nebula uses (LearnRemote, unlockedSetV4/V6/Relay,
//      unlockedPrependV4/V6, BlockRemote, ResetBlockedRemotes, RefreshFromHandshake, ResetForOwner, DNS update callback,
//      ClearHostnameResults, CopyAddrs with changing preferred ranges), every reached state probed with CopyAddrs.
//
// Reference: flat lists per owner; expected = dedup(union of all sources - blocked), ordered preferred first, then IPv6,
// public IPv4, private IPv4, each by address bytes then port. Classification and comparison are done on raw bytes.

var (
	c37Addrs = []netip.AddrPort{
		netip.MustParseAddrPort("10.0.0.1:4242"),      // 0 private v4, inside preferred range 1
		netip.MustParseAddrPort("10.0.0.1:4243"),      // 1 same address, next port
		netip.MustParseAddrPort("192.168.5.9:1"),      // 2 private v4, not preferred, lowest port of all
		netip.MustParseAddrPort("1.1.1.1:5000"),       // 3 public v4 (low address, high port)
		netip.MustParseAddrPort("8.8.8.8:4000"),       // 4 public v4 (high address, low port)
		netip.MustParseAddrPort("[fd00::1]:4242"),     // 5 v6
		netip.MustParseAddrPort("[2001:db8::1]:4242"), // 6 v6, inside preferred range 2
		netip.MustParseAddrPort("[2001:db8::1]:1"),    // 7 same address, lower port
	}
	c37Prefs = [][]netip.Prefix{
		nil,
		{netip.MustParsePrefix("10.0.0.0/24")},
		{netip.MustParsePrefix("10.0.0.0/24"), netip.MustParsePrefix("2001:db8::/32")},
		{netip.MustParsePrefix("0.0.0.0/0")},
	}
	c37Owners = []netip.Addr{netip.MustParseAddr("10.128.0.1"), netip.MustParseAddr("10.128.0.2"), netip.MustParseAddr("10.128.0.3")}
	c37Relays = []netip.Addr{netip.MustParseAddr("10.9.0.1"), netip.MustParseAddr("10.9.0.2"), netip.MustParseAddr("fd99::1")}
	c37Self   = netip.MustParseAddr("10.128.0.2")
)

// ---- independent classification (bytes only) ----

func c37Bytes(a netip.Addr) []byte {
	if a.Is4() {
		b := a.As4()
		return b[:]
	}
	b := a.As16()
	return b[:]
}

func c37InPrefix(a netip.Addr, p netip.Prefix) bool {
	ab, pb := c37Bytes(a), c37Bytes(p.Addr())
	if len(ab) != len(pb) {
		return false
	}
	bits := p.Bits()
	for i := 0; i < len(ab) && bits > 0; i++ {
		mask := byte(0xff)
		if bits < 8 {
			mask = ^byte(0xff >> bits)
		}
		if ab[i]&mask != pb[i]&mask {
			return false
		}
		bits -= 8
	}
	return true
}

func c37Preferred(a netip.Addr, prefs []netip.Prefix) bool {
	for _, p := range prefs {
		if c37InPrefix(a, p) {
			return true
		}
	}
	return false
}

func c37PrivateV4(a netip.Addr) bool {
	b := c37Bytes(a)
	return len(b) == 4 && (b[0] == 10 || (b[0] == 172 && b[1]&0xf0 == 16) || (b[0] == 192 && b[1] == 168))
}

// class: 0 preferred, 1 IPv6, 2 public IPv4, 3 private IPv4
func c37Class(a netip.Addr, prefs []netip.Prefix) int {
	switch {
	case c37Preferred(a, prefs):
		return 0
	case len(c37Bytes(a)) == 16:
		return 1
	case !c37PrivateV4(a):
		return 2
	}
	return 3
}

var c37ClassName = []string{"preferred", "IPv6", "public IPv4", "private IPv4"}

// c37Less: the stated key. refine=true additionally orders the preferred group IPv6 / public / private (the
// statement does not say; both readings are accepted).
func c37Less(a, b netip.AddrPort, prefs []netip.Prefix, refine bool) bool {
	ca, cb := c37Class(a.Addr(), prefs), c37Class(b.Addr(), prefs)
	if ca != cb {
		return ca < cb
	}
	if ca == 0 && refine {
		sa, sb := c37Class(a.Addr(), nil), c37Class(b.Addr(), nil)
		if sa != sb {
			return sa < sb
		}
	}
	ba, bb := c37Bytes(a.Addr()), c37Bytes(b.Addr())
	if len(ba) != len(bb) {
		return len(ba) < len(bb)
	}
	if c := bytes.Compare(ba, bb); c != 0 {
		return c < 0
	}
	return a.Port() < b.Port()
}

// ---- alphabet indices and precomputed ranks (computed once with c37Less; keeps the hot path allocation-free) ----

var (
	c37Index      = map[netip.AddrPort]int{}
	c37RelayIndex = map[netip.Addr]int{}
	c37RankStrong [][]int // [pref][addr index] -> position in the stated order (preferred group refined)
	c37RankPlain  [][]int // [pref][addr index] -> position when the preferred group is ordered by address, port only
	c37ClassOf    [][]int
)

func init() {
	for i, a := range c37Addrs {
		c37Index[a] = i
	}
	for i, r := range c37Relays {
		c37RelayIndex[r] = i
	}
	for _, prefs := range c37Prefs {
		rank := func(refine bool) []int {
			idx := make([]int, len(c37Addrs))
			for i := range idx {
				idx[i] = i
			}
			sort.SliceStable(idx, func(i, j int) bool { return c37Less(c37Addrs[idx[i]], c37Addrs[idx[j]], prefs, refine) })
			r := make([]int, len(idx))
			for pos, i := range idx {
				r[i] = pos
			}
			return r
		}
		c37RankStrong = append(c37RankStrong, rank(true))
		c37RankPlain = append(c37RankPlain, rank(false))
		cl := make([]int, len(c37Addrs))
		for i, a := range c37Addrs {
			cl[i] = c37Class(a.Addr(), prefs)
		}
		c37ClassOf = append(c37ClassOf, cl)
	}
}

// ---- reference model (addresses are alphabet indices) ----

type c37Owner struct {
	learned4, learned6 int // -1 = none
	rep4, rep6         []int
	relays             []int
}

type c37Model struct {
	owners      [3]c37Owner
	dns         []int
	dnsAttached bool
	blocked     uint
	// diagnosis of the "cleared but not rebuilt" situation
	clearedBy  string
	clearedSet uint
}

func c37NewModel() *c37Model {
	m := &c37Model{}
	for i := range m.owners {
		m.owners[i].learned4, m.owners[i].learned6 = -1, -1
	}
	return m
}

func (m *c37Model) dirty() { m.clearedBy, m.clearedSet = "", 0 }

// expected: the set of all sources minus blocked, as a bit mask; whether a duplicate / a blocked source occurred.
func (m *c37Model) expected() (mask uint, hadDup, hadBlocked bool) {
	add := func(i int) {
		if i < 0 {
			return
		}
		b := uint(1) << i
		if m.blocked&b != 0 {
			hadBlocked = true
			return
		}
		if mask&b != 0 {
			hadDup = true
		}
		mask |= b
	}
	for i := range m.owners {
		o := &m.owners[i]
		add(o.learned4)
		add(o.learned6)
		for _, x := range o.rep4 {
			add(x)
		}
		for _, x := range o.rep6 {
			add(x)
		}
	}
	if m.dnsAttached {
		for _, x := range m.dns {
			add(x)
		}
	}
	return
}

func (m *c37Model) expectedRelays() (mask uint, hadDup bool) {
	for i := range m.owners {
		for _, r := range m.owners[i].relays {
			if mask&(1<<r) != 0 {
				hadDup = true
			}
			mask |= 1 << r
		}
	}
	return
}

func c37MaskStr(mask uint) string {
	var s []string
	for i, a := range c37Addrs {
		if mask&(1<<i) != 0 {
			s = append(s, a.String())
		}
	}
	return strings.Join(s, " ")
}

// ---- judge ----

type c37Stats struct {
	evals, nonEmpty, dedup, blockedRemoved, multiClass, samePortVariants, relayEvals, relayDedup atomic.Int64
	hard, stale                                                                                  atomic.Int64 // violations other than / of the 'cleared but not rebuilt' kind
	classSeen                                                                                    [4]atomic.Int64
	mu                                                                                           sync.Mutex
	orders                                                                                       map[[2]uint]string // (pref, set mask) -> order seen
	distinctOutputs                                                                              map[string]struct{}
}

func c37Str(xs []netip.AddrPort) string {
	s := make([]string, len(xs))
	for i, x := range xs {
		s[i] = x.String()
	}
	return strings.Join(s, " ")
}

func (st *c37Stats) viol(c *mc.Check, sig string, detail any) {
	st.hard.Add(1)
	c.Violation(sig, detail)
}

// violStale reports the finding whose states would otherwise flood the run: it does not count towards the give-up limit.
func (st *c37Stats) violStale(c *mc.Check, sig string, detail any) {
	st.stale.Add(1)
	c.Violation(sig, detail)
}

func c37Judge(c *mc.Check, st *c37Stats, m *c37Model, pi int, got []netip.AddrPort, ctx func() map[string]any) {
	st.evals.Add(1)
	want, hadDup, hadBlocked := m.expected()
	detail := func(extra map[string]any) map[string]any {
		d := ctx()
		d["preferred_ranges"] = fmt.Sprint(c37Prefs[pi])
		d["got"] = c37Str(got)
		d["expected_set"] = c37MaskStr(want)
		for k, v := range extra {
			d[k] = v
		}
		return d
	}
	var gotMask uint
	var code [16]byte
	n := 0
	for _, g := range got {
		i, ok := c37Index[g]
		if !ok {
			st.viol(c, "candidate address list contains an address no source holds", detail(map[string]any{"extra": g.String()}))
			return
		}
		if gotMask&(1<<i) != 0 {
			st.viol(c, "candidate address list contains the same address:port twice", detail(nil))
			return
		}
		gotMask |= 1 << i
		if n < len(code) {
			code[n] = byte('0' + i)
			n++
		}
	}
	if extra := gotMask &^ want; extra != 0 {
		kind := "an address no source holds"
		if m.blocked&extra != 0 {
			kind = "a blocked address"
		}
		st.viol(c, "candidate address list contains "+kind, detail(map[string]any{"extra": c37MaskStr(extra)}))
		return
	}
	if missing := want &^ gotMask; missing != 0 {
		if m.clearedBy != "" && missing&^m.clearedSet == 0 {
			st.violStale(c, "candidate address list still omits a remote after the blocked list was cleared by "+m.clearedBy+" (list not marked for rebuild)", detail(map[string]any{"missing": c37MaskStr(missing)}))
		} else {
			st.viol(c, "candidate address list omits an address that a source holds and nobody blocked", detail(map[string]any{"missing": c37MaskStr(missing)}))
		}
		return
	}
	// order: ascending in the stated key (either reading of the preferred group)
	okStrong, okPlain := true, true
	for k := 0; k+1 < n; k++ {
		a, b := int(code[k]-'0'), int(code[k+1]-'0')
		if c37RankStrong[pi][a] > c37RankStrong[pi][b] {
			okStrong = false
		}
		if c37RankPlain[pi][a] > c37RankPlain[pi][b] {
			okPlain = false
		}
	}
	if !okStrong && !okPlain {
		why := "order differs"
		for k := 0; k+1 < n; k++ {
			a, b := int(code[k]-'0'), int(code[k+1]-'0')
			if c37RankStrong[pi][a] > c37RankStrong[pi][b] && c37RankPlain[pi][a] > c37RankPlain[pi][b] {
				ca, cb := c37ClassOf[pi][a], c37ClassOf[pi][b]
				switch {
				case ca != cb:
					why = c37ClassName[ca] + " listed before " + c37ClassName[cb]
				case c37Addrs[a].Addr() == c37Addrs[b].Addr():
					why = "same address: higher port listed first"
				default:
					why = "addresses of one class (" + c37ClassName[ca] + ") not ascending by address"
				}
				break
			}
		}
		st.viol(c, "candidate address list out of order: "+why, detail(nil))
		return
	}
	// determinism: same set + same ranges => same list, whatever the history
	g := string(code[:n])
	st.mu.Lock()
	prev, seen := st.orders[[2]uint{uint(pi), want}]
	if !seen {
		st.orders[[2]uint{uint(pi), want}] = g
		st.distinctOutputs[g] = struct{}{}
	}
	st.mu.Unlock()
	if seen && prev != g {
		st.viol(c, "the same address set and preferred ranges give two different orders", detail(map[string]any{"other_order_by_alphabet_index": prev}))
		return
	}
	// coverage
	if n > 0 {
		st.nonEmpty.Add(1)
	}
	if hadDup {
		st.dedup.Add(1)
	}
	if hadBlocked {
		st.blockedRemoved.Add(1)
	}
	var classes uint
	for k := 0; k < n; k++ {
		i := int(code[k] - '0')
		classes |= 1 << c37ClassOf[pi][i]
		if k > 0 && c37Addrs[int(code[k-1]-'0')].Addr() == c37Addrs[i].Addr() {
			st.samePortVariants.Add(1)
		}
	}
	nc := 0
	for cl := 0; cl < 4; cl++ {
		if classes&(1<<cl) != 0 {
			nc++
			st.classSeen[cl].Add(1)
		}
	}
	if nc >= 3 {
		st.multiClass.Add(1)
	}
}

func c37JudgeRelays(c *mc.Check, st *c37Stats, m *c37Model, got []netip.Addr, ctx func() map[string]any) {
	st.relayEvals.Add(1)
	want, hadDup := m.expectedRelays()
	if hadDup {
		st.relayDedup.Add(1)
	}
	detail := func() map[string]any {
		d := ctx()
		d["got_relays"] = fmt.Sprint(got)
		var ws []string
		for i, r := range c37Relays {
			if want&(1<<i) != 0 {
				ws = append(ws, r.String())
			}
		}
		d["reported_relays_dedup"] = strings.Join(ws, " ")
		return d
	}
	var gotMask uint
	for _, g := range got {
		i, ok := c37RelayIndex[g]
		if !ok || want&(1<<i) == 0 {
			st.viol(c, "relay candidates contain a relay nobody reports (any more)", detail())
			return
		}
		if gotMask&(1<<i) != 0 {
			st.viol(c, "relay candidates contain the same relay twice", detail())
			return
		}
		gotMask |= 1 << i
	}
	if gotMask != want {
		st.viol(c, "relay candidates omit a reported relay", detail())
		return
	}
	// sorted: ascending by address bytes within a family; either family may come first (the statement does not say)
	asc := func(v4first bool) bool {
		for i := 0; i+1 < len(got); i++ {
			a, b := c37Bytes(got[i]), c37Bytes(got[i+1])
			if len(a) != len(b) {
				if (len(a) < len(b)) != v4first {
					return false
				}
				continue
			}
			if bytes.Compare(a, b) >= 0 {
				return false
			}
		}
		return true
	}
	if !asc(true) && !asc(false) {
		st.viol(c, "relay candidates are not sorted", detail())
	}
}

// ---- world = real list + model ----

type c37World struct {
	r  *RemoteList
	hr *hostnamesResults
	m  *c37Model
}

func c37NewWorld() *c37World {
	w := &c37World{r: NewRemoteList([]netip.Addr{c37Self}, nil), m: c37NewModel()}
	// a static host: resolver results attached, nothing resolved yet (what addStaticRemotes does for host names)
	w.hr = &hostnamesResults{}
	empty := map[netip.AddrPort]struct{}{}
	w.hr.ips.Store(&empty)
	w.r.Lock()
	w.r.unlockedSetHostnamesResults(w.hr)
	w.r.Unlock()
	w.m.dnsAttached = true
	return w
}

func c37True4(netip.Addr, *V4AddrPort) bool { return true }
func c37True6(netip.Addr, *V6AddrPort) bool { return true }

func (w *c37World) setV4(o int, xs []int) {
	to := make([]*V4AddrPort, 0, len(xs))
	for _, i := range xs {
		to = append(to, netAddrToProtoV4AddrPort(c37Addrs[i].Addr(), c37Addrs[i].Port()))
	}
	w.r.Lock()
	w.r.unlockedSetV4(c37Owners[o], c37Self, to, c37True4)
	w.r.Unlock()
	w.m.owners[o].rep4 = xs
	w.m.dirty()
}

func (w *c37World) setV6(o int, xs []int) {
	to := make([]*V6AddrPort, 0, len(xs))
	for _, i := range xs {
		to = append(to, netAddrToProtoV6AddrPort(c37Addrs[i].Addr(), c37Addrs[i].Port()))
	}
	w.r.Lock()
	w.r.unlockedSetV6(c37Owners[o], c37Self, to, c37True6)
	w.r.Unlock()
	w.m.owners[o].rep6 = xs
	w.m.dirty()
}

func (w *c37World) setRelay(o int, xs []int) {
	to := make([]netip.Addr, 0, len(xs))
	for _, i := range xs {
		to = append(to, c37Relays[i])
	}
	w.r.Lock()
	w.r.unlockedSetRelay(c37Owners[o], to)
	w.r.Unlock()
	w.m.owners[o].relays = xs
	w.m.dirty()
}

func (w *c37World) learn(o int, i int) {
	x := c37Addrs[i]
	w.r.LearnRemote(c37Owners[o], x)
	if len(c37Bytes(x.Addr())) == 4 {
		w.m.owners[o].learned4 = i
	} else {
		w.m.owners[o].learned6 = i
	}
	w.m.dirty()
}

func (w *c37World) prepend(o int, i int) {
	x := c37Addrs[i]
	w.r.Lock()
	if len(c37Bytes(x.Addr())) == 4 {
		w.r.unlockedPrependV4(c37Owners[o], netAddrToProtoV4AddrPort(x.Addr(), x.Port()))
		w.m.owners[o].rep4 = append([]int{i}, w.m.owners[o].rep4...)
	} else {
		w.r.unlockedPrependV6(c37Owners[o], netAddrToProtoV6AddrPort(x.Addr(), x.Port()))
		w.m.owners[o].rep6 = append([]int{i}, w.m.owners[o].rep6...)
	}
	w.r.Unlock()
	w.m.dirty()
}

func (w *c37World) block(i int, relayed bool) {
	w.r.BlockRemote(ViaSender{UdpAddr: c37Addrs[i], IsRelayed: relayed})
	if !relayed && w.m.blocked&(1<<i) == 0 {
		w.m.blocked |= 1 << i
		w.m.dirty()
	}
}

func (w *c37World) unblock(viaHandshake bool) {
	by := "ResetBlockedRemotes"
	if viaHandshake {
		by = "RefreshFromHandshake"
		w.r.RefreshFromHandshake([]netip.Addr{c37Self})
	} else {
		w.r.ResetBlockedRemotes()
	}
	if w.m.blocked != 0 {
		if w.m.clearedBy == "" {
			w.m.clearedBy = by
		}
		w.m.clearedSet |= w.m.blocked
	}
	w.m.blocked = 0
}

func (w *c37World) dnsUpdate(xs []int) {
	// the resolver goroutine's effect: store the new set, then the onUpdate callback installed by addStaticRemotes
	set := make(map[netip.AddrPort]struct{}, len(xs))
	for _, i := range xs {
		set[c37Addrs[i]] = struct{}{}
	}
	w.hr.ips.Store(&set)
	w.r.Lock()
	w.r.shouldRebuild = true
	w.r.Unlock()
	w.m.dns = xs
	w.m.dirty()
}

func (w *c37World) dnsClear() {
	w.r.ClearHostnameResults()
	w.m.dnsAttached = false
	w.m.dns = nil
	w.m.dirty()
}

func (w *c37World) resetOwner(o int) {
	w.r.ResetForOwner(c37Owners[o])
	w.m.owners[o].rep4, w.m.owners[o].rep6 = nil, nil
	w.m.dirty()
}

// key: everything that can influence later outputs, read from the private fields in a fixed order
// (addresses written as alphabet indices; '?' for anything outside the alphabet).
func (w *c37World) key() string {
	var sb strings.Builder
	r := w.r
	ap := func(x netip.AddrPort) {
		if i, ok := c37Index[x]; ok {
			sb.WriteByte(byte('0' + i))
		} else {
			sb.WriteString("?" + x.String())
		}
	}
	for _, o := range c37Owners {
		ch := r.cache[o]
		if ch == nil {
			sb.WriteString("-|")
			continue
		}
		if ch.v4 != nil {
			if ch.v4.learned != nil {
				sb.WriteByte('L')
				ap(protoV4AddrPortToNetAddrPort(ch.v4.learned))
			}
			sb.WriteByte('r')
			for _, x := range ch.v4.reported {
				ap(protoV4AddrPortToNetAddrPort(x))
			}
		}
		sb.WriteByte('/')
		if ch.v6 != nil {
			if ch.v6.learned != nil {
				sb.WriteByte('L')
				ap(protoV6AddrPortToNetAddrPort(ch.v6.learned))
			}
			sb.WriteByte('r')
			for _, x := range ch.v6.reported {
				ap(protoV6AddrPortToNetAddrPort(x))
			}
		}
		sb.WriteByte('/')
		if ch.relay != nil {
			for _, x := range ch.relay.relay {
				sb.WriteByte(byte('a' + c37RelayIndex[x]))
			}
		}
		sb.WriteByte('|')
	}
	sb.WriteString("bad=")
	for _, x := range r.badRemotes {
		ap(x)
	}
	if r.shouldRebuild {
		sb.WriteString("|dirty")
	}
	sb.WriteString("|addrs=")
	for _, x := range r.addrs {
		ap(x)
	}
	sb.WriteString("|relays=")
	for _, x := range r.relays {
		sb.WriteByte(byte('a' + c37RelayIndex[x]))
	}
	if r.hr != nil {
		var mask uint
		for _, x := range r.hr.GetAddrs() {
			if i, ok := c37Index[x]; ok {
				mask |= 1 << i
			}
		}
		fmt.Fprintf(&sb, "|hr=%x", mask)
	}
	fmt.Fprintf(&sb, "|cleared=%s%x", w.m.clearedBy, w.m.clearedSet)
	return sb.String()
}

// ---- history events ----

type c37Ev struct {
	Op   string
	O    int
	A    []int // address (or relay) alphabet indices
	Pref int
}

func c37Names(xs []int, relay bool) string {
	s := make([]string, len(xs))
	for i, x := range xs {
		if relay {
			s[i] = c37Relays[x].String()
		} else {
			s[i] = c37Addrs[x].String()
		}
	}
	return "[" + strings.Join(s, " ") + "]"
}

func c37Label(e c37Ev) string {
	switch e.Op {
	case "learn", "prepend":
		return fmt.Sprintf("%s(owner%d,%v)", e.Op, e.O+1, c37Addrs[e.A[0]])
	case "setV4", "setV6":
		return fmt.Sprintf("%s(owner%d,%s)", e.Op, e.O+1, c37Names(e.A, false))
	case "setRelay":
		return fmt.Sprintf("setRelay(owner%d,%s)", e.O+1, c37Names(e.A, true))
	case "block", "blockRelayed":
		return fmt.Sprintf("%s(%v)", e.Op, c37Addrs[e.A[0]])
	case "dns":
		return fmt.Sprintf("dnsUpdate(%s)", c37Names(e.A, false))
	case "resetOwner":
		return fmt.Sprintf("ResetForOwner(owner%d)", e.O+1)
	case "copy":
		return fmt.Sprintf("CopyAddrs(pref%d)", e.Pref)
	}
	return e.Op
}

func c37Menu(nOwners int) []c37Ev {
	var m []c37Ev
	v4lists := [][]int{{}, {0}, {3, 4}, {0, 0, 2}, {4, 1, 2, 3}}
	v6lists := [][]int{{}, {5}, {6, 7, 6}, {7, 5}}
	rlists := [][]int{{}, {0}, {1, 0}, {0, 0, 2}}
	for o := 0; o < nOwners; o++ {
		for a := range c37Addrs {
			m = append(m, c37Ev{Op: "learn", O: o, A: []int{a}})
		}
		for _, l := range v4lists {
			m = append(m, c37Ev{Op: "setV4", O: o, A: l})
		}
		for _, l := range v6lists {
			m = append(m, c37Ev{Op: "setV6", O: o, A: l})
		}
		for _, l := range rlists {
			m = append(m, c37Ev{Op: "setRelay", O: o, A: l})
		}
		m = append(m, c37Ev{Op: "resetOwner", O: o})
	}
	for _, a := range []int{0, 3, 5} {
		m = append(m, c37Ev{Op: "prepend", O: 0, A: []int{a}})
	}
	for a := range c37Addrs {
		m = append(m, c37Ev{Op: "block", A: []int{a}})
	}
	m = append(m, c37Ev{Op: "blockRelayed", A: []int{3}})
	m = append(m, c37Ev{Op: "ResetBlockedRemotes"}, c37Ev{Op: "RefreshFromHandshake"})
	for _, l := range [][]int{{}, {3}, {0, 6}, {4, 3, 7}} {
		m = append(m, c37Ev{Op: "dns", A: l})
	}
	m = append(m, c37Ev{Op: "ClearHostnameResults"})
	for p := range c37Prefs {
		m = append(m, c37Ev{Op: "copy", Pref: p})
	}
	return m
}

func (w *c37World) apply(c *mc.Check, st *c37Stats, e c37Ev, ctx func() map[string]any) {
	switch e.Op {
	case "learn":
		w.learn(e.O, e.A[0])
	case "prepend":
		w.prepend(e.O, e.A[0])
	case "setV4":
		w.setV4(e.O, e.A)
	case "setV6":
		w.setV6(e.O, e.A)
	case "setRelay":
		w.setRelay(e.O, e.A)
	case "block":
		w.block(e.A[0], false)
	case "blockRelayed":
		w.block(e.A[0], true)
	case "ResetBlockedRemotes":
		w.unblock(false)
	case "RefreshFromHandshake":
		w.unblock(true)
	case "dns":
		if w.m.dnsAttached {
			w.dnsUpdate(e.A)
		}
	case "ClearHostnameResults":
		w.dnsClear()
	case "resetOwner":
		w.resetOwner(e.O)
	case "copy":
		got := w.r.CopyAddrs(c37Prefs[e.Pref])
		c37Judge(c, st, w.m, e.Pref, got, ctx)
		c37JudgeRelays(c, st, w.m, append([]netip.Addr{}, w.r.relays...), ctx)
	}
}

func TestVerifC37(t *testing.T) {
	c := mc.Begin(t, "C37", "model_checking")
	defer c.End()
	st := &c37Stats{orders: map[[2]uint]string{}, distinctOutputs: map[string]struct{}{}}

	// ---------- (2) histories ----------
	nOwners := 2
	menu := c37Menu(nOwners)
	depth := mc.Pick(c, 3, 4)
	c.Set("history_menu_size", len(menu))
	c.Set("history_depth", depth)
	c.Set("owners_in_histories", nOwners)
	var opSeen sync.Map
	// Two start states: the empty list, and a populated one (so that block / rebuild / unblock sequences on addresses that
	// are really present fit inside the depth bound). The seed is itself a history replayed on the fresh list.
	seeds := map[string][]c37Ev{
		"empty": nil,
		"populated": {
			{Op: "setV4", O: 0, A: []int{4, 1, 2, 3}},
			{Op: "setV6", O: 0, A: []int{6, 7, 6}},
			{Op: "learn", O: 1, A: []int{0}},
			{Op: "dns", A: []int{0, 5}},
			{Op: "setRelay", O: 1, A: []int{1, 0}},
		},
	}
	perSeed := map[string]any{}
	for _, seedName := range []string{"empty", "populated"} {
		seed := seeds[seedName]
		res := mc.BFSReplay(c, mc.BFSConfig[c37Ev]{
			MaxDepth: depth,
			Label:    c37Label,
			Stop:     func() bool { return c.OutOfTime() || st.hard.Load() > 500 },
			Run: func(hist []c37Ev) (string, []c37Ev) {
				w := c37NewWorld()
				labels := make([]string, 0, len(seed)+len(hist)+1)
				ctx := func() map[string]any { return map[string]any{"history": append([]string{}, labels...)} }
				for _, e := range seed {
					labels = append(labels, c37Label(e))
					w.apply(c, st, e, ctx)
				}
				for _, e := range hist {
					labels = append(labels, c37Label(e))
					opSeen.LoadOrStore(e.Op, true)
					w.apply(c, st, e, ctx)
				}
				key := w.key()
				// probe the reached state under every preferred-range setting (start rotates with the history length)
				for i := range c37Prefs {
					p := (i + len(hist)) % len(c37Prefs)
					labels = append(labels, fmt.Sprintf("probe CopyAddrs(pref%d)", p))
					got := w.r.CopyAddrs(c37Prefs[p])
					c37Judge(c, st, w.m, p, got, ctx)
					if i == 0 {
						c37JudgeRelays(c, st, w.m, append([]netip.Addr{}, w.r.relays...), ctx)
					}
				}
				return key, menu
			},
		})
		perSeed[seedName] = map[string]any{"states": res.States, "transitions": res.Transitions, "elapsed_s": fmt.Sprintf("%.1f", c.Elapsed())}
	}
	c.Set("history_start_states", perSeed)
	historyEvals := st.evals.Load()

	// ---------- (1) populations ----------
	// per address: 0 absent, 1 reported by owner1, 2 reported by owner1 and owner2, 3 DNS result, 4 twice in owner1's report
	nChoices := mc.Pick(c, 4, 5)
	blockedSets := [][]int{{}, {0}, {4}, {6}, {1, 7}, {2, 3, 5}}
	if c.Thorough() {
		blockedSets = append(blockedSets, []int{1}, []int{2}, []int{3}, []int{5}, []int{7}, []int{0, 1, 2, 3, 4, 5, 6, 7})
	}
	learnedSets := [][]int{{}, {1, 7}} // owner3 learns v4 #1 and v6 #7 (same addresses as #0/#6, other ports)
	total := 1
	for range c37Addrs {
		total *= nChoices
	}
	var popEvals atomic.Int64
	mc.ParallelItems(total, 0, func() bool { return c.OutOfTime() || st.hard.Load() > 500 }, func(idx int, _ *mc.Enum) {
		choice := make([]int, len(c37Addrs))
		x := idx
		for i := range choice {
			choice[i] = x % nChoices
			x /= nChoices
		}
		for bi, bs := range blockedSets {
			for li, ls := range learnedSets {
				w := c37NewWorld()
				var o1v4, o1v6, o2v4, o2v6, dns []int
				for i, ch := range choice {
					a := i
					add := func(l4, l6 *[]int) {
						if len(c37Bytes(c37Addrs[i].Addr())) == 4 {
							*l4 = append(*l4, a)
						} else {
							*l6 = append(*l6, a)
						}
					}
					switch ch {
					case 1:
						add(&o1v4, &o1v6)
					case 2:
						add(&o1v4, &o1v6)
						add(&o2v4, &o2v6)
					case 3:
						dns = append(dns, a)
					case 4:
						add(&o1v4, &o1v6)
						add(&o1v4, &o1v6)
					}
				}
				// owner2 reports in the opposite order
				for i, j := 0, len(o2v4)-1; i < j; i, j = i+1, j-1 {
					o2v4[i], o2v4[j] = o2v4[j], o2v4[i]
				}
				w.setV4(0, o1v4)
				w.setV6(0, o1v6)
				w.setV4(1, o2v4)
				w.setV6(1, o2v6)
				w.dnsUpdate(dns)
				for _, l := range ls {
					w.learn(2, l)
				}
				for _, b := range bs {
					w.block(b, false)
				}
				ctx := func() map[string]any {
					return map[string]any{"population": map[string]any{"owner1_v4": c37Names(o1v4, false), "owner1_v6": c37Names(o1v6, false), "owner2_v4": c37Names(o2v4, false), "owner2_v6": c37Names(o2v6, false), "dns": c37Names(dns, false), "owner3_learned": fmt.Sprint(ls), "blocked": fmt.Sprint(bs)}}
				}
				for i := range c37Prefs {
					p := (i + bi + li) % len(c37Prefs)
					popEvals.Add(1)
					got := w.r.CopyAddrs(c37Prefs[p])
					c37Judge(c, st, w.m, p, got, ctx)
				}
			}
		}
	})
	if c.OutOfTime() {
		c.Capped("time budget during populations")
	}
	// relay populations: every assignment of 3 relay lists (from 6) to 3 owners
	rl := [][]int{{}, {0}, {1, 0}, {0, 0, 2}, {2, 1}, {2, 0, 1, 2}}
	for a := range rl {
		for b := range rl {
			for d := range rl {
				w := c37NewWorld()
				w.setRelay(0, rl[a])
				w.setRelay(1, rl[b])
				w.setRelay(2, rl[d])
				w.r.Rebuild(nil)
				c37JudgeRelays(c, st, w.m, append([]netip.Addr{}, w.r.relays...), func() map[string]any {
					return map[string]any{"relay_reports": c37Names(rl[a], true) + c37Names(rl[b], true) + c37Names(rl[d], true)}
				})
			}
		}
	}

	if st.hard.Load() == 0 && !c.OutOfTime() {
		for i := range st.classSeen {
			c.Require(st.classSeen[i].Load() > 0, "class %q never appeared in an output", c37ClassName[i])
		}
		c.Require(st.dedup.Load() > 0 && st.blockedRemoved.Load() > 0 && st.samePortVariants.Load() > 0 && st.multiClass.Load() > 0,
			"coverage: dedup=%d blockedRemoved=%d portVariants=%d multiClass=%d", st.dedup.Load(), st.blockedRemoved.Load(), st.samePortVariants.Load(), st.multiClass.Load())
		c.Require(st.relayDedup.Load() > 0, "relay dedup never needed")
		for _, e := range menu {
			_, ok := opSeen.Load(e.Op)
			c.Require(ok, "operation %s never executed", e.Op)
		}
		c.Require(len(st.distinctOutputs) > 100, "only %d distinct outputs", len(st.distinctOutputs))
	}
	c.Set("copyaddrs_evaluations_in_histories", historyEvals)
	c.Set("copyaddrs_evaluations_in_populations", popEvals.Load())
	c.Set("populations_per_address_choices", nChoices)
	c.Set("relay_evaluations", st.relayEvals.Load())
	c.Set("distinct_outputs", len(st.distinctOutputs))
	c.Set("evaluations_hitting_the_cleared_but_not_rebuilt_finding", st.stale.Load())
	c.Set("outputs_needing_dedup", st.dedup.Load())
	c.Set("outputs_with_blocked_source_removed", st.blockedRemoved.Load())
	c.Set("outputs_with_three_or_more_classes", st.multiClass.Load())
	c.Set("explanation", "states = distinct (cache per owner, blocked list, resolver set, dirty flag, current addrs/relays slices) of the real RemoteList reached by histories over the listed mutators; every state is probed with CopyAddrs under 4 preferred-range settings; additionally every population of 8 addresses over the source choices is built on a fresh list and observed")
	c.Assume("order inside the preferred group: both 'IPv6, public, private, then address, port' (what the code does) and plain 'address then port' are accepted; the statement only says preferred first")
	c.Assume("relays: 'sorted' = ascending by address within an address family, either family first")
	c.Assume("reports stay below MaxRemotes (the cap is C36's subject); allow-list filtering of DNS results (shouldAdd) is C36's subject: nil here; report filters (checkFunc) always true")
	c.Assume("IPv4-mapped IPv6 addresses are not in the alphabet (LearnRemote stores them as v6 and hands them back unmapped)")
	c.Assume("a DNS update is modelled as the resolver goroutine's two steps: store the new set, run the onUpdate callback of addStaticRemotes (marks the list dirty)")
}
