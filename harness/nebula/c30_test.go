//go:build verif

package nebula

// C30 — tunnel teardown decisions follow the liveness policy.
//
// Engine E2: explicit-state BFS by history replay. Every history is replayed on FRESH real objects: a real
// connectionManager, HostMap, PKI (NewPKIFromConfig, real CA pool with blocklist), HandshakeManager and a partially
// assembled Interface (the same way /repo's connection_manager_test.go assembles one) with a recording udp.Conn. Two
// tunnels to one peer are installed through the real HostMap.unlockedAddHostInfo (a non-primary N, then a primary P)
// with real AEAD cipher states, so CloseTunnel / Test packets are really encrypted and written. Every configuration
// change (disconnect_invalid, drop_inactive, blocklist, CA bundle, local certificate) goes through the real
// config.C.ReloadConfigString -> registered reload callbacks.
//
// A check event calls the real doTrafficCheck (effects: hostmap, packets written, pending handshake); for the last
// event of each history a twin world replays the same prefix and calls the real makeTrafficDecision to observe the
// decision itself. Both are compared with a decision table transcribed from the statement, evaluated over a boring
// reference model (flags, times, certificate facts the harness itself configured). Only the implications the statement
// makes are asserted.
//
// Besides the single-step events the menu carries COMPOUND events that sustain one-directional traffic on a tunnel for k
// consecutive checks (k check intervals of virtual time, k around inactivity_timeout / check interval):
//   rx×k:X  = k times { advance one check interval; inbound packet on X; check X }            (we only receive)
//   tx×k:X  = k times { advance one check interval; outbound packet on X; check X; if that check wrote a test probe,
//                       the peer's test reply arrives (the only thing we receive) }            (we only send, peer alive)
// A compound event is one BFS step, so "one-directional traffic up to / beyond the inactivity timeout, then a quiet
// check" is three steps deep and within the quick box (also after a toggle, reload, counter or traffic event).
// Compound events are offered in the first depth-2 positions of a history (the later ones cannot be followed by the
// clock advance + quiet check any more). Every inner check is judged like a single check event. One further start
// configuration is an existing one followed by a sustained receive-only prefix, so the full depth is also explored
// BEHIND a long one-way history.
//
// A re-handshake that a check started can FAIL: the event "hsfail" lets the pending handshake to the peer run out of
// retries through the real HandshakeManager.handleOutbound (the peer never answers) until the manager gives it up and
// deletes it. The tunnel itself is untouched by that, so the statement's re-handshake clause applies again on the next
// check ("a re-handshake is started when the local certificate changed or the counter passed the rekey threshold" has
// no "once"). The number of given-up attempts (capped) is a history variable of the model and part of the state key, so
// that "behind a failed attempt" is not merged with the otherwise identical state that never tried. Two start
// configurations lie behind a scripted failed attempt (counter reason, certificate reason), so that quick explores the
// full depth behind them.

import (
	"fmt"
	"net/netip"
	"sort"
	"strings"
	"sync"
	"testing"
	"time"

	"github.com/flynn/noise"
	"github.com/rcrowley/go-metrics"
	"github.com/slackhq/nebula/cert"
	"github.com/slackhq/nebula/cert_test"
	"github.com/slackhq/nebula/config"
	"github.com/slackhq/nebula/header"
	"github.com/slackhq/nebula/noiseutil"
	"github.com/slackhq/nebula/udp"
	"github.com/slackhq/nebula/zzverif/mc"
	"github.com/slackhq/nebula/zzverif/vtime"
	"go.yaml.in/yaml/v3"
)

const (
	c30CheckInterval   = 5 * time.Second
	c30PendingInterval = 10 * time.Second
	c30Timeout         = 20 * time.Second // tunnels.inactivity_timeout
	c30ShortLife       = 12 * time.Second // lifetime (after Epoch) of the short-lived peer certificate
	c30KT              = int(c30Timeout / c30CheckInterval) // checks that span exactly the inactivity timeout
)

// compound-event lengths and scope, set by the tier (quick: the current primary, k = timeout/interval; thorough: both
// tunnels, k-1 / k / k+1)
var c30SustainK = []int{c30KT}
var c30SustainAll = false

// compound events are offered in the first c30SustainPos positions of a history (= depth-2: the quiet check that shows
// what the sustained traffic did to the idle clock needs two more steps, a clock advance and the check)
var c30SustainPos = 2

// ---------------------------------------------------------------------------------------------------------------
// material, minted once per process

type c30Cert struct {
	id       string
	crt      cert.Certificate
	pem      string
	fp, twin string
	notAfter time.Time
	ca       string // which CA signed it: "ca1" | "cap"
}

type c30Material struct {
	ca1PEM, ca2PEM, capPEM string
	keyPEM                 string
	my                     map[string]*c30Cert // v1a v1b v2a v2b: same key, same networks; a/b differ in signature
	peer                   map[string]*c30Cert
	suite                  noise.CipherSuite
}

var c30MatOnce sync.Once
var c30Mat *c30Material

func c30Sign(v cert.Version, ca cert.Certificate, caKey []byte, curve cert.Curve, name string, pub []byte, nb, na time.Time, nets string) *c30Cert {
	t := &cert.TBSCertificate{Version: v, Curve: curve, Name: name, Networks: vParsePrefixes(nets), NotBefore: nb, NotAfter: na, PublicKey: pub}
	c, err := t.Sign(ca, ca.Curve(), caKey)
	if err != nil {
		panic(fmt.Sprintf("c30: sign %s: %v", name, err))
	}
	p, err := c.MarshalPEM()
	if err != nil {
		panic(err)
	}
	fp, _ := c.Fingerprint()
	twin, _ := cert.CalculateAlternateFingerprint(c)
	return &c30Cert{crt: c, pem: string(p), fp: fp, twin: twin, notAfter: c.NotAfter()}
}

func c30Material_() *c30Material {
	c30MatOnce.Do(func() {
		ep := vtime.Epoch
		nb, far := ep.Add(-time.Hour), ep.Add(5*365*24*time.Hour)
		caNb, caFar := ep.Add(-24*time.Hour), ep.Add(10*365*24*time.Hour)
		ca1, _, ca1Key, ca1PEM := cert_test.NewTestCaCert(cert.Version2, cert.Curve_CURVE25519, caNb, caFar, nil, nil, nil)
		_, _, _, ca2PEM := cert_test.NewTestCaCert(cert.Version2, cert.Curve_CURVE25519, caNb, caFar, nil, nil, nil)
		cap_, _, capKey, capPEM := cert_test.NewTestCaCert(cert.Version2, cert.Curve_P256, caNb, caFar, nil, nil, nil)
		mt := &c30Material{ca1PEM: string(ca1PEM), ca2PEM: string(ca2PEM), capPEM: string(capPEM), my: map[string]*c30Cert{}, peer: map[string]*c30Cert{}}
		pub, priv := cert_test.X25519Keypair()
		mt.keyPEM = string(cert.MarshalPrivateKeyToPEM(cert.Curve_CURVE25519, priv))
		const mine = "10.0.0.5/24"
		for _, x := range []struct {
			id string
			v  cert.Version
			na time.Time
		}{{"v1a", cert.Version1, far}, {"v1b", cert.Version1, far.Add(time.Hour)}, {"v2a", cert.Version2, far}, {"v2b", cert.Version2, far.Add(time.Hour)}} {
			cc := c30Sign(x.v, ca1, ca1Key, cert.Curve_CURVE25519, "me", pub, nb, x.na, mine)
			cc.id, cc.ca = x.id, "ca1"
			mt.my[x.id] = cc
		}
		ppub, _ := cert_test.X25519Keypair()
		ppub256, _ := cert_test.P256Keypair()
		add := func(id string, v cert.Version, ca cert.Certificate, caKey []byte, caID string, curve cert.Curve, pub []byte, na time.Time, nets string) {
			cc := c30Sign(v, ca, caKey, curve, "peer", pub, nb, na, nets)
			cc.id, cc.ca = id, caID
			mt.peer[id] = cc
		}
		add("hiLong", cert.Version2, ca1, ca1Key, "ca1", cert.Curve_CURVE25519, ppub, far, "10.0.0.9/24")
		add("hiShort", cert.Version2, ca1, ca1Key, "ca1", cert.Curve_CURVE25519, ppub, ep.Add(c30ShortLife), "10.0.0.9/24")
		add("hiV1", cert.Version1, ca1, ca1Key, "ca1", cert.Curve_CURVE25519, ppub, far, "10.0.0.9/24")
		add("loP256", cert.Version2, cap_, capKey, "cap", cert.Curve_P256, ppub256, far, "10.0.0.2/24")
		add("loShortP256", cert.Version2, cap_, capKey, "cap", cert.Curve_P256, ppub256, ep.Add(c30ShortLife), "10.0.0.2/24")
		var err error
		mt.suite, err = newCipherSuite(cert.Curve_CURVE25519, false, "aes", false)
		if err != nil {
			panic(err)
		}
		c30Mat = mt
	})
	return c30Mat
}

// ---------------------------------------------------------------------------------------------------------------
// seeds (start configurations)

type c30Seed struct {
	name         string
	local        string    // my certificate bundle ids, "+"-joined
	tunMy        [2]string // my certificate used by tunnel 0 (P) / 1 (N)
	tunPeer      [2]string // peer certificate presented on tunnel 0 / 1
	disc, drop   bool
	p256         bool // CA bundle also carries the P256 CA; twin blocklisting is in the menu
	localRenew   string
	localV2only  string
	prefix       []c30Ev // scripted legitimate prefix (ordinary events) applied before the explored history starts
}

var c30Seeds = []c30Seed{
	{name: "hi-long", local: "v1a", tunMy: [2]string{"v1a", "v1a"}, tunPeer: [2]string{"hiLong", "hiLong"}, disc: true, drop: false, localRenew: "v1b", localV2only: "v2a"},
	{name: "hi-short-idle", local: "v2a", tunMy: [2]string{"v2a", "v2a"}, tunPeer: [2]string{"hiShort", "hiLong"}, disc: false, drop: true, localRenew: "v2b"},
	{name: "lo-p256", local: "v2a", tunMy: [2]string{"v2a", "v2a"}, tunPeer: [2]string{"loP256", "loShortP256"}, disc: true, drop: true, p256: true, localRenew: "v2b"},
	{name: "hi-v1v2", local: "v1a+v2a", tunMy: [2]string{"v1a", "v2a"}, tunPeer: [2]string{"hiV1", "hiLong"}, disc: true, drop: false, localRenew: "v1b+v2b", localV2only: "v2a"},
	// behind a sustained receive-only history (timeout / check interval checks) with drop_inactive on
	{name: "lo-p256/rx-sustained", local: "v2a", tunMy: [2]string{"v2a", "v2a"}, tunPeer: [2]string{"loP256", "loShortP256"}, disc: true, drop: true, p256: true, localRenew: "v2b",
		prefix: []c30Ev{{K: "rx", X: 0, N: c30KT}}},
	// behind a re-handshake attempt that was started by a check and then given up by the handshake manager (the peer did
	// not answer any retry): once for the counter reason, once for the renewed local certificate
	{name: "hi-long/rekey-given-up", local: "v1a", tunMy: [2]string{"v1a", "v1a"}, tunPeer: [2]string{"hiLong", "hiLong"}, disc: true, drop: false, localRenew: "v1b", localV2only: "v2a",
		prefix: []c30Ev{{K: "ctr", X: 0, V: "rekey"}, {K: "in", X: 0}, {K: "check", X: 0}, {K: "hsfail"}}},
	{name: "hi-short-idle/renewal-given-up", local: "v2a", tunMy: [2]string{"v2a", "v2a"}, tunPeer: [2]string{"hiShort", "hiLong"}, disc: false, drop: true, localRenew: "v2b",
		prefix: []c30Ev{{K: "local", V: "v2b"}, {K: "in", X: 0}, {K: "check", X: 0}, {K: "hsfail"}}},
}

// ---------------------------------------------------------------------------------------------------------------
// reference model (what the harness itself did; no implementation state)

type c30Tun struct {
	in, out     bool
	lastTraffic time.Time // instant of the most recent in/out flag event (true usage)
	lastSeen    time.Time // instant of the most recent check that observed in||out
	seenValid   bool
	probe       bool // a test probe was written for this tunnel and no inbound traffic has been observed since
	ctr         int  // 0 low, 1 >= rekey threshold, 2 >= reject ceiling
	my          string
	peer        *c30Cert
}

type c30Model struct {
	disc, drop bool
	ca         string // good | block | twin | other
	local      string
	tun        [2]c30Tun
	gaveUp     int // history variable: re-handshake attempts to the peer that the handshake manager gave up (capped at 2)
}

// ---------------------------------------------------------------------------------------------------------------
// world of real objects

type c30World struct {
	seed  *c30Seed
	mat   *c30Material
	c     *config.C
	pki   *PKI
	hmap  *HostMap
	cm    *connectionManager
	hsm   *HandshakeManager
	lh    *LightHouse
	conn  *vconn
	ifce  *Interface
	tun   [2]*HostInfo
	peer  netip.Addr
	now   time.Time
	md    c30Model
	nb    []byte
	out   []byte
	sawQ  int
}

var c30YamlCache sync.Map

func (w *c30World) yaml() string {
	ck := fmt.Sprintf("%s|%v|%v|%s|%s", w.seed.name, w.md.disc, w.md.drop, w.md.ca, w.md.local)
	if v, ok := c30YamlCache.Load(ck); ok {
		return v.(string)
	}
	y := w.yamlBuild()
	c30YamlCache.Store(ck, y)
	return y
}

func (w *c30World) yamlBuild() string {
	mt := w.mat
	bundle := mt.ca1PEM
	if w.seed.p256 {
		bundle += mt.capPEM
	}
	var bl []string
	switch w.md.ca {
	case "block":
		bl = []string{w.md0Peer().fp}
	case "twin":
		bl = []string{w.md0Peer().twin}
	case "other":
		bundle = mt.ca2PEM
	}
	var certs string
	for _, id := range strings.Split(w.md.local, "+") {
		certs += mt.my[id].pem
	}
	cfg := m{
		"pki": m{"ca": bundle, "cert": certs, "key": mt.keyPEM, "disconnect_invalid": w.md.disc, "blocklist": bl},
		"tunnels": m{"drop_inactive": w.md.drop, "inactivity_timeout": c30Timeout.String()},
		"timers":  m{"connection_alive_interval": int(c30CheckInterval / time.Second), "pending_deletion_interval": int(c30PendingInterval / time.Second)},
	}
	b, err := yaml.Marshal(cfg)
	if err != nil {
		panic(err)
	}
	return string(b)
}

// md0Peer: the certificate of the tunnel that started as primary (block/twin events always name that certificate).
func (w *c30World) md0Peer() *c30Cert { return w.mat.peer[w.seed.tunPeer[0]] }

func c30Build(tb testing.TB, seed *c30Seed) *c30World {
	mt := c30Material_()
	l := vNewLogger("c30")
	w := &c30World{seed: seed, mat: mt, now: vtime.Epoch, nb: make([]byte, 12, 12), out: make([]byte, mtu)}
	w.md = c30Model{disc: seed.disc, drop: seed.drop, ca: "good", local: seed.local}
	w.c = config.NewC(l)
	if err := w.c.LoadString(w.yaml()); err != nil {
		tb.Fatalf("c30 config: %v", err)
	}
	var err error
	if w.pki, err = NewPKIFromConfig(l, w.c); err != nil {
		tb.Fatalf("c30 pki: %v", err)
	}
	// HostMap and Punchy carry no state the property can observe (preferred_ranges / punchy.* stay at their defaults,
	// punching off); they are built without their reload callbacks, whose config diffing dominates the replay cost.
	w.hmap = newHostMap(l)
	noRanges := []netip.Prefix{}
	w.hmap.preferredRanges.Store(&noRanges) // the default (no preferred_ranges), as NewHostMapFromConfig stores it
	w.conn = &vconn{addr: netip.MustParseAddrPort("192.0.2.5:4242")}
	punchy := &Punchy{l: l, punchConn: w.conn, metricPunchyTx: metrics.NilCounter{}, metricHolepunchTx: metrics.NilCounter{}}
	w.cm = newConnectionManagerFromConfig(l, w.c, w.hmap, punchy)

	lh := &LightHouse{l: l, addrMap: map[netip.Addr]*RemoteList{}, queryChan: make(chan netip.Addr, 64)}
	lighthouses := []netip.Addr{}
	staticList := map[netip.Addr]struct{}{}
	lh.localAddrsFn = func(*LocalAllowList) []netip.Addr { return nil }
	lh.lighthouses.Store(&lighthouses)
	lh.staticList.Store(&staticList)
	w.lh = lh
	punchy.lh = lh

	w.hsm = NewHandshakeManager(l, w.hmap, lh, w.conn, defaultHandshakeConfig)
	// the retry handler of a pending handshake consults the relay manager (defaults: use_relays on, am_relay off; no
	// relays are ever learned for the peer); built without its reload callback like HostMap and Punchy above
	rm := &relayManager{l: l, hostmap: w.hmap}
	rm.useRelays.Store(true)
	cs := w.pki.getCertState()
	w.ifce = &Interface{
		hostMap:           w.hmap,
		outside:           w.conn,
		writers:           []udp.Conn{w.conn},
		firewall:          &Firewall{},
		lightHouse:        lh,
		pki:               w.pki,
		handshakeManager:  w.hsm,
		connectionManager: w.cm,
		relayManager:      rm,
		myVpnAddrs:        cs.myVpnAddrs,
		myVpnNetworks:     cs.myVpnNetworks,
		messageMetrics:    newMessageMetricsOnlyRecvError(),
		l:                 l,
	}
	w.c.RegisterReloadCallback(w.ifce.reloadDisconnectInvalid)
	w.ifce.reloadDisconnectInvalid(w.c)
	w.cm.intf = w.ifce
	w.hsm.f = w.ifce

	// two tunnels to one peer: N is added first, then P, which makes P the primary (as a completed re-handshake does)
	w.peer = mt.peer[seed.tunPeer[0]].crt.Networks()[0].Addr()
	remote := netip.AddrPortFrom(netip.MustParseAddr("192.0.2.9"), 4242)
	for _, x := range []int{1, 0} {
		pc := mt.peer[seed.tunPeer[x]]
		cached, err := w.pki.GetCAPool().VerifyCertificate(w.now, pc.crt)
		if err != nil {
			tb.Fatalf("c30: peer certificate %s does not verify: %v", pc.id, err)
		}
		var key [32]byte
		key[0] = byte(0x30 + x)
		cst := &ConnectionState{
			myCert:   mt.my[seed.tunMy[x]].crt,
			peerCert: cached,
			eKey:     noiseutil.NewCipherState(noise.UnsafeNewCipherState(mt.suite, key, 0), noiseutil.CipherAESGCM),
			dKey:     noiseutil.NewCipherState(noise.UnsafeNewCipherState(mt.suite, key, 0), noiseutil.CipherAESGCM),
			window:   NewBits(ReplayWindow),
			initiator: true,
		}
		cst.messageCounter.Store(2)
		hi := &HostInfo{
			ConnectionState: cst,
			localIndexId:    uint32(1000 + x),
			remoteIndexId:   uint32(2000 + x),
			vpnAddrs:        []netip.Addr{w.peer},
			HandshakePacket: map[uint8][]byte{},
			relayState:      RelayState{relayForByAddr: map[netip.Addr]*Relay{}, relayForByIdx: map[uint32]*Relay{}},
		}
		hi.remote.Store(&remote)
		w.hmap.Lock()
		w.hmap.unlockedAddHostInfo(hi, w.ifce)
		w.hmap.Unlock()
		w.tun[x] = hi
		w.md.tun[x] = c30Tun{out: true, lastTraffic: w.now, my: seed.tunMy[x], peer: pc} // unlockedAddHostInfo marks out
	}
	w.conn.take()
	return w
}

func (w *c30World) drain() {
	for {
		select {
		case <-w.lh.queryChan:
			w.sawQ++
		case <-w.hsm.trigger:
		default:
			return
		}
	}
}

func (w *c30World) present(x int) bool {
	w.hmap.RLock()
	defer w.hmap.RUnlock()
	return w.hmap.Indexes[w.tun[x].localIndexId] == w.tun[x]
}

func (w *c30World) primary(x int) bool {
	w.hmap.RLock()
	defer w.hmap.RUnlock()
	return w.hmap.Hosts[w.peer] == w.tun[x]
}

func (w *c30World) reload(tb testing.TB) {
	if err := w.c.ReloadConfigString(w.yaml()); err != nil {
		tb.Fatalf("c30 reload: %v", err)
	}
	w.drain()
}

// ---------------------------------------------------------------------------------------------------------------
// events

type c30Ev struct {
	K string // in out check adv advT-1 advT disc drop ca local ctr hsfail | compound: rx tx
	X int    // tunnel (0 = the initial primary P, 1 = the initial non-primary N)
	V string
	N int // compound events: number of checks
}

func (e c30Ev) String() string {
	switch e.K {
	case "in", "out", "check":
		return fmt.Sprintf("%s:%s", e.K, [2]string{"P", "N"}[e.X])
	case "ctr":
		return fmt.Sprintf("ctr:%s=%s", [2]string{"P", "N"}[e.X], e.V)
	case "rx", "tx":
		return fmt.Sprintf("%s×%d:%s", e.K, e.N, [2]string{"P", "N"}[e.X])
	case "ca", "local", "seed":
		return e.K + ":" + e.V
	}
	return e.K
}

func (w *c30World) menu(pos int) []c30Ev {
	var evs []c30Ev
	for x := 0; x < 2; x++ {
		if !w.present(x) {
			continue
		}
		if !w.md.tun[x].in {
			evs = append(evs, c30Ev{K: "in", X: x})
		}
		if !w.md.tun[x].out {
			evs = append(evs, c30Ev{K: "out", X: x})
		}
		evs = append(evs, c30Ev{K: "check", X: x})
		if w.md.tun[x].ctr < 1 {
			evs = append(evs, c30Ev{K: "ctr", X: x, V: "rekey"})
		}
		if w.md.tun[x].ctr < 2 {
			evs = append(evs, c30Ev{K: "ctr", X: x, V: "reject"})
		}
	}
	if !w.present(0) && !w.present(1) {
		// one check of a vanished tunnel (the "not found" row), nothing else can matter any more
		return []c30Ev{{K: "check", X: 0}}
	}
	evs = append(evs, c30Ev{K: "adv"})
	if w.hsm.QueryVpnAddr(w.peer) != nil {
		evs = append(evs, c30Ev{K: "hsfail"})
	}
	for x := 0; x < 2; x++ {
		if pos < c30SustainPos && w.present(x) && (c30SustainAll || w.primary(x)) {
			for _, k := range c30SustainK {
				evs = append(evs, c30Ev{K: "rx", X: x, N: k}, c30Ev{K: "tx", X: x, N: k})
			}
		}
	}
	for x := 0; x < 2; x++ {
		if w.present(x) && w.primary(x) && w.md.tun[x].seenValid {
			if t := w.md.tun[x].lastSeen.Add(c30Timeout - time.Second); t.After(w.now) {
				evs = append(evs, c30Ev{K: "advT-1"})
			}
			if t := w.md.tun[x].lastSeen.Add(c30Timeout); t.After(w.now) {
				evs = append(evs, c30Ev{K: "advT"})
			}
		}
	}
	evs = append(evs, c30Ev{K: "disc"}, c30Ev{K: "drop"})
	for _, s := range []string{"good", "block", "twin", "other"} {
		if s == w.md.ca || (s == "twin" && !w.seed.p256) {
			continue
		}
		evs = append(evs, c30Ev{K: "ca", V: s})
	}
	if w.md.local == w.seed.local {
		if w.seed.localRenew != "" {
			evs = append(evs, c30Ev{K: "local", V: w.seed.localRenew})
		}
		if w.seed.localV2only != "" {
			evs = append(evs, c30Ev{K: "local", V: w.seed.localV2only})
		}
	}
	return evs
}

// c30Obs is what one check event did, as seen from outside the connection manager.
type c30Obs struct {
	presentBefore, primaryBefore bool
	presentAfter                 bool
	closeSent, testSent          bool
	hsBefore, hsAfter            bool
	gaveUpBefore                 int // re-handshake attempts given up before this check
}

// c30Expect is the row of the statement's decision table that applies to one check.
type c30Expect struct {
	certClose    bool // blocklisted, or invalid with disconnect_invalid on: must be closed
	exhausted    bool // counter at the ceiling: must be dropped
	deadProbe    bool // probe outstanding and no inbound since: must be dropped
	idleMust     bool // idle primary, drop_inactive on, idle (since the last check that saw traffic) >= timeout: removed
	idleMay      bool // an idle-close is permitted: primary, no traffic either way, drop_inactive on, true idle >= timeout
	alive        bool // inbound traffic since the last check: never removed for lack of traffic
	rehandshake  string // non-empty: a re-handshake must be pending after the check (reason)
	blocklisted  bool
	invalid      bool
	drop         bool          // tunnels.drop_inactive as configured
	traffic      string        // traffic flags since the previous check: "", "in", "out", "in+out"
	idleFor      string // true idle time: since the last packet in either direction
}

// whyNotIdle names the clause of "closed only when drop_inactive is on and idle >= the inactivity timeout" that fails.
func (e c30Expect) whyNotIdle() string {
	switch {
	case !e.drop:
		return "drop_inactive is off"
	case e.traffic != "":
		return "traffic since the last check (" + e.traffic + ")"
	}
	return "idle for less than the inactivity timeout"
}

func (w *c30World) expect(x int, primary bool) c30Expect {
	t := &w.md.tun[x]
	var e c30Expect
	e.blocklisted = (w.md.ca == "block" && t.peer.fp == w.md0Peer().fp) || (w.md.ca == "twin" && t.peer.twin != "" && t.peer.twin == w.md0Peer().twin)
	caPresent := w.md.ca != "other"
	e.invalid = w.now.After(t.peer.notAfter) || !caPresent
	e.certClose = e.blocklisted || (e.invalid && w.md.disc)
	e.exhausted = t.ctr == 2
	e.alive = t.in
	e.deadProbe = t.probe && !t.in
	idle := primary && !t.in && !t.out
	e.drop, e.idleFor = w.md.drop, w.now.Sub(t.lastTraffic).String()
	e.traffic = strings.Join(map[[2]bool][]string{{true, false}: {"in"}, {false, true}: {"out"}, {true, true}: {"in", "out"}}[[2]bool{t.in, t.out}], "+")
	e.idleMay = idle && w.md.drop && w.now.Sub(t.lastTraffic) >= c30Timeout
	e.idleMust = idle && w.md.drop && t.seenValid && w.now.Sub(t.lastSeen) >= c30Timeout
	if primary && t.in && !e.certClose && !e.exhausted {
		cur := ""
		for _, id := range strings.Split(w.md.local, "+") {
			if id[:2] == t.my[:2] {
				cur = id
			}
		}
		switch {
		case cur == "":
			e.rehandshake = "local certificate of the tunnel's version removed"
		case cur != t.my:
			e.rehandshake = "local certificate renewed"
		case t.ctr >= 1:
			e.rehandshake = "message counter passed the rekey threshold"
		}
	}
	return e
}

// apply executes one event on the real objects and the model; check events are judged against the table. decide != nil
// (twin world): the event's final check is not executed, decide(x) is called in its place.
func (w *c30World) apply(tb testing.TB, c *mc.Check, ev c30Ev, hist func() []string, judge bool, decide func(x int)) {
	switch ev.K {
	case "rx", "tx":
		// compound: one-directional traffic sustained over ev.N consecutive checks; ends early once the tunnel is gone
		for i := 0; i < ev.N && w.present(ev.X); i++ {
			w.apply(tb, c, c30Ev{K: "adv"}, hist, false, nil)
			w.apply(tb, c, c30Ev{K: map[string]string{"rx": "in", "tx": "out"}[ev.K], X: ev.X}, hist, false, nil)
			if decide != nil && i == ev.N-1 {
				decide(ev.X)
				return
			}
			o := w.check(c, ev.X, hist, judge)
			if ev.K == "tx" && o.testSent && w.present(ev.X) {
				// the peer is alive: it answers the probe, which is the only thing we receive
				w.apply(tb, c, c30Ev{K: "in", X: ev.X}, hist, false, nil)
			}
		}
	case "in":
		w.cm.In(w.tun[ev.X])
		w.md.tun[ev.X].in, w.md.tun[ev.X].lastTraffic = true, w.now
	case "out":
		w.cm.Out(w.tun[ev.X])
		w.md.tun[ev.X].out, w.md.tun[ev.X].lastTraffic = true, w.now
	case "adv":
		w.now = w.now.Add(c30CheckInterval)
	case "advT-1", "advT":
		for x := 0; x < 2; x++ {
			if w.present(x) && w.primary(x) {
				d := c30Timeout
				if ev.K == "advT-1" {
					d -= time.Second
				}
				w.now = w.md.tun[x].lastSeen.Add(d)
			}
		}
	case "disc":
		w.md.disc = !w.md.disc
		w.reload(tb)
		if w.ifce.disconnectInvalid.Load() != w.md.disc {
			c.Broken("disconnect_invalid reload did not take effect")
		}
	case "drop":
		w.md.drop = !w.md.drop
		w.reload(tb)
		if w.cm.dropInactive.Load() != w.md.drop {
			c.Broken("drop_inactive reload did not take effect")
		}
	case "ca":
		w.md.ca = ev.V
		old := w.pki.GetCAPool()
		w.reload(tb)
		if w.pki.GetCAPool() == old {
			c.Broken("CA reload %s was refused", ev.V)
		}
	case "local":
		w.md.local = ev.V
		old := w.pki.getCertState()
		w.reload(tb)
		if w.pki.getCertState() == old {
			c.Broken("local certificate reload %s was refused", ev.V)
		}
	case "hsfail":
		// the pending (re-)handshake to the peer is given up: the peer answers none of the retries, the real retry handler
		// runs (as the handshake timer would run it) until the manager deletes the pending handshake
		if w.hsm.QueryVpnAddr(w.peer) == nil {
			c.Broken("hsfail without a pending handshake")
			return
		}
		for i := int64(0); i <= w.hsm.config.retries+1 && w.hsm.QueryVpnAddr(w.peer) != nil; i++ {
			w.hsm.handleOutbound(w.peer, false)
			w.drain()
		}
		w.conn.take()
		if w.hsm.QueryVpnAddr(w.peer) != nil {
			c.Broken("pending handshake survives %d unanswered retries", w.hsm.config.retries+2)
			return
		}
		if w.md.gaveUp < 2 {
			w.md.gaveUp++
		}
		c.Add("rehandshakes_given_up", 1)
	case "ctr":
		// reaching 2^34 sends legitimately is out of reach: the private counter is set on a legitimately built tunnel
		if ev.V == "rekey" {
			w.tun[ev.X].ConnectionState.messageCounter.Store(RehandshakeAfterMessages)
			w.md.tun[ev.X].ctr = 1
		} else {
			w.tun[ev.X].ConnectionState.messageCounter.Store(RejectAfterMessages)
			w.md.tun[ev.X].ctr = 2
		}
	case "check":
		if decide != nil {
			decide(ev.X)
			return
		}
		w.check(c, ev.X, hist, judge)
	default:
		tb.Fatalf("c30: unknown event %v", ev)
	}
}

func (w *c30World) check(c *mc.Check, x int, hist func() []string, judge bool) (o c30Obs) {
	h := w.tun[x]
	o.presentBefore, o.primaryBefore = w.present(x), w.primary(x)
	o.hsBefore = w.hsm.QueryVpnAddr(w.peer) != nil
	o.gaveUpBefore = w.md.gaveUp
	w.conn.take()
	exp := w.expect(x, o.primaryBefore)
	w.cm.doTrafficCheck(h.localIndexId, []byte(""), w.nb, w.out, w.now)
	w.drain()
	for _, p := range w.conn.take() {
		var hd header.H
		if len(p.Data) < header.Len || hd.Parse(p.Data) != nil || hd.RemoteIndex != h.remoteIndexId {
			continue
		}
		if hd.Type == header.CloseTunnel {
			o.closeSent = true
		}
		if hd.Type == header.Test && hd.Subtype == header.TestRequest {
			o.testSent = true
		}
	}
	o.presentAfter = w.present(x)
	o.hsAfter = w.hsm.QueryVpnAddr(w.peer) != nil
	t := &w.md.tun[x]
	if !o.presentBefore {
		c.Add("checks_of_vanished_tunnel", 1)
		if o.presentAfter || o.closeSent || o.testSent {
			c.Violation("check of a vanished tunnel has effects", m{"history": hist(), "obs": fmt.Sprintf("%+v", o)})
		}
		return o
	}
	role := "non-primary"
	if o.primaryBefore {
		role = "primary"
	}
	if judge {
		c30Judge(c, role, exp, o, hist)
	}
	// model update (flags are consumed by the check)
	if t.in || t.out {
		t.lastSeen, t.seenValid = w.now, true
	}
	if t.in {
		t.probe = false
	}
	if o.testSent {
		t.probe = true
	}
	t.in, t.out = false, false
	if o.testSent {
		// the probe itself is outbound traffic on this tunnel
		t.out, t.lastTraffic = true, w.now
	}
	return o
}

func c30Judge(c *mc.Check, role string, e c30Expect, o c30Obs, hist func() []string) {
	det := func() any {
		return m{"history": hist(), "role": role, "expect": fmt.Sprintf("%+v", e), "observed": fmt.Sprintf("%+v", o)}
	}
	removed := !o.presentAfter
	switch {
	case e.certClose:
		c.Add("row_cert_close", 1)
		if e.blocklisted {
			c.Add("row_blocklisted", 1)
		} else {
			c.Add("row_invalid_disconnect", 1)
		}
		if !removed {
			if e.blocklisted {
				c.Violation("tunnel with a blocklisted peer certificate survives the check ("+role+")", det())
			} else {
				c.Violation("tunnel with an invalid peer certificate survives the check although disconnect_invalid is on ("+role+")", det())
			}
		} else if !e.exhausted && !o.closeSent {
			c.Violation("certificate teardown does not notify the peer (no CloseTunnel written) ("+role+")", det())
		}
		return
	case e.exhausted:
		c.Add("row_exhausted", 1)
		if !removed {
			c.Violation("tunnel with an exhausted message counter survives the check ("+role+")", det())
		}
		return
	}
	if e.invalid {
		c.Add("row_invalid_kept_open_allowed", 1)
	}
	if e.alive {
		c.Add("row_alive", 1)
		if removed {
			c.Violation("tunnel that received traffic since the last check is removed ("+role+")", det())
		}
	}
	if e.deadProbe {
		c.Add("row_dead_probe", 1)
		if !removed {
			c.Violation("probed tunnel without inbound traffic survives the check ("+role+")", det())
		}
	}
	if e.idleMust {
		c.Add("row_idle_must", 1)
		if !removed {
			c.Violation("idle primary tunnel past the inactivity timeout survives the check with drop_inactive on", det())
		}
	}
	if o.closeSent && role == "primary" {
		// closed (peer notified) with no certificate/counter reason: only inactivity can justify it
		c.Add("row_idle_close_observed", 1)
		if !e.idleMay {
			c.Violation("primary tunnel closed for inactivity outside the policy: "+e.whyNotIdle(), det())
		}
	}
	if e.rehandshake != "" && o.presentAfter {
		c.Add("row_rehandshake", 1)
		c.Distinct("rehandshake_reasons", e.rehandshake)
		retry := o.gaveUpBefore > 0 && !o.hsBefore
		if retry {
			// an earlier attempt was given up and nothing is pending: the reason still holds, so this check has to start one
			c.Add("row_rehandshake_after_give_up", 1)
			c.Distinct("rehandshake_reasons_after_give_up", e.rehandshake)
		}
		if !o.hsAfter {
			if retry {
				c.Violation("no re-handshake started after an earlier attempt was given up: "+e.rehandshake, det())
			} else {
				c.Violation("no re-handshake started: "+e.rehandshake, det())
			}
		}
	}
}

// ---------------------------------------------------------------------------------------------------------------
// canonical state

func (w *c30World) key() string {
	var sb strings.Builder
	fmt.Fprintf(&sb, "%s|%v%v|%s|%s|hs=%v gaveUp=%d", w.seed.name, w.md.disc, w.md.drop, w.md.ca, w.md.local, w.hsm.QueryVpnAddr(w.peer) != nil, w.md.gaveUp)
	capd := func(d time.Duration) int {
		if d > c30Timeout+c30CheckInterval {
			d = c30Timeout + c30CheckInterval
		}
		return int(d / time.Second)
	}
	for x := 0; x < 2; x++ {
		if !w.present(x) {
			sb.WriteString("|gone")
			continue
		}
		h, t := w.tun[x], &w.md.tun[x]
		rem := t.peer.notAfter.Sub(w.now)
		remS := "far"
		if rem < time.Hour {
			remS = fmt.Sprint(int(rem / time.Second))
			if rem < 0 {
				remS = "expired"
			}
		}
		seen := -1
		if t.seenValid {
			seen = capd(w.now.Sub(t.lastSeen))
		}
		lu := -1
		if !h.lastUsed.IsZero() {
			lu = capd(w.now.Sub(h.lastUsed))
		}
		ctr := h.ConnectionState.messageCounter.Load()
		cc := 0
		if ctr >= RejectAfterMessages {
			cc = 2
		} else if ctr >= RehandshakeAfterMessages {
			cc = 1
		}
		fmt.Fprintf(&sb, "|prim=%v in=%v out=%v pd=%v lu=%d | m: in=%v out=%v tr=%d seen=%d probe=%v ctr=%d/%d exp=%s",
			w.primary(x), h.in.Load(), h.out.Load(), h.pendingDeletion.Load(), lu,
			t.in, t.out, capd(w.now.Sub(t.lastTraffic)), seen, t.probe, t.ctr, cc, remS)
	}
	return sb.String()
}

// ---------------------------------------------------------------------------------------------------------------

var c30DecisionNames = map[trafficDecision]string{doNothing: "doNothing", deleteTunnel: "deleteTunnel", closeTunnel: "closeTunnel",
	swapPrimary: "swapPrimary", migrateRelays: "migrateRelays", tryRehandshake: "tryRehandshake", sendTestPacket: "sendTestPacket"}

func TestVerifC30(t *testing.T) {
	c := mc.Begin(t, "C30", "model_checking")
	defer c.End()
	c30Material_()
	depth := mc.Pick(c, 4, 6)
	c.Set("bfs_depth", depth)
	c.Set("seed_configurations", len(c30Seeds))
	if c.Thorough() {
		c30SustainK, c30SustainAll = []int{c30KT - 1, c30KT, c30KT + 1}, true
	}
	c30SustainPos = depth - 2
	c.Set("compound_events", fmt.Sprintf("rx×k / tx×k (k consecutive checks, one check interval apart, with only inbound / only outbound traffic; tx: the peer answers test probes) for k in %v on %s, offered in the first %d positions of a history; inactivity timeout = %d check intervals",
		c30SustainK, map[bool]string{false: "the current primary tunnel", true: "both tunnels"}[c30SustainAll], c30SustainPos, c30KT))
	c.Assume("A check is one call of the real doTrafficCheck for one tunnel at a harness-chosen instant; the timer wheel that schedules the calls is not part of the statement (C33 covers it).")
	c.Assume("'Closed' is read as closeTunnel (removed + CloseTunnel written), 'dropped' as removed; when several clauses apply (blocklisted and exhausted) only removal is demanded.")
	c.Assume("Idle time for 'closed only when idle >= timeout' is the true idle time (since the last traffic flag); the converse 'idle primary past the timeout is removed when drop_inactive is on' is asserted with idle measured from the last check that observed traffic (the implementation's own, shorter, measure) — 'at least the timeout' is read as the boundary of the policy.")
	c.Assume("Re-handshake is demanded only on a check of the primary tunnel that showed inbound traffic and is not torn down; the statement does not say at which check an idle tunnel should re-handshake (weaker reading).")
	c.Assume("A re-handshake attempt that the handshake manager gave up (no answer to any retry, the pending handshake is deleted) does not discharge the clause: while the reason persists (counter still past the threshold, tunnel still on the replaced local certificate) the next check of the alive primary tunnel must start a re-handshake again. While an attempt is still pending only 'a pending handshake exists after the check' is demanded.")
	c.Assume("disconnect_invalid off: the statement is silent; nothing is asserted about an invalid, non-blocklisted certificate beyond the traffic clauses.")
	c.Assume("Message counters at 2^34 / the reject ceiling are stored into the private counter of a legitimately installed tunnel; tunnels are installed through HostMap.unlockedAddHostInfo with real cipher states rather than by a Noise handshake.")

	var decMu sync.Mutex
	decisions := map[string]int64{}
	decByRole := map[string]int64{}

	seedByName := map[string]*c30Seed{}
	var root []c30Ev
	for si := range c30Seeds {
		seedByName[c30Seeds[si].name] = &c30Seeds[si]
		root = append(root, c30Ev{K: "seed", V: c30Seeds[si].name})
	}
	run := func(full []c30Ev) (string, []c30Ev) {
		if len(full) == 0 {
			return "root", root // the first event picks the start configuration: all seeds advance level by level together
		}
		seed, hist := seedByName[full[0].V], full[1:]
		labels := func() []string {
			out := []string{"seed=" + seed.name}
			for _, e := range seed.prefix {
				out = append(out, "prefix:"+e.String())
			}
			for _, e := range hist {
				out = append(out, e.String())
			}
			return out
		}
		w := c30Build(t, seed)
		for _, ev := range seed.prefix {
			w.apply(t, c, ev, labels, len(hist) == 0, nil) // judged once, as the history that consists of the prefix alone
		}
		for i, ev := range hist {
			w.apply(t, c, ev, labels, i == len(hist)-1, nil)
		}
		if n := len(hist); n > 0 && (hist[n-1].K == "check" || hist[n-1].K == "rx" || hist[n-1].K == "tx") {
			// twin world: same history, but in place of its final check the real makeTrafficDecision is called directly to
			// observe the decision itself
			w1 := c30Build(t, seed)
			for _, ev := range seed.prefix {
				w1.apply(t, c, ev, labels, false, nil)
			}
			for _, ev := range hist[:n-1] {
				w1.apply(t, c, ev, labels, false, nil)
			}
			w1.apply(t, c, hist[n-1], labels, false, func(x int) {
				if !w1.present(x) {
					return
				}
				prim := w1.primary(x)
				exp := w1.expect(x, prim)
				dec, hi, _ := w1.cm.makeTrafficDecision(w1.tun[x].localIndexId, w1.now)
				w1.drain()
				name := c30DecisionNames[dec]
				role := "non-primary"
				if prim {
					role = "primary"
				}
				decMu.Lock()
				decisions[name]++
				decByRole[role+"/"+name]++
				decMu.Unlock()
				c30JudgeDecision(c, role, exp, dec, hi == w1.tun[x], labels)
			})
		}
		return mc.Hash(w.key()), w.menu(len(hist))
	}
	// quick: fixed depth, no time stop (the box is sized for a few seconds on an idle 16-core machine, and the vacuity
	// guards below need all of it); thorough: deeper, whole levels until the soft budget runs out.
	var stop func() bool
	if c.Thorough() {
		stop = c.OutOfTime
	}
	res := mc.BFSReplay(c, mc.BFSConfig[c30Ev]{
		MaxDepth: depth + 1,
		Run:      run,
		Label:    func(e c30Ev) string { return e.String() },
		Stop:     stop,
	})
	c.Set("bfs", fmt.Sprintf("states=%d transitions=%d depth=%d(+1 for the seed choice) frontier_emptied=%v", res.States, res.Transitions, res.MaxDepth-1, res.Exhaustive))

	var names []string
	for k, v := range decisions {
		names = append(names, fmt.Sprintf("%s=%d", k, v))
	}
	sort.Strings(names)
	c.Set("decisions_observed", names)
	var roles []string
	for k, v := range decByRole {
		roles = append(roles, fmt.Sprintf("%s=%d", k, v))
	}
	sort.Strings(roles)
	c.Set("decisions_by_role", roles)
	c.Set("distinct_outcomes", len(decByRole))

	if c.Violations() == 0 {
		for _, n := range c30DecisionNames {
			c.Require(decisions[n] > 0, "decision %s never reached", n)
		}
		for _, row := range []string{"row_blocklisted", "row_invalid_disconnect", "row_exhausted", "row_alive", "row_dead_probe", "row_idle_must", "row_idle_close_observed", "row_rehandshake", "row_invalid_kept_open_allowed"} {
			c.Require(c.Counter(row).Load() > 0, "decision-table %s never applied", row)
		}
		c.Require(c.DistinctCount("rehandshake_reasons") == 3, "re-handshake reasons reached: %d of 3", c.DistinctCount("rehandshake_reasons"))
		c.Require(c.Counter("rehandshakes_given_up").Load() > 0, "no pending re-handshake was ever given up")
		c.Require(c.Counter("row_rehandshake_after_give_up").Load() > 0, "no check demanded a re-handshake behind a given-up attempt")
		c.Require(c.DistinctCount("rehandshake_reasons_after_give_up") >= 2, "re-handshake reasons reached behind a given-up attempt: %d of at least 2 (counter, certificate)", c.DistinctCount("rehandshake_reasons_after_give_up"))
		c.Require(len(decByRole) >= 9, "only %d (role, decision) outcomes", len(decByRole))
	}
}

// c30JudgeDecision compares the value returned by makeTrafficDecision with the table row.
func c30JudgeDecision(c *mc.Check, role string, e c30Expect, dec trafficDecision, sameHost bool, hist func() []string) {
	det := func() any {
		return m{"history": hist(), "role": role, "expect": fmt.Sprintf("%+v", e), "decision": c30DecisionNames[dec]}
	}
	removes := dec == closeTunnel || dec == deleteTunnel
	if removes && !sameHost {
		c.Violation("makeTrafficDecision removes a different hostinfo than the one checked", det())
	}
	switch {
	case e.certClose:
		if dec != closeTunnel && !(e.exhausted && dec == deleteTunnel) {
			c.Violation("decision for a blocklisted/invalid peer certificate is not closeTunnel ("+role+")", det())
		}
		return
	case e.exhausted:
		if !removes {
			c.Violation("decision for an exhausted message counter does not remove the tunnel ("+role+")", det())
		}
		return
	}
	if e.alive && removes {
		c.Violation("decision removes a tunnel that received traffic since the last check ("+role+")", det())
	}
	if e.deadProbe && !removes {
		c.Violation("decision keeps a probed tunnel without inbound traffic ("+role+")", det())
	}
	if e.idleMust && !removes {
		c.Violation("decision keeps an idle primary tunnel past the inactivity timeout with drop_inactive on", det())
	}
	if dec == closeTunnel && role == "primary" && !e.idleMay {
		c.Violation("decision closeTunnel for inactivity outside the policy: "+e.whyNotIdle(), det())
	}
	if e.rehandshake != "" && dec != tryRehandshake {
		c.Violation("decision is not tryRehandshake: "+e.rehandshake, det())
	}
}
