//go:build verif

package nebula

import (
	"fmt"
	"testing"
	"time"

	"github.com/slackhq/nebula/zzverif/vtime"
)

func TestVerifC30(t *testing.T) {
	t0 := time.Now()
	for i := 0; i < 50; i++ {
		net := vNewNet(t, 1, vnodeSpec{Name: "a", Networks: "10.0.0.1/24", Udp: "192.0.2.1:4242"})
		net.close()
	}
	fmt.Println("one node:", time.Since(t0)/50)
	t0 = time.Now()
	for i := 0; i < 20; i++ {
		net := vNewNet(t, 1, vnodeSpec{Name: "a", Networks: "10.0.0.1/24", Udp: "192.0.2.1:4242", Overrides: m{"static_host_map": m{"10.0.0.2": []string{"192.0.2.2:4242"}}}}, vnodeSpec{Name: "b", Networks: "10.0.0.2/24", Udp: "192.0.2.2:4242", Overrides: m{"static_host_map": m{"10.0.0.1": []string{"192.0.2.1:4242"}}}})
		a, b := net.node("a"), net.node("b")
		if !net.establish(a, b, "x") {
			t.Fatal("no establish")
		}
		a.hm.StartHandshake(b.vpnIP, nil)
		a.settle()
		net.collect()
		net.flushFIFO(50)
		vtime.Advance(100 * vtime.Millisecond)
		a.hsTick()
		net.collect()
		net.flushFIFO(50)
		if i == 0 {
			fmt.Println(a.tunnels())
			fmt.Println(b.tunnels())
		}
		net.close()
	}
	fmt.Println("two nodes + 2 handshakes:", time.Since(t0)/20)
}
