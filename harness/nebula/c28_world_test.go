//go:build verif

package nebula

import (
	"errors"
	"fmt"
	"log/slog"
	"net/netip"
	"os"
	"slices"
	"sort"
	"strconv"
	"strings"
	"sync"
	"time"

	"github.com/slackhq/nebula/udp"
	"github.com/slackhq/nebula/zzverif/mc"
	"github.com/slackhq/nebula/zzverif/vrand"
)

// Shared world of the C28 / C29 history (E2) checks: one REAL HostMap + one REAL HandshakeManager (pending map) per
// replay, driven through the real entry points
//
//	StartHandshake, allocateIndex, Complete, handleOutbound (timeout branch), generateIndex + CheckAndComplete
//	(what beginHandshake does), HostMap.DeleteHostInfo, HostMap.MakePrimary, AddRelay, HandshakeManager.DeleteHostInfo
//
// The only thing replaced is the randomness behind generateIndex: handshake_manager.go imports vrand instead of
// crypto/rand (import rewriting), and the first value the generator serves is an explorer choice; after it the
// generator counts upwards modulo the size of the index space (so the code's own retry loops terminate exactly when a
// free value exists). Nothing else is mocked: no goroutine is started, no clock is read by the oracles.
//
// Hostinfos are named by creation order (h0, h1, ...), never by pointer. The canonical state key is the sorted
// multiset of per-hostinfo signatures (attributes + every raw map entry that points at the hostinfo), i.e. states that
// differ only by a renaming of hostinfos are merged; every operation of the menu is indifferent to names, so merged
// states have equal futures.

var (
	c28wAddrA  = netip.MustParseAddr("10.28.0.1")
	c28wAddrB  = netip.MustParseAddr("10.28.0.2")
	c28wAddrC  = netip.MustParseAddr("10.28.0.3")
	c28wPeerT1 = netip.MustParseAddr("10.28.0.101")
	c28wPeerT2 = netip.MustParseAddr("10.28.0.102")
)

// c28wSet is the address set of a peer certificate plus the remote index that peer picks (outside our control).
type c28wSet struct {
	Name   string
	Addrs  []netip.Addr
	Remote uint32
}

var (
	c28wSetA  = c28wSet{"{a}", []netip.Addr{c28wAddrA}, 7}
	c28wSetAB = c28wSet{"{a,b}", []netip.Addr{c28wAddrA, c28wAddrB}, 8}
	c28wSetBC = c28wSet{"{b,c}", []netip.Addr{c28wAddrB, c28wAddrC}, 7}
	c28wSetBA = c28wSet{"{b,a}", []netip.Addr{c28wAddrB, c28wAddrA}, 8}
)

type c28wCfg struct {
	Name      string
	Space     uint32 // the index generator serves values 0..Space-1 (generateIndex itself must skip 0)
	FreeIdx   bool   // the generator starts at the lowest unused value: no collisions, no explorer choice
	Cands     []int  // explorer choices for the first served value (ignored when FreeIdx)
	MaxHI     int    // tracked (not timed-out, not rejected) hostinfos per history
	MaxRelays int    // successful AddRelay calls per history
	Sets      []c28wSet
	Starts    []netip.Addr // StartHandshake targets
	Targets   []netip.Addr // relay peer addresses
	Variants  bool         // also offer a stale and a duplicate responder handshake
	StartDup  bool         // also offer StartHandshake for an address that is already pending
	RecvErr   bool         // also offer the recv_error composite (main delete + pending delete of a live tunnel)
	Seed      []c28wEv     // prefix executed (and fully checked once) before the search starts
	Depth     int
	Share     float64 // soft time budget of this scenario as a fraction of the check's budget (0 = whatever is left)
}

// c28wEv is one event of the menu.
type c28wEv struct {
	Op  byte // S start, I allocateIndex, C Complete, T timeout, R responder CheckAndComplete, D delete, P MakePrimary, Y AddRelay, X recv_error
	H   int  // target hostinfo (creation order), -1 if none
	Set int  // address set (C, R), start address (S) or relay target (Y)
	V   int  // first value served by the index generator
	K   int  // R: 0 fresh handshake, 1 stale (older handshake time), 2 duplicate of the primary's handshake packet
}

// c28wHI is the harness's record of one hostinfo it created.
type c28wHI struct {
	Ord     int
	hi      *HostInfo
	hh      *HandshakeHostInfo
	Kind    byte // 'i' created by StartHandshake, 'r' created by the responder path
	WasMain bool // was added to the main hostmap at some point
	Live    bool // registered in HostMap.Indexes under its own id after the last op
	Removed bool // DeleteHostInfo was called on it, or it was evicted by an add (was live, is not any more)
	Dead    bool // pending hostinfo that timed out (never reached the main hostmap); no longer part of the state
	Deletes int
}

func (t *c28wHI) name() string { return fmt.Sprintf("h%d", t.Ord) }

// c28wSnap is a shallow copy of every raw map the properties talk about.
type c28wSnap struct {
	hosts   map[netip.Addr]*HostInfo
	more    map[netip.Addr][]*HostInfo
	idx     map[uint32]*HostInfo
	ridx    map[uint32]*HostInfo
	relays  map[uint32]*HostInfo
	pendIdx map[uint32]*HandshakeHostInfo
	pendIps map[netip.Addr]*HandshakeHostInfo
}

// list is the naive reading of the two address maps: the stored list, or the single primary.
func (s *c28wSnap) list(a netip.Addr) []*HostInfo {
	if l, ok := s.more[a]; ok {
		return l
	}
	if h, ok := s.hosts[a]; ok {
		return []*HostInfo{h}
	}
	return nil
}

func (s *c28wSnap) live(h *HostInfo) bool { return h != nil && s.idx[h.localIndexId] == h }

// mainRefs lists every main-hostmap entry that points at h.
func (s *c28wSnap) mainRefs(h *HostInfo) []string {
	var out []string
	for a, x := range s.hosts {
		if x == h {
			out = append(out, "Hosts["+c28wAddrName(a)+"]")
		}
	}
	for a, l := range s.more {
		for i, x := range l {
			if x == h {
				out = append(out, fmt.Sprintf("moreHosts[%s][%d]", c28wAddrName(a), i))
			}
		}
	}
	for k, x := range s.idx {
		if x == h {
			out = append(out, fmt.Sprintf("Indexes[%d]", k))
		}
	}
	for k, x := range s.ridx {
		if x == h {
			out = append(out, fmt.Sprintf("RemoteIndexes[%d]", k))
		}
	}
	for k, x := range s.relays {
		if x == h {
			out = append(out, fmt.Sprintf("Relays[%d]", k))
		}
	}
	sort.Strings(out)
	return out
}

// pendRefs lists every pending-map entry that points at h.
func (s *c28wSnap) pendRefs(h *HostInfo) []string {
	var out []string
	for a, x := range s.pendIps {
		if x != nil && x.hostinfo == h {
			out = append(out, "pending.vpnIps["+c28wAddrName(a)+"]")
		}
	}
	for k, x := range s.pendIdx {
		if x != nil && x.hostinfo == h {
			out = append(out, fmt.Sprintf("pending.indexes[%d]", k))
		}
	}
	sort.Strings(out)
	return out
}

func c28wAddrName(a netip.Addr) string {
	switch a {
	case c28wAddrA:
		return "a"
	case c28wAddrB:
		return "b"
	case c28wAddrC:
		return "c"
	case c28wPeerT1:
		return "t1"
	case c28wPeerT2:
		return "t2"
	}
	return a.String()
}

func c28wAddrNames(as []netip.Addr) string {
	s := make([]string, len(as))
	for i, a := range as {
		s[i] = c28wAddrName(a)
	}
	return "{" + strings.Join(s, ",") + "}"
}

// c28wOut describes what one executed event did.
type c28wOut struct {
	Ev        c28wEv
	OpClass   string // stable description of the operation and of its target's status (first part of a signature)
	Class     string // outcome class (vacuity / distinct outcomes)
	Pre, Post *c28wSnap
	Target    *c28wHI   // I C T D P Y X
	TargetWas bool      // target was live before the op
	Added     *c28wHI   // S: new pending hostinfo; R/C: hostinfo handed to the add
	AddOK     bool      // the add succeeded
	Err       error     // allocateIndex / CheckAndComplete / AddRelay
	RetBool   bool      // DeleteHostInfo
	RetIdx    uint32    // allocateIndex / generateIndex / AddRelay
	Vanished  []*c28wHI // hostinfos that were live before and are not live after (other than a D/X target)
	Reads     int       // values the generator served
	ZeroSeen  bool      // the generator served 0
}

type c28wStats struct {
	mu sync.Mutex
	n  map[string]int64
}

func (s *c28wStats) merge(local map[string]int64) {
	s.mu.Lock()
	if s.n == nil {
		s.n = map[string]int64{}
	}
	for k, v := range local {
		s.n[k] += v
	}
	s.mu.Unlock()
}

func (s *c28wStats) get(k string) int64 {
	s.mu.Lock()
	defer s.mu.Unlock()
	return s.n[k]
}

func (s *c28wStats) snapshot() map[string]int64 {
	s.mu.Lock()
	defer s.mu.Unlock()
	out := make(map[string]int64, len(s.n))
	for k, v := range s.n {
		out[k] = v
	}
	return out
}

type c28wWorld struct {
	cfg   *c28wCfg
	l     *slog.Logger
	hm    *HostMap
	hsm   *HandshakeManager
	f     *Interface
	his   []*c28wHI
	byPtr map[*HostInfo]*c28wHI
	seq   int // unique handshake packets / increasing handshake times
	nRel  int // successful AddRelay calls
	trace []c28wEv
	local map[string]int64
	// scripted generator
	rndNext  uint32
	rndReads int
	rndZero  bool
}

func c28wNew(cfg *c28wCfg) *c28wWorld {
	w := &c28wWorld{cfg: cfg, l: slog.New(slog.DiscardHandler), byPtr: map[*HostInfo]*c28wHI{}, local: map[string]int64{}}
	w.hm = newHostMap(w.l)
	pr := []netip.Prefix{}
	w.hm.preferredRanges.Store(&pr)
	lh := &LightHouse{l: w.l, addrMap: map[netip.Addr]*RemoteList{}, queryChan: make(chan netip.Addr, 4), amLighthouse: true}
	lhs := []netip.Addr{}
	static := map[netip.Addr]struct{}{}
	lh.lighthouses.Store(&lhs)
	lh.staticList.Store(&static)
	// the real constructor with a small retry budget and trigger buffer (keeps the per-replay timer wheel / channel small;
	// neither is consulted by the operations below except for "counter >= retries" in the timeout branch)
	w.hsm = NewHandshakeManager(w.l, w.hm, lh, &udp.NoopConn{}, HandshakeConfig{tryInterval: DefaultHandshakeTryInterval, retries: 2, triggerBuffer: 1})
	w.f = &Interface{handshakeManager: w.hsm, hostMap: w.hm, lightHouse: lh, pki: &PKI{}, l: w.l}
	w.hsm.f = w.f
	vrand.SetSource(vrand.Uint32s(func() uint32 {
		v := w.rndNext
		w.rndNext = (w.rndNext + 1) % w.cfg.Space
		w.rndReads++
		if v == 0 {
			w.rndZero = true
		}
		return v
	}))
	return w
}

func (w *c28wWorld) close() { vrand.ClearSource() }

// arm prepares the generator for one operation. relayNS selects which namespace "lowest unused" refers to.
func (w *c28wWorld) arm(v int, relayNS bool) {
	w.rndReads, w.rndZero = 0, false
	if !w.cfg.FreeIdx {
		w.rndNext = uint32(v) % w.cfg.Space
		return
	}
	for x := uint32(1); x < w.cfg.Space; x++ {
		used := false
		if relayNS {
			_, used = w.hm.Relays[x]
		} else {
			_, a := w.hm.Indexes[x]
			_, b := w.hsm.indexes[x]
			used = a || b
		}
		if !used {
			w.rndNext = x
			return
		}
	}
	w.rndNext = 1
}

func (w *c28wWorld) snap() *c28wSnap {
	s := &c28wSnap{
		hosts: make(map[netip.Addr]*HostInfo, len(w.hm.Hosts)), more: make(map[netip.Addr][]*HostInfo, len(w.hm.moreHosts)),
		idx: make(map[uint32]*HostInfo, len(w.hm.Indexes)), ridx: make(map[uint32]*HostInfo, len(w.hm.RemoteIndexes)),
		relays:  make(map[uint32]*HostInfo, len(w.hm.Relays)),
		pendIdx: make(map[uint32]*HandshakeHostInfo, len(w.hsm.indexes)), pendIps: make(map[netip.Addr]*HandshakeHostInfo, len(w.hsm.vpnIps)),
	}
	for k, v := range w.hm.Hosts {
		s.hosts[k] = v
	}
	for k, v := range w.hm.moreHosts {
		s.more[k] = slices.Clone(v)
	}
	for k, v := range w.hm.Indexes {
		s.idx[k] = v
	}
	for k, v := range w.hm.RemoteIndexes {
		s.ridx[k] = v
	}
	for k, v := range w.hm.Relays {
		s.relays[k] = v
	}
	for k, v := range w.hsm.indexes {
		s.pendIdx[k] = v
	}
	for k, v := range w.hsm.vpnIps {
		s.pendIps[k] = v
	}
	return s
}

func (w *c28wWorld) track(hi *HostInfo, kind byte) *c28wHI {
	t := &c28wHI{Ord: len(w.his), hi: hi, Kind: kind}
	w.his = append(w.his, t)
	w.byPtr[hi] = t
	return t
}

func (w *c28wWorld) nameOf(h *HostInfo) string {
	if h == nil {
		return "nil"
	}
	if t := w.byPtr[h]; t != nil {
		return t.name()
	}
	return "untracked"
}

// tracked counts the hostinfos that are part of the state.
func (w *c28wWorld) tracked() int {
	n := 0
	for _, t := range w.his {
		if !t.Dead {
			n++
		}
	}
	return n
}

func (w *c28wWorld) isPendingTracked(t *c28wHI) bool {
	if t.Kind != 'i' || t.WasMain || t.Dead {
		return false
	}
	for _, hh := range w.hsm.vpnIps {
		if hh.hostinfo == t.hi {
			return true
		}
	}
	return false
}

func c28wContains(as []netip.Addr, a netip.Addr) bool { return slices.Contains(as, a) }

func (w *c28wWorld) menu() []c28wEv {
	cfg := w.cfg
	var m []c28wEv
	cands := cfg.Cands
	if cfg.FreeIdx {
		cands = []int{0}
	}
	room := w.tracked() < cfg.MaxHI
	for i, a := range cfg.Starts {
		_, pending := w.hsm.vpnIps[a]
		if (!pending && room) || (pending && cfg.StartDup) {
			m = append(m, c28wEv{Op: 'S', H: -1, Set: i})
		}
	}
	if room {
		for si := range cfg.Sets {
			for _, v := range cands {
				m = append(m, c28wEv{Op: 'R', H: -1, Set: si, V: v})
			}
			if cfg.Variants {
				if _, ok := w.hm.Hosts[cfg.Sets[si].Addrs[0]]; ok {
					m = append(m, c28wEv{Op: 'R', H: -1, Set: si, V: cands[0], K: 1}, c28wEv{Op: 'R', H: -1, Set: si, V: cands[0], K: 2})
				}
			}
		}
	}
	relayRoom := w.nRel < cfg.MaxRelays || len(w.hm.Relays) >= int(cfg.Space)-1
	for _, t := range w.his {
		if w.isPendingTracked(t) {
			if t.hi.localIndexId == 0 {
				for _, v := range cands {
					m = append(m, c28wEv{Op: 'I', H: t.Ord, V: v})
				}
			} else {
				for si, s := range cfg.Sets {
					if c28wContains(s.Addrs, t.hi.vpnAddrs[0]) {
						m = append(m, c28wEv{Op: 'C', H: t.Ord, Set: si})
					}
				}
			}
			m = append(m, c28wEv{Op: 'T', H: t.Ord})
		}
		if t.WasMain {
			m = append(m, c28wEv{Op: 'D', H: t.Ord}, c28wEv{Op: 'P', H: t.Ord})
			if relayRoom {
				for ti := range cfg.Targets {
					for vi, v := range cands {
						if vi > 0 && !t.Live {
							break // a tunnel that is not live is refused whatever the generator serves: one attempt is enough
						}
						m = append(m, c28wEv{Op: 'Y', H: t.Ord, Set: ti, V: v})
					}
				}
			}
			if cfg.RecvErr && t.Live {
				m = append(m, c28wEv{Op: 'X', H: t.Ord})
			}
		}
	}
	return m
}

func (w *c28wWorld) label(e c28wEv) string {
	gen := func() string {
		if w.cfg.FreeIdx {
			return "gen=lowest-free"
		}
		return fmt.Sprintf("gen=%d..", e.V)
	}
	switch e.Op {
	case 'S':
		return fmt.Sprintf("StartHandshake(%s)", c28wAddrName(w.cfg.Starts[e.Set]))
	case 'I':
		return fmt.Sprintf("allocateIndex(h%d,%s)", e.H, gen())
	case 'C':
		return fmt.Sprintf("Complete(h%d as %s)", e.H, w.cfg.Sets[e.Set].Name)
	case 'T':
		return fmt.Sprintf("timeout(h%d)", e.H)
	case 'R':
		k := [...]string{"fresh", "stale", "duplicate"}[e.K]
		return fmt.Sprintf("CheckAndComplete(new %s %s,%s)", w.cfg.Sets[e.Set].Name, k, gen())
	case 'D':
		return fmt.Sprintf("DeleteHostInfo(h%d)", e.H)
	case 'P':
		return fmt.Sprintf("MakePrimary(h%d)", e.H)
	case 'Y':
		return fmt.Sprintf("AddRelay(h%d,%s,%s)", e.H, c28wAddrName(w.cfg.Targets[e.Set]), gen())
	case 'X':
		return fmt.Sprintf("recvError(h%d)", e.H)
	}
	return "?"
}

func (w *c28wWorld) count(k string) { w.local[k]++ }

func (w *c28wWorld) status(t *c28wHI) string {
	switch {
	case t.Live:
		return "a live tunnel"
	case t.Removed:
		return "an already removed tunnel"
	}
	return "a tunnel that is not live"
}

// step executes one event on the real objects. With check=true the raw maps are snapshotted before and after.
func (w *c28wWorld) step(e c28wEv, check bool) *c28wOut {
	o := &c28wOut{Ev: e}
	w.trace = append(w.trace, e)
	if e.H >= 0 {
		o.Target = w.his[e.H]
		o.TargetWas = w.hm.Indexes[o.Target.hi.localIndexId] == o.Target.hi
	}
	if check {
		o.Pre = w.snap()
	}
	switch e.Op {
	case 'S':
		addr := w.cfg.Starts[e.Set]
		before := w.hsm.vpnIps[addr]
		hi := w.hsm.StartHandshake(addr, nil)
		o.OpClass = "StartHandshake"
		if before != nil {
			o.Class = "StartHandshake: already pending, same hostinfo returned"
			if hi != before.hostinfo {
				o.Class = "StartHandshake: already pending, DIFFERENT hostinfo returned"
			}
			break
		}
		t := w.track(hi, 'i')
		t.hh = w.hsm.vpnIps[addr]
		o.Added = t
		o.Class = "StartHandshake: new pending tunnel"

	case 'I':
		t := o.Target
		w.arm(e.V, false)
		o.RetIdx, o.Err = w.hsm.allocateIndex(t.hh)
		o.Reads, o.ZeroSeen = w.rndReads, w.rndZero
		o.OpClass = "allocateIndex"
		if o.Err == nil { // buildStage0Packet stores the initiator's first message right after the index was allocated
			w.seq++
			t.hi.HandshakePacket[handshakePacketStage0] = []byte{'c', '2', '8', 'i', byte(w.seq >> 8), byte(w.seq)}
		}
		switch {
		case o.Err != nil:
			o.Class = "allocateIndex: no free index after 32 tries"
		case o.Reads > 1 && !(o.Reads == 2 && o.ZeroSeen):
			o.Class = "allocateIndex: succeeded after skipping a value that is in use"
		default:
			o.Class = "allocateIndex: first value free"
		}

	case 'C':
		t := o.Target
		set := w.cfg.Sets[e.Set]
		w.seq++
		hi := t.hi
		hi.ConnectionState = &ConnectionState{initiator: true}
		hi.remoteIndexId = set.Remote
		c28SetInt(&hi.lastHandshakeTime, 1000+w.seq) // (generic: the field's integer type is the implementation's business)
		hi.vpnAddrs = slices.Clone(set.Addrs)
		w.hsm.Complete(hi, w.f)
		t.WasMain = true
		o.Added, o.AddOK = t, true
		o.OpClass = "Complete (initiator add)"
		o.Class = "Complete: added"

	case 'T':
		t := o.Target
		t.hh.counter = w.hsm.config.retries
		w.hsm.handleOutbound(t.hi.vpnAddrs[0], false)
		t.Dead = true
		o.OpClass = "handshake timeout"
		o.Class = "timeout: pending tunnel without index"
		if t.hi.localIndexId != 0 {
			o.Class = "timeout: pending tunnel with index"
		}

	case 'R':
		set := w.cfg.Sets[e.Set]
		w.arm(e.V, false)
		idx, err := generateIndex(w.l) // the index allocator beginHandshake hands to the responder machine
		o.RetIdx, o.Reads, o.ZeroSeen = idx, w.rndReads, w.rndZero
		o.OpClass = "CheckAndComplete (responder add)"
		if err != nil {
			o.Err = err
			o.Class = "generateIndex failed"
			break
		}
		w.seq++
		hi := &HostInfo{
			ConnectionState:   &ConnectionState{initiator: false},
			localIndexId:      idx,
			remoteIndexId:     set.Remote,
			vpnAddrs:          slices.Clone(set.Addrs),
			HandshakePacket:   map[uint8][]byte{handshakePacketStage0: {'c', '2', '8', byte(w.seq >> 8), byte(w.seq)}},
			relayState:        RelayState{relayForByAddr: map[netip.Addr]*Relay{}, relayForByIdx: map[uint32]*Relay{}},
		}
		c28SetInt(&hi.lastHandshakeTime, 1000+w.seq)
		switch e.K {
		case 1:
			hi.lastHandshakeTime = 0
		case 2:
			if p := w.hm.Hosts[set.Addrs[0]]; p != nil {
				hi.HandshakePacket[handshakePacketStage0] = slices.Clone(p.HandshakePacket[handshakePacketStage0])
			}
		}
		_, inMain := w.hm.Indexes[idx]
		_, inPend := w.hsm.indexes[idx]
		full := 0
		for _, a := range set.Addrs {
			if len(w.hm.moreHosts[a]) >= MaxHostInfosPerVpnIp {
				full++
			}
		}
		t := w.track(hi, 'r')
		o.Added = t
		_, o.Err = w.hsm.CheckAndComplete(hi, handshakePacketStage0, w.f)
		switch {
		case o.Err == nil:
			t.WasMain, o.AddOK = true, true
			o.Class = "CheckAndComplete: added"
			if full > 0 {
				o.OpClass = "CheckAndComplete (responder add exceeding the per-address cap)"
				o.Class = fmt.Sprintf("CheckAndComplete: added, %d address list(s) were full", full)
			}
		case errors.Is(o.Err, ErrLocalIndexCollision) && inMain:
			o.Class = "CheckAndComplete: ErrLocalIndexCollision with an established tunnel"
		case errors.Is(o.Err, ErrLocalIndexCollision) && inPend:
			o.Class = "CheckAndComplete: ErrLocalIndexCollision with a pending tunnel"
		case errors.Is(o.Err, ErrLocalIndexCollision):
			o.Class = "CheckAndComplete: ErrLocalIndexCollision without a holder"
		case errors.Is(o.Err, ErrAlreadySeen):
			o.Class = "CheckAndComplete: ErrAlreadySeen"
		case errors.Is(o.Err, ErrExistingHostInfo):
			o.Class = "CheckAndComplete: ErrExistingHostInfo"
		default:
			o.Class = "CheckAndComplete: other error " + o.Err.Error()
		}
		if o.Err != nil {
			o.OpClass = "CheckAndComplete (rejected responder add)"
		}

	case 'D':
		t := o.Target
		o.OpClass = "DeleteHostInfo of " + w.status(t)
		reissued := !o.TargetWas && w.hm.Indexes[t.hi.localIndexId] != nil
		relayReissued := false
		if !o.TargetWas {
			for i := range t.hi.relayState.relayForByIdx {
				if x, ok := w.hm.Relays[i]; ok && x != t.hi {
					relayReissued = true
				}
			}
		}
		o.RetBool = w.hm.DeleteHostInfo(t.hi)
		t.Deletes++
		t.Removed = true
		switch {
		case o.TargetWas:
			o.Class = fmt.Sprintf("DeleteHostInfo: live tunnel, final=%v", o.RetBool)
		case reissued:
			o.Class = "DeleteHostInfo: already removed tunnel whose local index has a new owner"
		case relayReissued:
			o.Class = "DeleteHostInfo: already removed tunnel whose relay index has a new owner"
		default:
			o.Class = fmt.Sprintf("DeleteHostInfo: already removed tunnel, final=%v", o.RetBool)
		}

	case 'X':
		t := o.Target
		o.OpClass = "recv_error teardown of " + w.status(t)
		o.RetBool = w.hm.DeleteHostInfo(t.hi) // closeTunnel
		w.hsm.DeleteHostInfo(t.hi)            // "also delete it from pending hostmap to allow for fast reconnect"
		t.Deletes++
		t.Removed = true
		o.Class = "recv_error: main delete + pending delete"

	case 'P':
		t := o.Target
		o.OpClass = "MakePrimary of " + w.status(t)
		wasPrimary := true
		for _, a := range t.hi.vpnAddrs {
			if w.hm.Hosts[a] != t.hi {
				wasPrimary = false
			}
		}
		w.hm.MakePrimary(t.hi)
		switch {
		case !o.TargetWas:
			o.Class = "MakePrimary: removed tunnel"
		case wasPrimary:
			o.Class = "MakePrimary: already primary everywhere"
		default:
			o.Class = "MakePrimary: live tunnel promoted"
		}

	case 'Y':
		t := o.Target
		o.OpClass = "AddRelay on " + w.status(t)
		w.arm(e.V, true)
		o.RetIdx, o.Err = AddRelay(w.l, t.hi, w.hm, w.cfg.Targets[e.Set], nil, TerminalType, Requested)
		o.Reads, o.ZeroSeen = w.rndReads, w.rndZero
		switch {
		case o.Err == nil:
			w.nRel++
			o.Class = "AddRelay: first value free"
			if o.Reads > 1 && !(o.Reads == 2 && o.ZeroSeen) {
				o.Class = "AddRelay: succeeded after skipping a value that is in use"
			}
		case !o.TargetWas:
			o.Class = "AddRelay: refused, tunnel is not in the hostmap"
		default:
			o.Class = "AddRelay: no free index after 32 tries"
		}
	}
	if o.ZeroSeen {
		w.count("generator served 0")
	}

	// bookkeeping by observation: who is registered under its own id now
	for _, t := range w.his {
		if !t.WasMain {
			continue
		}
		now := w.hm.Indexes[t.hi.localIndexId] == t.hi
		if t.Live && !now && (t != o.Target || (e.Op != 'D' && e.Op != 'X')) {
			o.Vanished = append(o.Vanished, t)
			if o.AddOK { // eviction by the per-address cap is the only way an add removes a tunnel
				t.Removed = true
			}
		}
		t.Live = now
	}
	if e.Op == 'R' && o.Added != nil && !o.AddOK {
		// a rejected candidate is forgotten unless the code left a reference to it behind
		t := o.Added
		refs := 0
		for _, m := range []map[uint32]*HostInfo{w.hm.Indexes, w.hm.RemoteIndexes, w.hm.Relays} {
			for _, x := range m {
				if x == t.hi {
					refs++
				}
			}
		}
		for _, x := range w.hm.Hosts {
			if x == t.hi {
				refs++
			}
		}
		for _, l := range w.hm.moreHosts {
			for _, x := range l {
				if x == t.hi {
					refs++
				}
			}
		}
		if refs == 0 {
			w.his = w.his[:len(w.his)-1]
			delete(w.byPtr, t.hi)
		}
	}
	if len(o.Vanished) > 0 && (e.Op == 'R' || e.Op == 'C') {
		o.Class += fmt.Sprintf(" (evicted %d)", len(o.Vanished))
		for _, v := range o.Vanished {
			for _, a := range v.hi.vpnAddrs {
				if !c28wContains(o.Added.hi.vpnAddrs, a) {
					w.count("evicted tunnel also held an address the new tunnel does not own")
					break
				}
			}
			if len(v.hi.relayState.relayForByIdx) > 0 {
				w.count("evicted tunnel owned relay indexes")
			}
		}
	}
	w.count(o.Class)
	if check {
		o.Post = w.snap()
	}
	return o
}

// key is the canonical form of the state: sorted per-hostinfo signatures (names do not appear).
func (w *c28wWorld) key() string {
	refs := map[*HostInfo][]string{}
	add := func(h *HostInfo, s string) { refs[h] = append(refs[h], s) }
	for a, h := range w.hm.Hosts {
		add(h, "H"+c28wAddrName(a))
	}
	for a, l := range w.hm.moreHosts {
		for i, h := range l {
			add(h, fmt.Sprintf("M%s%d/%d", c28wAddrName(a), i, len(l)))
		}
	}
	for k, h := range w.hm.Indexes {
		add(h, fmt.Sprintf("I%d", k))
	}
	for k, h := range w.hm.RemoteIndexes {
		add(h, fmt.Sprintf("Q%d", k))
	}
	for k, h := range w.hm.Relays {
		add(h, fmt.Sprintf("Y%d", k))
	}
	for a, hh := range w.hsm.vpnIps {
		add(hh.hostinfo, "PV"+c28wAddrName(a))
	}
	for k, hh := range w.hsm.indexes {
		add(hh.hostinfo, fmt.Sprintf("PI%d", k))
	}
	var sigs []string
	for _, t := range w.his {
		if t.Dead {
			continue
		}
		r := refs[t.hi]
		sort.Strings(r)
		var rel []string
		for i, x := range t.hi.relayState.relayForByIdx {
			rel = append(rel, fmt.Sprintf("%d>%s", i, c28wAddrName(x.PeerAddr)))
		}
		for a, x := range t.hi.relayState.relayForByAddr {
			rel = append(rel, fmt.Sprintf("%s>%d", c28wAddrName(a), x.LocalIndex))
		}
		sort.Strings(rel)
		ini := t.hi.ConnectionState != nil && t.hi.ConnectionState.initiator
		sigs = append(sigs, fmt.Sprintf("%c%v%v|%s|L%d|R%d|i%v|%s|%s", t.Kind, t.WasMain, t.Removed, c28wAddrNames(t.hi.vpnAddrs),
			t.hi.localIndexId, t.hi.remoteIndexId, ini, strings.Join(rel, ","), strings.Join(r, ",")))
		delete(refs, t.hi)
	}
	sort.Strings(sigs)
	var foreign []string
	for h, r := range refs {
		if t := w.byPtr[h]; t != nil && t.Dead {
			foreign = append(foreign, "dead:"+strings.Join(r, ","))
		} else {
			foreign = append(foreign, "foreign:"+strings.Join(r, ","))
		}
	}
	sort.Strings(foreign)
	return fmt.Sprintf("%s#rel%d#%s#%s", w.cfg.Name, w.nRel, strings.Join(sigs, ";"), strings.Join(foreign, ";"))
}

// render prints a snapshot with creation-order names (violation details).
func (w *c28wWorld) render(s *c28wSnap) map[string]any {
	if s == nil {
		return nil
	}
	names := func(l []*HostInfo) string {
		o := make([]string, len(l))
		for i, h := range l {
			o[i] = w.nameOf(h)
		}
		return "[" + strings.Join(o, " ") + "]"
	}
	var hosts, more, idx, ridx, rel, pi, pv []string
	for a, h := range s.hosts {
		hosts = append(hosts, c28wAddrName(a)+"->"+w.nameOf(h))
	}
	for a, l := range s.more {
		more = append(more, c28wAddrName(a)+"->"+names(l))
	}
	for k, h := range s.idx {
		idx = append(idx, fmt.Sprintf("%d->%s", k, w.nameOf(h)))
	}
	for k, h := range s.ridx {
		ridx = append(ridx, fmt.Sprintf("%d->%s", k, w.nameOf(h)))
	}
	for k, h := range s.relays {
		rel = append(rel, fmt.Sprintf("%d->%s", k, w.nameOf(h)))
	}
	for k, hh := range s.pendIdx {
		pi = append(pi, fmt.Sprintf("%d->%s", k, w.nameOf(hh.hostinfo)))
	}
	for a, hh := range s.pendIps {
		pv = append(pv, c28wAddrName(a)+"->"+w.nameOf(hh.hostinfo))
	}
	for _, l := range [][]string{hosts, more, idx, ridx, rel, pi, pv} {
		sort.Strings(l)
	}
	return map[string]any{"Hosts": hosts, "moreHosts": more, "Indexes": idx, "RemoteIndexes": ridx, "Relays": rel, "pending.indexes": pi, "pending.vpnIps": pv}
}

func (w *c28wWorld) describeHIs() []string {
	var out []string
	for _, t := range w.his {
		var rel []string
		for i := range t.hi.relayState.relayForByIdx {
			rel = append(rel, fmt.Sprint(i))
		}
		sort.Strings(rel)
		out = append(out, fmt.Sprintf("%s addrs=%s local=%d remote=%d relayIdx=[%s] wasMain=%v live=%v removed=%v timedOut=%v",
			t.name(), c28wAddrNames(t.hi.vpnAddrs), t.hi.localIndexId, t.hi.remoteIndexId, strings.Join(rel, " "), t.WasMain, t.Live, t.Removed, t.Dead))
	}
	return out
}

func (w *c28wWorld) history() []string {
	out := make([]string, len(w.trace))
	for i, e := range w.trace {
		out[i] = w.label(e)
	}
	return out
}

func (w *c28wWorld) detail(o *c28wOut, extra map[string]any) map[string]any {
	d := map[string]any{
		"scenario": w.cfg.Name, "index_space": fmt.Sprintf("1..%d", w.cfg.Space-1), "history": w.history(),
		"hostinfos": w.describeHIs(), "before_last_op": w.render(o.Pre), "after_last_op": w.render(o.Post),
	}
	if o.Err != nil {
		d["returned_error"] = o.Err.Error()
	}
	for k, v := range extra {
		d[k] = v
	}
	return d
}

// c28wBudget mirrors mc.Begin's soft budget (seconds).
func c28wBudget(c *mc.Check) float64 {
	if f, err := strconv.ParseFloat(os.Getenv("VERIF_BUDGET_S"), 64); err == nil && f > 0 {
		return f
	}
	return mc.Pick(c, 45.0, 900.0)
}

var c28wSeenSigs sync.Map

// c28wReport hands a violation to the Check; the (costly) detail is only rendered for the first hit of a signature.
func c28wReport(c *mc.Check, sig string, detail func() map[string]any) {
	if _, dup := c28wSeenSigs.LoadOrStore(c.ID+"\x00"+sig, true); dup {
		c.Violation(sig, nil)
		return
	}
	c.Violation(sig, detail())
}

// c28wChecker evaluates one property on an executed step; it returns true when it reported a violation.
type c28wChecker func(c *mc.Check, w *c28wWorld, o *c28wOut) bool

// c28wExplore runs the seed (checking every step) and then the BFS of one scenario. Violating states are not expanded.
func c28wExplore(c *mc.Check, cfg *c28wCfg, check c28wChecker, stats *c28wStats) mc.BFSResult {
	{
		w := c28wNew(cfg)
		for _, e := range cfg.Seed {
			ok := false
			for _, m := range w.menu() {
				if m == e {
					ok = true
				}
			}
			if !ok {
				w.close()
				c.Broken("scenario %s: seed event %s is not enabled", cfg.Name, w.label(e))
			}
			if check(c, w, w.step(e, true)) {
				// the start state of this scenario is already inconsistent: report it once, do not search on from it
				stats.merge(w.local)
				w.close()
				return mc.BFSResult{}
			}
		}
		stats.merge(w.local)
		w.close()
	}
	started := time.Now()
	run := func(hist []c28wEv) (string, []c28wEv) {
		w := c28wNew(cfg)
		defer w.close()
		for _, e := range cfg.Seed {
			w.step(e, false)
		}
		bad := false
		for i, e := range hist {
			if i == len(hist)-1 {
				clear(w.local) // only the new transition counts: the seed and the prefix were counted when they were new
				bad = check(c, w, w.step(e, true))
			} else {
				w.step(e, false)
			}
		}
		if len(hist) == 0 {
			clear(w.local)
		}
		stats.merge(w.local)
		if bad {
			return "violating:" + w.key(), nil
		}
		return w.key(), w.menu()
	}
	return mc.BFSReplay(c, mc.BFSConfig[c28wEv]{
		MaxDepth: cfg.Depth,
		Run:      run,
		Label: func(e c28wEv) string {
			w := &c28wWorld{cfg: cfg}
			return w.label(e)
		},
		Stop: func() bool {
			return c.OutOfTime() || (cfg.Share > 0 && time.Since(started).Seconds() > cfg.Share*c28wBudget(c))
		},
	})
}

// c28wScenarios is the box shared by C28 and C29.
func c28wScenarios(c *mc.Check) []*c28wCfg {
	th := c.Thorough()
	collide := &c28wCfg{
		Name: "collide(index space 1..3)", Space: 4, Cands: []int{0, 2, 3},
		MaxHI: mc.Pick(c, 3, 4), MaxRelays: mc.Pick(c, 2, 3),
		Sets:   []c28wSet{c28wSetA, c28wSetAB, c28wSetBC},
		Starts: []netip.Addr{c28wAddrA, c28wAddrB}, Targets: []netip.Addr{c28wPeerT1},
		StartDup: th, RecvErr: th, Depth: mc.Pick(c, 5, 6),
	}
	// the rejecting branches of CheckAndComplete that come before the collision test (stale / duplicate handshakes)
	rejects := &c28wCfg{
		Name: "rejects(stale and duplicate handshakes, index space 1..3)", Space: 4, Cands: []int{0, 2},
		MaxHI: 3, MaxRelays: 0,
		Sets:     []c28wSet{c28wSetA, c28wSetAB},
		Starts:   []netip.Addr{c28wAddrA},
		Variants: true, Depth: mc.Pick(c, 4, 5),
	}
	// relay-heavy: a tunnel with a relay has been removed and its indexes are free again
	relaySeed := &c28wCfg{
		Name: "collide(after a removed tunnel that owned a relay)", Space: 4, Cands: []int{0, 2, 3},
		MaxHI: mc.Pick(c, 3, 4), MaxRelays: 3,
		Sets:   []c28wSet{c28wSetA, c28wSetAB},
		Starts: []netip.Addr{c28wAddrA}, Targets: []netip.Addr{c28wPeerT1},
		Seed:  []c28wEv{{Op: 'R', H: -1, Set: 0, V: 0}, {Op: 'Y', H: 0, Set: 0, V: 0}, {Op: 'D', H: 0}},
		Depth: mc.Pick(c, 4, 6), Share: 0.15,
	}
	// per-address cap: four tunnels on a (two of them also on b) exist already; 16-value index space, no collisions
	capSets := []c28wSet{c28wSetA, c28wSetAB, c28wSetBC}
	if th {
		capSets = append(capSets, c28wSetBA)
	}
	capped := &c28wCfg{
		Name: "cap(index space 1..15)", Space: 16, FreeIdx: true,
		MaxHI: mc.Pick(c, 7, 8), MaxRelays: mc.Pick(c, 2, 3),
		Sets: capSets, Starts: []netip.Addr{c28wAddrB}, Targets: []netip.Addr{c28wPeerT1},
		Seed:  []c28wEv{{Op: 'R', H: -1, Set: 1}, {Op: 'Y', H: 0, Set: 0}, {Op: 'R', H: -1, Set: 0}, {Op: 'R', H: -1, Set: 1}, {Op: 'R', H: -1, Set: 0}},
		Depth: mc.Pick(c, 4, 5), Share: 0.3,
	}
	// cap reached through the address b of two-address tunnels: evictions hit tunnels that are primary elsewhere
	cappedB := &c28wCfg{
		Name: "cap(lists of a and b both full, different oldest)", Space: 16, FreeIdx: true,
		MaxHI: mc.Pick(c, 8, 9), MaxRelays: 1,
		Sets: []c28wSet{c28wSetAB, c28wSetBC, c28wSetA}, Starts: nil, Targets: []netip.Addr{c28wPeerT1},
		Seed:  []c28wEv{{Op: 'R', H: -1, Set: 2}, {Op: 'R', H: -1, Set: 1}, {Op: 'R', H: -1, Set: 0}, {Op: 'R', H: -1, Set: 0}, {Op: 'R', H: -1, Set: 0}, {Op: 'R', H: -1, Set: 0}},
		Depth: mc.Pick(c, 3, 4), Share: 0.15,
	}
	return []*c28wCfg{rejects, relaySeed, cappedB, capped, collide}
}

func c28wDescribe(cfgs []*c28wCfg) []map[string]any {
	var out []map[string]any
	for _, g := range cfgs {
		w := &c28wWorld{cfg: g}
		var seed, sets []string
		for _, e := range g.Seed {
			seed = append(seed, w.label(e))
		}
		for _, s := range g.Sets {
			sets = append(sets, s.Name)
		}
		out = append(out, map[string]any{"scenario": g.Name, "index_values": g.Space - 1, "max_hostinfos": g.MaxHI, "max_relays": g.MaxRelays,
			"peer_address_sets": sets, "depth": g.Depth, "seed": seed})
	}
	return out
}

func c28wKeys(m map[string]int64) []string {
	var ks []string
	for k := range m {
		ks = append(ks, k)
	}
	sort.Strings(ks)
	return ks
}

// c28SetInt stores a small non-negative value into an integer field whatever its exact integer type is.
func c28SetInt[T ~int | ~int32 | ~int64 | ~uint | ~uint32 | ~uint64, V ~int | ~int64 | ~uint32](p *T, v V) { *p = T(v) }
