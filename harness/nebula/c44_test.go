//go:build verif

package nebula

import (
	"context"
	"encoding/json"
	"fmt"
	"net"
	"net/netip"
	"os"
	"runtime"
	"sort"
	"strings"
	"sync"
	"testing"

	"github.com/miekg/dns"
	"github.com/slackhq/nebula/cert"
	"github.com/slackhq/nebula/cert_test"
	"github.com/slackhq/nebula/header"
	"github.com/slackhq/nebula/zzverif/mc"
	"github.com/slackhq/nebula/zzverif/vtime"
)

// C44 — the DNS responder answers only from authenticated data.
//
// A REAL lighthouse node (goroutine-free E4 assembly: real PKI, HostMap, HandshakeManager, Interface, dnsServer built
// by newDnsServerFromConfig) and real peer nodes. History events are real handshakes over the virtual wire (peer- and
// lighthouse-initiated, complete and incomplete, with valid certificates, certificates of a foreign CA, expired and
// blocklisted certificates, names that collide case-insensitively, peers of different certificate names that share one
// overlay address), the network's share of a handshake (a first message delayed and delivered later — possibly after
// another handshake for that address completed, so that it is refused as too old AFTER its certificate verified — and a
// first message delivered twice), tunnel close and serve_dns reloads. In every
// reached state the full query product (1-2 questions x types x names in several spellings x client addresses x
// opcode) is sent to the REAL handler (dnsServer.handleDnsRequest, the function registered on the mux) with a fake
// dns.ResponseWriter, and every response is judged against the statement:
//   R1  A/AAAA answers: the (name, address) pair comes from ONE certificate of a peer the lighthouse completed a
//       handshake with, or its own certificate (names compared case-insensitively, family matches the type); every
//       answer belongs to a question; no other record types are ever produced;
//   R2  a name that is known (certificate of a handshake completed while the responder was enabled and not cleared
//       since, or its own name) is matched in any spelling: it gets its record when it has one of that family, an empty
//       NOERROR answer otherwise — whatever the query type — and never NXDOMAIN;
//   R3  TXT (certificate details) answers only for clients on loopback or on the lighthouse's own overlay addresses,
//       and only with the certificate of a completed handshake / its own whose address is the queried name.

type c44Peer struct {
	Key      string
	Name     string // certificate name
	Networks string
	Version  cert.Version
	Udp      string
	Kind     string // valid | foreign-ca | expired | blocklisted
}

var c44Peers = []c44Peer{
	{"alpha4", "Alpha", "10.0.0.2/24", cert.Version2, "192.0.2.2:4242", "valid"},
	{"bravo6", "BRAVO", "fd00::3/64", cert.Version2, "192.0.2.3:4242", "valid"},
	{"charlie46", "charlie.Example", "10.0.0.4/24,fd00::4/64", cert.Version2, "192.0.2.4:4242", "valid"},
	{"ALPHA4", "ALPHA", "10.0.0.5/24", cert.Version2, "192.0.2.5:4242", "valid"},
	{"alpha6", "alpha", "fd00::6/64", cert.Version2, "192.0.2.6:4242", "valid"},
	{"mallory", "Mallory", "10.0.0.66/24", cert.Version2, "192.0.2.66:4242", "foreign-ca"},
	{"squatter", "Bravo", "10.0.0.67/24", cert.Version2, "192.0.2.67:4242", "foreign-ca"},
	{"expired", "Expired", "10.0.0.68/24", cert.Version2, "192.0.2.68:4242", "expired"},
	{"blocked", "Blocked", "10.0.0.69/24", cert.Version2, "192.0.2.69:4242", "blocklisted"},
	{"delta1", "delta", "10.0.0.7/24", cert.Version1, "192.0.2.7:4242", "valid"},
	{"lhtwin", "LightHouse1", "10.0.0.9/24", cert.Version2, "192.0.2.9:4242", "valid"},
	// peers whose certificate (CA-valid, another name) claims an overlay address that a peer above holds too: which of
	// the two handshakes the lighthouse keeps is decided AFTER certificate verification (handshake time / retransmit)
	{"ghost4", "Ghost", "10.0.0.2/24", cert.Version2, "192.0.2.12:4242", "valid"},
	{"phantom46", "Phantom", "10.0.0.4/24,fd00::44/64", cert.Version2, "192.0.2.14:4242", "valid"},
}

const (
	c44Ghost   = 11
	c44Phantom = 12
)

const (
	c44LHName = "Lighthouse1"
	c44LHNets = "10.0.0.1/24,fd00::1/64"
	c44LHUdp  = "192.0.2.1:4242"
)

type c44Ev struct {
	// hs | hsOut | hsLost | close | off | on, and the network's share of a handshake history:
	// hsHold  the peer builds and sends its first handshake message now, the network delays it
	// hsLate  the delayed first message reaches the lighthouse now (whatever has happened to that address meanwhile)
	// hsDup   the network delivers once more the last first message of that peer the lighthouse has already received
	Op   string
	Peer int
}

func (e c44Ev) String() string {
	switch e.Op {
	case "off":
		return "reload(serve_dns=false)"
	case "on":
		return "reload(serve_dns=true)"
	}
	return e.Op + ":" + c44Peers[e.Peer].Key
}

type c44Cfg struct {
	Name         string
	AmLighthouse bool
	ServeDNS     bool
}

var c44Cfgs = []c44Cfg{
	{"lighthouse+serve_dns", true, true},
	{"lighthouse, serve_dns off at start", true, false},
	{"serve_dns without am_lighthouse", false, true},
}

// foreign CA and special leaves, minted once per process
var c44Once sync.Once
var c44Special map[string]*vLeaf
var c44ForeignCAPEM []byte

func c44Mint() {
	c44Once.Do(func() {
		pk := vGetPKI()
		c44Special = map[string]*vLeaf{}
		nb, na := vtime.Epoch.Add(-vtime.Hour), vtime.Epoch.Add(1000*vtime.Hour)
		fca, _, fkey, fpem := cert_test.NewTestCaCert(cert.Version2, cert.Curve_CURVE25519, nb, na, nil, nil, nil)
		c44ForeignCAPEM = fpem
		for _, p := range c44Peers {
			switch p.Kind {
			case "foreign-ca":
				crt, _, keyPEM, certPEM := cert_test.NewTestCert(p.Version, cert.Curve_CURVE25519, fca, fkey, p.Name, nb, vtime.Epoch.Add(100*vtime.Hour), vParsePrefixes(p.Networks), nil, nil)
				c44Special[p.Key] = &vLeaf{crt: crt, certPEM: certPEM, keyPEM: keyPEM}
			case "expired":
				// valid while the node is assembled (clock = Epoch), expired once the world clock has been advanced
				crt, _, keyPEM, certPEM := cert_test.NewTestCert(p.Version, cert.Curve_CURVE25519, pk.ca, pk.caKey, p.Name, nb, vtime.Epoch.Add(5*vtime.Second), vParsePrefixes(p.Networks), nil, nil)
				c44Special[p.Key] = &vLeaf{crt: crt, certPEM: certPEM, keyPEM: keyPEM}
			}
		}
	})
}

func c44Leaf(p c44Peer) *vLeaf {
	if l, ok := c44Special[p.Key]; ok {
		return l
	}
	return vGetPKI().leafFor(p.Name, p.Networks, "", nil, p.Version)
}

// c44CertInfo is what the oracle knows about a certificate.
type c44CertInfo struct {
	Peer        string
	Name        string
	Addrs       []netip.Addr
	Fingerprint string
	JSON        string
}

func c44Info(key string, crt cert.Certificate) c44CertInfo {
	ci := c44CertInfo{Peer: key, Name: crt.Name()}
	for _, n := range crt.Networks() {
		ci.Addrs = append(ci.Addrs, n.Addr())
	}
	ci.Fingerprint, _ = crt.Fingerprint()
	b, _ := crt.MarshalJSON()
	ci.JSON = string(b)
	return ci
}

type c44World struct {
	c     *mc.Check
	cfg   c44Cfg
	net   *vnet
	lh    *vnode
	peers map[int]*vnode
	self  c44CertInfo
	byFP  map[string]c44CertInfo
	// oracle bookkeeping
	enabled   bool
	seenHI    map[string]bool // fingerprint/localIndex of hostinfos already counted
	completed []c44CertInfo   // every certificate of a completed handshake, ever
	known     []c44CertInfo   // completed while enabled and not cleared since
	selfKnown bool
	hist      []string
	notes     []string
	// the network's memory: delayed first messages (and the virtual time they were built at), and the last first
	// message of every peer that was put on the wire towards the lighthouse
	held   map[int]vpkt
	heldAt map[int]uint64
	first  map[int]vpkt
}

func c44LHOverrides(cfg c44Cfg) m {
	bl := []string{}
	for _, p := range c44Peers {
		if p.Kind == "blocklisted" {
			fp, _ := c44Leaf(p).crt.Fingerprint()
			bl = append(bl, fp)
		}
	}
	return m{
		"lighthouse": m{"am_lighthouse": cfg.AmLighthouse, "serve_dns": cfg.ServeDNS, "dns": m{"host": "127.0.0.1", "port": 0}},
		"pki":        m{"blocklist": bl},
	}
}

func c44NewWorld(t testing.TB, c *mc.Check, cfg c44Cfg, need map[int]bool) *c44World {
	c44Mint()
	pk := vGetPKI()
	specs := []vnodeSpec{{Name: c44LHName, Networks: c44LHNets, Udp: c44LHUdp, Overrides: c44LHOverrides(cfg)}}
	var order []int
	for i := range c44Peers {
		if need[i] {
			order = append(order, i)
		}
	}
	for _, i := range order {
		p := c44Peers[i]
		ov := m{"static_host_map": m{"10.0.0.1": []string{c44LHUdp}, "fd00::1": []string{c44LHUdp}}}
		if l, ok := c44Special[p.Key]; ok {
			ca := string(pk.caPEM)
			if p.Kind == "foreign-ca" {
				ca += string(c44ForeignCAPEM)
			}
			ov["pki"] = m{"ca": ca, "cert": string(l.certPEM), "key": string(l.keyPEM)}
		}
		specs = append(specs, vnodeSpec{Name: p.Name, Networks: p.Networks, Udp: p.Udp, Version: p.Version, Overrides: ov})
	}
	w := &c44World{c: c, cfg: cfg, peers: map[int]*vnode{}, byFP: map[string]c44CertInfo{}, seenHI: map[string]bool{},
		held: map[int]vpkt{}, heldAt: map[int]uint64{}, first: map[int]vpkt{}}
	w.net = vNewNet(t, c.Seed(), specs...)
	w.lh = w.net.nodes[0]
	for k, i := range order {
		w.peers[i] = w.net.nodes[1+k]
	}
	for i, p := range c44Peers {
		_ = i
		ci := c44Info(p.Key, c44Leaf(p).crt)
		w.byFP[ci.Fingerprint] = ci
	}
	w.self = c44Info("self", w.lh.f.pki.getCertState().GetDefaultCertificate())
	// reload(serve_dns=true) spawns `go d.Start()`, which would bind a real UDP socket: give the responder a dead
	// context so that goroutine returns at once (Start's own guard). Query handling does not use the context.
	dead, cancel := context.WithCancel(context.Background())
	cancel()
	w.lh.f.dnsServer.ctx = dead
	w.enabled = cfg.AmLighthouse && cfg.ServeDNS
	w.selfKnown = w.enabled
	vtime.Advance(10 * vtime.Second) // the "expired" certificate is now expired
	return w
}

func (w *c44World) close() { w.net.close() }

// run lets the network settle loss-free, ticking the handshake timers of the given node every 100 ms of virtual time,
// until that node has no pending handshake left (or the round budget is spent: handshakes that must fail keep retrying).
func (w *c44World) run(ticker *vnode, rounds int) {
	w.net.collect()
	w.noteFirsts()
	for r := 0; r < rounds; r++ {
		w.net.flushFIFO(100)
		if len(ticker.pendingAddrs()) == 0 {
			break
		}
		vtime.Advance(100 * vtime.Millisecond)
		ticker.hsTick()
		w.net.collect()
		w.noteFirsts()
	}
	w.net.flushFIFO(100)
	w.net.inflight = nil
}

// c44IsFirstMsg: the datagram is a first handshake message (IX stage 0: no receiver index yet, counter 1).
func c44IsFirstMsg(b []byte) bool {
	var h header.H
	if len(b) < header.Len || h.Parse(b) != nil {
		return false
	}
	return h.Type == header.Handshake && h.RemoteIndex == 0 && h.MessageCounter == 1
}

func c44IsHandshake(b []byte) bool {
	var h header.H
	if len(b) < header.Len || h.Parse(b) != nil {
		return false
	}
	return h.Type == header.Handshake
}

func (w *c44World) peerByUDP(a netip.AddrPort) (int, bool) {
	for i, p := range w.peers {
		if p.udp == a {
			return i, true
		}
	}
	return 0, false
}

// noteFirsts remembers the first handshake messages peers have put on the wire towards the lighthouse (the network
// may deliver them again later).
func (w *c44World) noteFirsts() {
	for _, pk := range w.net.inflight {
		if pk.To != w.lh.udp || !c44IsFirstMsg(pk.Data) {
			continue
		}
		if i, ok := w.peerByUDP(pk.From); ok {
			w.first[i] = vpkt{From: pk.From, To: pk.To, Data: append([]byte(nil), pk.Data...)}
		}
	}
}

func (w *c44World) lhIndexes() map[uint32]bool {
	out := map[uint32]bool{}
	hmap := w.lh.f.hostMap
	hmap.RLock()
	for idx := range hmap.Indexes {
		out[idx] = true
	}
	hmap.RUnlock()
	return out
}

// lhHolder: the peer whose certificate the lighthouse's primary tunnel for that overlay address carries ("" = none),
// whether the lighthouse was the responder of that handshake, and the handshake time it recorded.
func (w *c44World) lhHolder(a netip.Addr) (peer string, responder bool, hsTime uint64) {
	hmap := w.lh.f.hostMap
	hmap.RLock()
	defer hmap.RUnlock()
	hi := hmap.Hosts[a]
	if hi == nil || hi.ConnectionState == nil || hi.ConnectionState.peerCert == nil {
		return "", false, 0
	}
	return w.byFP[hi.ConnectionState.peerCert.Fingerprint].Peer, !hi.ConnectionState.initiator, hi.lastHandshakeTime
}

// deliverFirst hands a (delayed / duplicated) first handshake message of that peer to the lighthouse, classifies what
// the lighthouse did with it from what can be observed from outside the responder (hostmap, wire) and lets the
// network settle.
func (w *c44World) deliverFirst(peer int, pk vpkt, what string) {
	p := w.peers[peer]
	holder, _, _ := w.lhHolder(p.vpnIP)
	before := w.lhIndexes()
	w.net.collect()
	w.net.inflight = append(w.net.inflight, pk)
	w.net.deliverAt(len(w.net.inflight)-1, false)
	replied := false
	for _, q := range w.net.inflight {
		if q.From == w.lh.udp && q.To == p.udp && c44IsHandshake(q.Data) {
			replied = true
		}
	}
	fresh := false
	for idx := range w.lhIndexes() {
		if !before[idx] {
			fresh = true
		}
	}
	out := ""
	switch {
	case fresh && replied:
		out = "accepted (new tunnel, reply sent)"
	case !fresh && replied:
		out = "refused: already answered, the earlier reply was sent again"
	case !fresh && !replied:
		out = "refused after certificate verification, no reply"
		if holder != "" && holder != c44Peers[peer].Key {
			w.c.Add("c44_"+what+": refused while the address's tunnel carries another peer's certificate", 1)
		}
	default:
		w.c.Broken("%s of %s: a tunnel appeared but no reply was sent", what, c44Peers[peer].Key)
	}
	w.c.Add("c44_"+what+": "+out, 1)
	w.notes = append(w.notes, what+":"+c44Peers[peer].Key+" -> "+out)
	w.run(p, 4)
}

func (w *c44World) lhAddrFor(p *vnode) netip.Addr {
	if p.vpnIP.Is6() {
		return netip.MustParseAddr("fd00::1")
	}
	return netip.MustParseAddr("10.0.0.1")
}

func (w *c44World) apply(e c44Ev) {
	w.hist = append(w.hist, e.String())
	nb, out := make([]byte, 12), make([]byte, mtu)
	switch e.Op {
	case "hs", "hsOut", "hsLost", "hsHold":
		// handshakes of different events are built at different (virtual) times: the lighthouse compares the times
		// their first messages carry when two of them claim one overlay address
		vtime.Advance(vtime.Second)
	}
	switch e.Op {
	case "hs":
		p := w.peers[e.Peer]
		p.f.SendMessageToVpnAddr(header.Test, header.TestRequest, w.lhAddrFor(p), []byte("c44"), nb, out)
		p.settle()
		w.run(p, 4)
	case "hsOut":
		p := w.peers[e.Peer]
		w.lh.injectLighthouseAddr(p.vpnIP, p.udp)
		w.lh.f.SendMessageToVpnAddr(header.Test, header.TestRequest, p.vpnIP, []byte("c44"), nb, out)
		w.lh.settle()
		w.run(w.lh, 8)
	case "hsLost":
		p := w.peers[e.Peer]
		w.lh.injectLighthouseAddr(p.vpnIP, p.udp)
		w.lh.f.SendMessageToVpnAddr(header.Test, header.TestRequest, p.vpnIP, []byte("c44"), nb, out)
		w.lh.settle()
		w.net.collect()
		// deliver the lighthouse's stage-1 to the peer, lose everything the peer answers
		for i := 0; i < len(w.net.inflight); {
			if w.net.inflight[i].To == p.udp {
				w.net.deliverAt(i, false)
				i = 0
				continue
			}
			i++
		}
		w.net.inflight = nil
	case "hsHold":
		p := w.peers[e.Peer]
		if _, already := w.held[e.Peer]; !already {
			at := uint64(vtime.Now().UnixNano())
			p.f.SendMessageToVpnAddr(header.Test, header.TestRequest, w.lhAddrFor(p), []byte("c44"), nb, out)
			p.settle()
			w.net.collect()
			var rest []vpkt
			for _, pk := range w.net.inflight {
				if pk.From == p.udp && pk.To == w.lh.udp && c44IsFirstMsg(pk.Data) {
					if _, have := w.held[e.Peer]; !have {
						w.held[e.Peer], w.heldAt[e.Peer] = pk, at
					}
					continue
				}
				rest = append(rest, pk)
			}
			w.net.inflight = rest
			w.net.flushFIFO(100) // the peer has a tunnel already / is waiting for an answer: nothing to delay
			w.net.inflight = nil
			if _, have := w.held[e.Peer]; have {
				w.c.Add("c44_first messages delayed", 1)
			}
		}
	case "hsLate":
		if pk, ok := w.held[e.Peer]; ok {
			delete(w.held, e.Peer)
			delete(w.heldAt, e.Peer)
			w.first[e.Peer] = pk
			w.deliverFirst(e.Peer, pk, "delayed first message")
		}
	case "hsDup":
		if pk, ok := w.first[e.Peer]; ok {
			w.deliverFirst(e.Peer, pk, "duplicated first message")
		}
	case "close":
		for _, a := range w.peerAddrs(e.Peer) {
			if hi := w.lh.f.hostMap.QueryVpnAddr(a); hi != nil {
				w.lh.f.closeTunnel(hi)
			}
		}
		w.lh.settle()
	case "off", "on":
		on := e.Op == "on"
		cfg := w.cfg
		cfg.ServeDNS = on
		if err := w.lh.reload(c44LHOverrides(cfg)); err != nil {
			w.c.Broken("reload: %v", err)
		}
		w.cfg = cfg
		w.enabled = cfg.AmLighthouse && cfg.ServeDNS
		if !w.enabled {
			w.known, w.selfKnown = nil, false
		} else {
			w.selfKnown = true // every enabled reload re-seeds the own record
		}
	}
	w.observeCompletions()
	if os.Getenv("VERIF_DEBUG_C44") != "" {
		fmt.Println("INFO c44 after", e.String(), ":", w.key(), "inflight", len(w.net.inflight))
	}
}

func (w *c44World) peerAddrs(i int) []netip.Addr {
	var out []netip.Addr
	for _, n := range vParsePrefixes(c44Peers[i].Networks) {
		out = append(out, n.Addr())
	}
	return out
}

// observeCompletions: a hostinfo that appeared in the lighthouse's main hostmap is a completed handshake with the
// certificate it carries (that a tunnel only appears for a certificate that verifies is C05/C09's property, asserted here
// as a guard).
func (w *c44World) observeCompletions() {
	hmap := w.lh.f.hostMap
	hmap.RLock()
	type fresh struct {
		idx uint32
		fp  string
	}
	var fr []fresh
	for idx, hi := range hmap.Indexes {
		if hi.ConnectionState == nil || hi.ConnectionState.peerCert == nil {
			continue
		}
		fp := hi.ConnectionState.peerCert.Fingerprint
		k := fmt.Sprintf("%s/%d", fp, idx)
		if !w.seenHI[k] {
			w.seenHI[k] = true
			fr = append(fr, fresh{idx, fp})
		}
	}
	hmap.RUnlock()
	sort.Slice(fr, func(i, j int) bool { return fr[i].idx < fr[j].idx })
	for _, f := range fr {
		ci, ok := w.byFP[f.fp]
		if !ok {
			w.c.Broken("tunnel with an unknown certificate %s", f.fp)
		}
		for _, p := range c44Peers {
			if p.Key == ci.Peer && p.Kind != "valid" {
				w.c.Broken("a tunnel was established with the %s certificate of %s (not C44's business, but the harness assumes it cannot happen)", p.Kind, p.Key)
			}
		}
		w.completed = append(w.completed, ci)
		if w.enabled {
			w.known = append(w.known, ci)
		}
	}
}

// dnsState: what the responder can see — its maps, the self entry, the hostmap's certificates by address.
func (w *c44World) dnsState() map[string]any {
	ds := w.lh.f.dnsServer
	ds.RLock()
	m4, m6 := map[string]string{}, map[string]string{}
	for k, v := range ds.dnsMap4 {
		m4[k] = v.String()
	}
	for k, v := range ds.dnsMap6 {
		m6[k] = v.String()
	}
	self := ds.selfHost
	ds.RUnlock()
	hosts := map[string]string{}
	hmap := w.lh.f.hostMap
	hmap.RLock()
	for a, hi := range hmap.Hosts {
		if hi.ConnectionState != nil && hi.ConnectionState.peerCert != nil {
			hosts[a.String()] = w.byFP[hi.ConnectionState.peerCert.Fingerprint].Peer
		}
	}
	hmap.RUnlock()
	pend := w.lh.pendingAddrs()
	return map[string]any{"enabled": ds.enabled.Load(), "dnsMap4": m4, "dnsMap6": m6, "selfHost": self, "tunnels": hosts, "pending": pend}
}

func c44Names(cs []c44CertInfo) []string {
	var out []string
	for _, c := range cs {
		out = append(out, c.Peer)
	}
	return out
}

// key = responder-visible state + the oracle's sets (equal keys => equal responses AND equal verdicts).
func (w *c44World) key() string {
	comp := c44Names(w.completed)
	sort.Strings(comp)
	comp = compactStrings(comp)
	kn := c44Names(w.known)
	sort.Strings(kn)
	kn = compactStrings(kn)
	b, _ := json.Marshal(map[string]any{"cfg": w.cfg.Name, "dns": w.dnsState(), "completed": comp, "known": kn, "selfKnown": w.selfKnown})
	return string(b)
}

// netKey: what the network and the peers remember (it decides what later events do, not what the responder answers):
// delayed first messages (and whether the lighthouse meanwhile holds a responder-side tunnel for that address that is
// not older), recorded first messages that may be duplicated, valid peers still waiting for an answer.
func (w *c44World) netKey(dup map[int]bool) string {
	var held, first, pend []string
	for i := range c44Peers {
		if _, ok := w.held[i]; ok {
			rel := "fresh"
			if holder, resp, t := w.lhHolder(w.peers[i].vpnIP); holder != "" && resp && t >= w.heldAt[i] {
				rel = "older than the tunnel of " + holder
			}
			held = append(held, c44Peers[i].Key+": "+rel)
		}
		if _, ok := w.first[i]; ok && dup[i] {
			first = append(first, c44Peers[i].Key)
		}
		if p, ok := w.peers[i]; ok && c44Peers[i].Kind == "valid" && len(p.pendingAddrs()) > 0 {
			pend = append(pend, c44Peers[i].Key)
		}
	}
	b, _ := json.Marshal(map[string]any{"held": held, "first": first, "peerPending": pend})
	return string(b)
}

func compactStrings(s []string) []string {
	var out []string
	for i, x := range s {
		if i == 0 || x != s[i-1] {
			out = append(out, x)
		}
	}
	return out
}

// ---------------------------------------------------------------------------------------------------------------
// queries

type c44Addr string

func (a c44Addr) Network() string { return "udp" }
func (a c44Addr) String() string  { return string(a) }

type c44RW struct {
	remote net.Addr
	msgs   []*dns.Msg
}

func (w *c44RW) LocalAddr() net.Addr       { return c44Addr("127.0.0.1:53") }
func (w *c44RW) RemoteAddr() net.Addr      { return w.remote }
func (w *c44RW) WriteMsg(m *dns.Msg) error { w.msgs = append(w.msgs, m); return nil }
func (w *c44RW) Write(b []byte) (int, error) {
	m := new(dns.Msg)
	if err := m.Unpack(b); err == nil {
		w.msgs = append(w.msgs, m)
	}
	return len(b), nil
}
func (w *c44RW) Close() error        { return nil }
func (w *c44RW) TsigStatus() error   { return nil }
func (w *c44RW) TsigTimersOnly(bool) {}
func (w *c44RW) Hijack()             {}

type c44Client struct {
	Addr      string
	Class     string
	MayDetail bool // loopback or one of the lighthouse's own overlay addresses
}

var c44Clients = []c44Client{
	{"127.0.0.1:5353", "loopback v4", true},
	{"[::1]:5353", "loopback v6", true},
	{"127.8.9.10:1", "loopback v4 (not .1)", true},
	{"10.0.0.1:40000", "own overlay address v4", true},
	{"[fd00::1]:40000", "own overlay address v6", true},
	{"10.0.0.2:40000", "a peer's overlay address (v4, inside the overlay network)", false},
	{"[fd00::3]:40000", "a peer's overlay address (v6)", false},
	{"8.8.8.8:53", "public address", false},
	{"192.168.1.5:53", "private underlay address", false},
	{"10.0.0.0:1", "overlay network address", false},
	{"not-an-address", "unparseable remote address", false},
}

type c44Q struct {
	Name string
	Type uint16
}

type c44Query struct {
	Client int
	Opcode int
	Qs     []c44Q
}

func (q c44Query) String() string {
	var qs []string
	for _, x := range q.Qs {
		qs = append(qs, fmt.Sprintf("%s %q", dns.TypeToString[x.Type], x.Name))
	}
	op := ""
	if q.Opcode != dns.OpcodeQuery {
		op = " opcode=" + dns.OpcodeToString[q.Opcode]
	}
	return fmt.Sprintf("[%s] from %s%s", strings.Join(qs, " + "), c44Clients[q.Client].Addr, op)
}

func c44Spellings(name string) []string {
	swap := []byte(name)
	for i, ch := range swap {
		switch {
		case ch >= 'a' && ch <= 'z' && i%2 == 0:
			swap[i] = ch - 32
		case ch >= 'A' && ch <= 'Z' && i%2 == 1:
			swap[i] = ch + 32
		}
	}
	return compactSorted([]string{name + ".", strings.ToLower(name) + ".", strings.ToUpper(name) + ".", string(swap) + "."})
}

func compactSorted(s []string) []string {
	sort.Strings(s)
	return compactStrings(s)
}

var c44Types = []uint16{dns.TypeA, dns.TypeAAAA, dns.TypeTXT, dns.TypeMX, dns.TypeANY, dns.TypeCNAME}

// c44QuerySet: the query product (independent of the state; names cover every peer of the alphabet, known or not).
func c44QuerySet(thorough bool) []c44Query {
	var names []string
	seen := map[string]bool{}
	add := func(ns ...string) {
		for _, n := range ns {
			if !seen[n] {
				seen[n] = true
				names = append(names, n)
			}
		}
	}
	for _, p := range c44Peers {
		add(c44Spellings(p.Name)...)
	}
	add(c44Spellings(c44LHName)...)
	add("unknown.", "Alpha.sub.", "sub.Alpha.", "alpha", "", ".")
	for _, p := range c44Peers {
		for _, n := range vParsePrefixes(p.Networks) {
			add(n.Addr().String() + ".")
		}
	}
	add("10.0.0.1.", "fd00::1.", "10.0.0.250.", "FD00::3.", "127.0.0.1.")
	var out []c44Query
	for cl := range c44Clients {
		for _, n := range names {
			for _, ty := range c44Types {
				out = append(out, c44Query{cl, dns.OpcodeQuery, []c44Q{{n, ty}}})
			}
		}
		out = append(out, c44Query{cl, dns.OpcodeNotify, []c44Q{{"Alpha.", dns.TypeA}}}, c44Query{cl, dns.OpcodeUpdate, []c44Q{{"10.0.0.2.", dns.TypeTXT}}}, c44Query{cl, dns.OpcodeQuery, nil})
	}
	// two questions: reduced names x types, four client classes
	pn := []string{"Alpha.", "bravo.", "CHARLIE.EXAMPLE.", "unknown.", "mallory.", "10.0.0.2.", "lighthouse1.", "fd00::4."}
	pt := []uint16{dns.TypeA, dns.TypeAAAA, dns.TypeTXT, dns.TypeMX}
	pc := []int{0, 3, 5, 7}
	if thorough {
		pc = []int{0, 1, 3, 4, 5, 6, 7, 10}
	}
	for _, cl := range pc {
		for _, n1 := range pn {
			for _, t1 := range pt {
				for _, n2 := range pn {
					for _, t2 := range pt {
						out = append(out, c44Query{cl, dns.OpcodeQuery, []c44Q{{n1, t1}, {n2, t2}}})
					}
				}
			}
		}
	}
	return out
}

type c44Stats struct {
	mu sync.Mutex
	n  map[string]int64
}

func (s *c44Stats) inc(k string) {
	s.mu.Lock()
	s.n[k]++
	s.mu.Unlock()
}

func c44Lower(s string) string { return strings.ToLower(s) }

// judge sends one query to the real handler and checks the response against the statement.
func (w *c44World) judge(q c44Query, st *c44Stats, stateDesc func() map[string]any) {
	cl := c44Clients[q.Client]
	req := new(dns.Msg)
	req.Id = 4242
	req.Opcode = q.Opcode
	req.RecursionDesired = true
	for _, x := range q.Qs {
		req.Question = append(req.Question, dns.Question{Name: x.Name, Qtype: x.Type, Qclass: dns.ClassINET})
	}
	rw := &c44RW{remote: c44Addr(cl.Addr)}
	var pan any
	func() {
		defer func() { pan = recover() }()
		w.lh.f.dnsServer.handleDnsRequest(rw, req)
	}()
	viol := func(sig string, extra map[string]any) {
		d := map[string]any{"history": w.hist, "config": w.cfg.Name, "query": q.String(), "state": stateDesc()}
		if len(w.notes) > 0 {
			d["observed"] = w.notes
		}
		if len(rw.msgs) > 0 {
			d["response"] = rw.msgs[len(rw.msgs)-1].String()
		}
		for k, v := range extra {
			d[k] = v
		}
		w.c.Violation(sig, d)
	}
	if pan != nil {
		viol("the DNS handler panicked", map[string]any{"panic": fmt.Sprint(pan)})
		return
	}
	if len(rw.msgs) != 1 {
		st.inc(fmt.Sprintf("responses-written=%d", len(rw.msgs)))
		if len(rw.msgs) == 0 {
			return
		}
	}
	resp := rw.msgs[len(rw.msgs)-1]
	allowed := append(append([]c44CertInfo{}, w.completed...), w.self)

	// R1 / R3: every answer record
	for _, rr := range resp.Answer {
		h := rr.Header()
		matchesQ := false
		for _, x := range q.Qs {
			if x.Name == h.Name && x.Type == h.Rrtype {
				matchesQ = true
			}
		}
		switch r := rr.(type) {
		case *dns.A, *dns.AAAA:
			var addr netip.Addr
			if a4, ok := r.(*dns.A); ok {
				addr, _ = netip.AddrFromSlice(a4.A.To4())
			} else {
				addr, _ = netip.AddrFromSlice(r.(*dns.AAAA).AAAA.To16())
			}
			addr = addr.Unmap()
			fam := addr.Is4() == (h.Rrtype == dns.TypeA)
			backed := false
			for _, ci := range allowed {
				if c44Lower(ci.Name)+"." != c44Lower(h.Name) {
					continue
				}
				for _, a := range ci.Addrs {
					if a == addr {
						backed = true
					}
				}
			}
			if !backed || !fam {
				viol(fmt.Sprintf("%s answer is not a (name, address) pair of a certificate of a completed handshake or the responder's own", dns.TypeToString[h.Rrtype]),
					map[string]any{"answer": rr.String()})
			}
			if !matchesQ {
				viol("an address answer does not belong to any question", map[string]any{"answer": rr.String()})
			}
			st.inc("answer:" + dns.TypeToString[h.Rrtype])
		case *dns.TXT:
			if !cl.MayDetail {
				viol(fmt.Sprintf("certificate details (TXT) returned to a client that is neither loopback nor the responder's own overlay address: %s", cl.Class),
					map[string]any{"answer": rr.String()})
			}
			txt := strings.Join(r.Txt, "")
			qa, perr := netip.ParseAddr(strings.TrimSuffix(h.Name, "."))
			backed := false
			for _, ci := range allowed {
				if perr != nil || !c44TXTIsCert(txt, ci) {
					continue
				}
				for _, a := range ci.Addrs {
					if a == qa {
						backed = true
					}
				}
			}
			if !backed {
				viol("TXT answer is not the certificate of a completed handshake (or the responder's own) for the queried address", map[string]any{"answer": rr.String(), "txt": txt})
			}
			if !matchesQ {
				viol("a TXT answer does not belong to any question", map[string]any{"answer": rr.String()})
			}
			st.inc("answer:TXT:" + cl.Class)
		default:
			viol("a record of a type the responder has no authenticated data for was returned: "+dns.TypeToString[h.Rrtype], map[string]any{"answer": rr.String()})
		}
	}
	if len(resp.Ns) > 0 || len(resp.Extra) > 0 {
		viol("the response carries authority/additional records", nil)
	}

	// R2: known names
	knownCerts := append([]c44CertInfo{}, w.known...)
	if w.selfKnown {
		knownCerts = append(knownCerts, w.self)
	}
	isKnown := func(name string) (known bool, has4, has6 bool) {
		for _, ci := range knownCerts {
			if c44Lower(ci.Name)+"." == c44Lower(name) {
				known = true
				for _, a := range ci.Addrs {
					if a.Is4() {
						has4 = true
					} else {
						has6 = true
					}
				}
			}
		}
		return
	}
	if q.Opcode == dns.OpcodeQuery && len(q.Qs) > 0 {
		allKnown := true
		for _, x := range q.Qs {
			k, _, _ := isKnown(x.Name)
			if !k {
				allKnown = false
			}
		}
		if allKnown && resp.Rcode == dns.RcodeNameError {
			tys := []string{}
			class := "address query (A/AAAA)"
			for _, x := range q.Qs {
				tys = append(tys, dns.TypeToString[x.Type])
				if x.Type != dns.TypeA && x.Type != dns.TypeAAAA {
					class = "query type other than A/AAAA"
				}
			}
			if len(q.Qs) > 1 && class == "address query (A/AAAA)" {
				class += ", several questions"
			}
			viol("NXDOMAIN for a known name: "+class, map[string]any{"types": tys})
		}
		if len(q.Qs) == 1 {
			x := q.Qs[0]
			k, has4, has6 := isKnown(x.Name)
			switch {
			case k && (x.Type == dns.TypeA && has4 || x.Type == dns.TypeAAAA && has6):
				if len(resp.Answer) == 0 {
					spelling := "as spelled in the certificate"
					exact := false
					for _, ci := range knownCerts {
						if ci.Name+"." == x.Name {
							exact = true
						}
					}
					if !exact {
						spelling = "in a different letter case"
					}
					viol("no answer for a known name that has a record of the requested type, queried "+spelling, nil)
				} else {
					st.inc("known:answered")
					if x.Name != c44Lower(x.Name) {
						st.inc("known:answered:mixed-case-query")
					}
				}
			case k:
				if resp.Rcode == dns.RcodeSuccess && len(resp.Answer) == 0 {
					st.inc("known:nodata:" + dns.TypeToString[x.Type])
				}
			default:
				if resp.Rcode == dns.RcodeNameError {
					st.inc("unknown:nxdomain")
				}
			}
		}
	}
	if resp.Rcode == dns.RcodeNameError {
		st.inc("rcode:NXDOMAIN")
	} else {
		st.inc("rcode:" + dns.RcodeToString[resp.Rcode])
	}
	w.c.Distinct("outcomes", fmt.Sprintf("%s|q=%d|%v|ans=%d|%s", dns.RcodeToString[resp.Rcode], len(q.Qs), cl.MayDetail, len(resp.Answer), c44AnsTypes(resp)))
}

func c44AnsTypes(m *dns.Msg) string {
	var t []string
	for _, rr := range m.Answer {
		t = append(t, dns.TypeToString[rr.Header().Rrtype])
	}
	return strings.Join(t, ",")
}

// c44TXTIsCert: the TXT payload is the JSON rendering of this certificate. The responder feeds the JSON through the
// zone-file parser, which strips the quotes and splits at blanks, so compare modulo quotes, blanks and backslashes.
func c44TXTIsCert(txt string, ci c44CertInfo) bool {
	norm := func(s string) string {
		return strings.NewReplacer("\"", "", " ", "", "\\", "").Replace(s)
	}
	return norm(txt) == norm(ci.JSON) || strings.Contains(norm(txt), ci.Fingerprint)
}

// c44NetPeers: the peers whose first message the network may delay (hold) / deliver twice (dup).
func c44NetPeers(thorough bool) (hold, dup []int) {
	if thorough {
		return []int{c44Ghost, 0, c44Phantom, 2}, []int{0, c44Ghost, 2}
	}
	return []int{c44Ghost}, []int{0}
}

// menu: the fixed alphabet plus what the network can do in this state.
func (w *c44World) menu(alphabet []c44Ev, hold, dup []int) []c44Ev {
	evs := alphabet[:len(alphabet):len(alphabet)]
	for _, i := range hold {
		if _, ok := w.held[i]; ok {
			evs = append(evs, c44Ev{"hsLate", i})
		} else {
			evs = append(evs, c44Ev{"hsHold", i})
		}
	}
	for _, i := range dup {
		if _, ok := w.first[i]; ok {
			evs = append(evs, c44Ev{"hsDup", i})
		}
	}
	return evs
}

func c44Alphabet(thorough bool) []c44Ev {
	var evs []c44Ev
	hs := []int{0, 1, 2, 3, 4, 5, 6, 7, 8, c44Ghost}
	if thorough {
		hs = append(hs, 9, 10, c44Phantom)
	}
	for _, i := range hs {
		evs = append(evs, c44Ev{"hs", i})
	}
	evs = append(evs, c44Ev{"hsOut", 2}, c44Ev{"hsLost", 1}, c44Ev{"close", 0}, c44Ev{"close", 2}, c44Ev{"off", 0}, c44Ev{"on", 0})
	if thorough {
		evs = append(evs, c44Ev{"hsOut", 0}, c44Ev{"hsOut", 5}, c44Ev{"hsLost", 3}, c44Ev{"close", 1})
	}
	return evs
}

func TestVerifC44(t *testing.T) {
	c := mc.Begin(t, "C44", "model_checking")
	defer c.End()
	st := &c44Stats{n: map[string]int64{}}
	queries := c44QuerySet(c.Thorough())
	alphabet := c44Alphabet(c.Thorough())
	holdPeers, dupPeers := c44NetPeers(c.Thorough())
	dupSet := map[int]bool{}
	for _, i := range dupPeers {
		dupSet[i] = true
	}
	c.Set("queries_per_state", len(queries))
	c.Set("event_alphabet", len(alphabet)+2*len(holdPeers)+len(dupPeers))
	c.Set("event_alphabet_note", fmt.Sprintf("%d events offered in every state + per state: hsHold or hsLate for %d peers (ghost4 first: it shares its overlay address with alpha4 under another certificate name), hsDup for %d peers once a first message of theirs was on the wire", len(alphabet), len(holdPeers), len(dupPeers)))
	c.Set("clients", len(c44Clients))
	c.Set("peers", len(c44Peers))

	build := func(cfg c44Cfg, hist []c44Ev) *c44World {
		need := map[int]bool{}
		for _, e := range hist {
			if e.Op != "off" && e.Op != "on" {
				need[e.Peer] = true
			}
		}
		w := c44NewWorld(t, c, cfg, need)
		for _, e := range hist {
			w.apply(e)
		}
		return w
	}

	// determinism of replay
	{
		h := []c44Ev{{"hs", 0}, {"hsOut", 2}, {"hs", 5}, {"off", 0}, {"on", 0}, {"hs", 1}}
		w1 := build(c44Cfgs[0], h)
		k1, wh1 := w1.key(), w1.net.wireHash()
		w1.close()
		w2 := build(c44Cfgs[0], h)
		k2, wh2 := w2.key(), w2.net.wireHash()
		w2.close()
		_, _ = wh1, wh2 // wire bytes are not compared: emission order depends on map iteration in places (DESIGN 2.9)
		if k1 != k2 {
			c.Broken("replay is not deterministic:\n%s\n%s", k1, k2)
		}
		if os.Getenv("VERIF_DEBUG_C44") != "" {
			fmt.Println("INFO c44 state:", k1)
			w3 := build(c44Cfgs[0], []c44Ev{{"hs", 0}, {"hs", 9}, {"hs", 10}, {"hs", 1}})
			fmt.Println("INFO c44 state3:", w3.key())
			for _, q := range []c44Query{{0, dns.OpcodeQuery, []c44Q{{"10.0.0.2.", dns.TypeTXT}}}, {0, dns.OpcodeQuery, []c44Q{{"ALPHA.", dns.TypeA}}}, {0, dns.OpcodeQuery, []c44Q{{"alpha.", dns.TypeMX}}}, {0, dns.OpcodeQuery, []c44Q{{"10.0.0.1.", dns.TypeTXT}}}} {
				rw := &c44RW{remote: c44Addr("127.0.0.1:1")}
				req := new(dns.Msg)
				for _, x := range q.Qs {
					req.Question = append(req.Question, dns.Question{Name: x.Name, Qtype: x.Type, Qclass: dns.ClassINET})
				}
				w3.lh.f.dnsServer.handleDnsRequest(rw, req)
				fmt.Println("INFO c44 resp:", strings.ReplaceAll(rw.msgs[0].String(), "\n", " | "))
			}
			w3.close()
		}
	}

	judged := map[string]bool{}
	var judgedMu sync.Mutex
	var queriesRun int64
	depth := mc.Pick(c, 3, 4)
	perCfg := map[string]any{}
	for _, ci := range []int{1, 2, 0} { // the shallow configurations first
		cfg := c44Cfgs[ci]
		d := depth
		if ci > 0 {
			d = mc.Pick(c, 2, 3)
		}
		res := mc.BFSReplay(c, mc.BFSConfig[c44Ev]{
			MaxDepth: d,
			Workers:  1, // virtual clock and crypto/rand stream are process-global
			Label:    func(e c44Ev) string { return e.String() },
			Stop:     func() bool { return c.OutOfTime() }, // keeps exploring past violations: one signature = one line
			Run: func(hist []c44Ev) (string, []c44Ev) {
				w := build(cfg, hist)
				defer w.close()
				key := w.key()
				judgedMu.Lock()
				done := judged[key]
				judged[key] = true
				judgedMu.Unlock()
				if !done {
					// the query product on this state, in parallel (the handler is read-only and takes its own locks)
					desc := w.dnsState()
					descFn := func() map[string]any { return desc }
					// state-guided questions: every name the responder currently holds a record for, as A and AAAA
					queries := queries[:len(queries):len(queries)]
					held := map[string]bool{}
					for _, mp := range []string{"dnsMap4", "dnsMap6"} {
						for name := range desc[mp].(map[string]string) {
							held[name] = true
						}
					}
					for name := range held {
						for _, ty := range []uint16{dns.TypeA, dns.TypeAAAA} {
							queries = append(queries, c44Query{0, dns.OpcodeQuery, []c44Q{{name, ty}}}, c44Query{7, dns.OpcodeQuery, []c44Q{{strings.ToUpper(name), ty}}})
						}
					}
					var wg sync.WaitGroup
					var mu sync.Mutex
					next := 0
					for wk := 0; wk < runtime.GOMAXPROCS(0); wk++ {
						wg.Add(1)
						go func() {
							defer wg.Done()
							for {
								mu.Lock()
								i := next
								next += 64
								mu.Unlock()
								if i >= len(queries) {
									return
								}
								for j := i; j < i+64 && j < len(queries); j++ {
									w.judge(queries[j], st, descFn)
								}
							}
						}()
					}
					wg.Wait()
					judgedMu.Lock()
					queriesRun += int64(len(queries))
					judgedMu.Unlock()
					if k2 := w.key(); k2 != key {
						c.Violation("answering queries changed the responder's state", map[string]any{"history": w.hist, "before": key, "after": k2})
					}
					st.inc("states-with-known-names=" + fmt.Sprint(len(w.known) > 0))
					if len(w.hist) <= 2 || len(judged)%50 == 0 {
						c.Sample(map[string]any{"config": cfg.Name, "history": append([]string{}, w.hist...), "dns_state": desc})
					}
				}
				// BFS identity = what is judged + what the network and the peers remember (that decides later events)
				return key + "|" + w.netKey(dupSet), w.menu(alphabet, holdPeers, dupPeers)
			},
		})
		perCfg[cfg.Name] = map[string]any{"states": res.States, "transitions": res.Transitions, "max_depth": res.MaxDepth}
	}
	c.Set("configs", perCfg)
	c.Set("queries_judged", queriesRun)
	c.Set("states_judged", len(judged))
	c.Set("guards", st.n)
	c.Set("explanation", "states = distinct (responder-visible state, oracle sets) reached by real handshake/close/reload histories up to the stated depth; in each distinct state the whole query product is answered by the real handler and judged; transitions = histories replayed on fresh real nodes. The depth cap is the stated bound.")

	c.Assume("'completed a handshake' = a tunnel with that certificate appeared in the lighthouse's main hostmap (certificate verification itself is C05/C09); certificates of closed tunnels remain 'peers it has completed handshakes with'")
	c.Assume("a handshake whose first message the lighthouse refuses after verifying its certificate (too old for the tunnel it holds for that address, retransmit of an answered message) is not a completed handshake: no tunnel with that certificate appears and no new reply is produced; decided from hostmap and wire, not from the DNS tables")
	c.Assume("a name is 'known' when its certificate's handshake completed while the responder was enabled and the records were not cleared by a disable since (or it is the responder's own name while enabled); names of earlier handshakes are neither required to resolve nor forbidden to")
	c.Assume("with several questions NXDOMAIN is only objected to when every question names a known name (weak reading); NXDOMAIN is never required")
	c.Assume("names are matched ASCII-case-insensitively; certificate names of the alphabet are plain ASCII host names")
	c.Assume("TXT payload is compared with the certificate's JSON modulo the quoting of the zone-file parser the responder uses to build the record")

	if c.Violations() == 0 && !c.OutOfTime() {
		for _, k := range []string{"answer:A", "answer:AAAA", "known:answered", "known:answered:mixed-case-query", "known:nodata:A", "known:nodata:AAAA", "unknown:nxdomain",
			"rcode:NXDOMAIN", "rcode:NOERROR", "states-with-known-names=true", "states-with-known-names=false"} {
			c.Require(st.n[k] > 0, "guard %q never occurred: %v", k, st.n)
		}
		txt := int64(0)
		for k, v := range st.n {
			if strings.HasPrefix(k, "answer:TXT:") {
				txt += v
			}
		}
		c.Require(txt > 0, "no TXT answer was ever produced: %v", st.n)
		// the handshakes that are refused AFTER their certificate verified really occurred, next to accepted ones
		for _, k := range []string{
			"c44_first messages delayed",
			"c44_delayed first message: accepted (new tunnel, reply sent)",
			"c44_delayed first message: refused after certificate verification, no reply",
			"c44_delayed first message: refused while the address's tunnel carries another peer's certificate",
			"c44_duplicated first message: refused: already answered, the earlier reply was sent again",
		} {
			c.Require(c.Counter(k).Load() > 0, "network event outcome %q never occurred", k)
		}
		c.Require(c.DistinctCount("outcomes") >= 8, "only %d distinct outcomes", c.DistinctCount("outcomes"))
	}
}
