//go:build verif

package nebula

import (
	"bytes"
	"encoding/binary"
	"errors"
	"fmt"
	"log/slog"
	"net/netip"
	"reflect"
	"sync"
	"sync/atomic"
	"testing"
	"time"

	"github.com/slackhq/nebula/cert"
	ct "github.com/slackhq/nebula/cert_test"
	"github.com/slackhq/nebula/handshake"
	"github.com/slackhq/nebula/header"
	"github.com/slackhq/nebula/noiseutil"
	"github.com/slackhq/nebula/zzverif/mc"
)

// C06 — completed handshakes agree on keys and indexes.
//
// Bounded-exhaustive enumeration (E3) of real IX sessions: cipher x curve x (initiator credential configuration) x
// (responder credential configuration) x (initiator index, responder index). Every session is the real
// handshake.Machine on both sides, the real pki.go cipher-suite constructor, the real noiseutil data-plane cipher
// wrappers and the real newConnectionStateFromResult. The oracle is the statement transcribed: a 4x4 key-pairing
// matrix (each side's sending key opens ONLY under the other side's receiving key), cross-equal indexes, equal message
// counts, non-zero local indexes, plus the DESIGN's connection-state seeding clause (counters 1..MessageIndex refused,
// MessageIndex+1 accepted). A second part interleaves two concurrent sessions between the same peers in every order
// ("schedules") and checks that keys pair inside a session and never across sessions.

type c06Peer struct {
	name  string
	creds map[cert.Version]*handshake.Credential
}

type c06Cfg struct {
	def   cert.Version   // version the Machine is created with
	avail []cert.Version // credentials available
}

func (c c06Cfg) String() string { return fmt.Sprintf("v%d/have%v", c.def, c.avail) }

type c06World struct {
	curve  cert.Curve
	cipher string
	pool   *cert.CAPool
	a, b   c06Peer // all versions; per-session views restrict `avail`
}

func c06Mint(curve cert.Curve, cipher string) (*c06World, error) {
	before := time.Now().Add(-time.Hour)
	after := time.Now().Add(48 * time.Hour)
	ca1, _, ca1Key, _ := ct.NewTestCaCert(cert.Version1, curve, before, after, nil, nil, nil)
	ca2, _, ca2Key, _ := ct.NewTestCaCert(cert.Version2, curve, before, after, nil, nil, nil)
	w := &c06World{curve: curve, cipher: cipher, pool: ct.NewTestCAPool(ca1, ca2)}
	ncs, err := newCipherSuite(curve, false, cipher, false) // the real pki.go mapping curve/cipher -> noise suite
	if err != nil {
		return nil, err
	}
	mk := func(name, addr string) (c06Peer, error) {
		c1, _, keyPEM, _ := ct.NewTestCert(cert.Version1, curve, ca1, ca1Key, name, before, after, []netip.Prefix{netip.MustParsePrefix(addr)}, nil, nil)
		priv, _, _, err := cert.UnmarshalPrivateKeyFromPEM(keyPEM)
		if err != nil {
			return c06Peer{}, err
		}
		c2, _ := ct.NewTestCertDifferentVersion(c1, cert.Version2, ca2, ca2Key)
		h1, err := c1.MarshalForHandshakes()
		if err != nil {
			return c06Peer{}, err
		}
		h2, err := c2.MarshalForHandshakes()
		if err != nil {
			return c06Peer{}, err
		}
		return c06Peer{name: name, creds: map[cert.Version]*handshake.Credential{
			cert.Version1: handshake.NewCredential(c1, h1, priv, ncs),
			cert.Version2: handshake.NewCredential(c2, h2, priv, ncs),
		}}, nil
	}
	if w.a, err = mk("c06-init", "10.6.0.1/24"); err != nil {
		return nil, err
	}
	if w.b, err = mk("c06-resp", "10.6.0.2/24"); err != nil {
		return nil, err
	}
	return w, nil
}

func (p c06Peer) view(cfg c06Cfg) handshake.GetCredentialFunc {
	return func(v cert.Version) *handshake.Credential {
		for _, a := range cfg.avail {
			if a == v {
				return p.creds[v]
			}
		}
		return nil
	}
}

type c06Session struct {
	w          *c06World
	icfg, rcfg c06Cfg
	iIdx, rIdx uint32
	im, rm     *handshake.Machine
	iAlloc     int
	rAlloc     int
	msg1, msg2 []byte
	ir, rr     *handshake.Result
	// alterations of the 16-byte outer header (it is not part of the Noise transcript) applied to the datagram in flight
	mut1, mut2 func(h []byte)
	note       string
}

func c06Altered(pkt []byte, f func(h []byte)) []byte {
	if f == nil || len(pkt) < header.Len {
		return pkt
	}
	out := append([]byte(nil), pkt...)
	f(out[:header.Len])
	return out
}

func (s *c06Session) desc() map[string]any {
	return map[string]any{"curve": s.w.curve.String(), "cipher": s.w.cipher, "initiator": s.icfg.String(), "responder": s.rcfg.String(),
		"initiator_index": s.iIdx, "responder_index": s.rIdx, "note": s.note}
}

// step k of a session: 0 = initiator builds stage 1, 1 = responder consumes it and answers, 2 = initiator consumes the answer.
func (s *c06Session) step(k int) error {
	verifier := func(c cert.Certificate) (*cert.CachedCertificate, error) {
		return s.w.pool.VerifyCertificate(time.Now(), c)
	}
	var err error
	switch k {
	case 0:
		s.im, err = handshake.NewMachine(s.icfg.def, s.w.a.view(s.icfg), verifier, func() (uint32, error) { s.iAlloc++; return s.iIdx, nil }, true, header.HandshakeIXPSK0)
		if err != nil {
			return err
		}
		s.msg1, err = s.im.Initiate(nil)
		return err
	case 1:
		s.rm, err = handshake.NewMachine(s.rcfg.def, s.w.b.view(s.rcfg), verifier, func() (uint32, error) { s.rAlloc++; return s.rIdx, nil }, false, header.HandshakeIXPSK0)
		if err != nil {
			return err
		}
		s.msg2, s.rr, err = s.rm.ProcessPacket(nil, c06Altered(s.msg1, s.mut1))
		if err == nil && (s.rr == nil || len(s.msg2) == 0) {
			return errors.New("responder returned neither an error nor (result, response)")
		}
		return err
	default:
		var out []byte
		out, s.ir, err = s.im.ProcessPacket(nil, c06Altered(s.msg2, s.mut2))
		if err == nil && (s.ir == nil || out != nil) {
			return errors.New("initiator returned neither an error nor a bare result")
		}
		return err
	}
}

type c06Key struct {
	name string
	cs   noiseutil.CipherState
}

// c06Opens reports whether a packet sealed with `from` at nonce n authenticates under `to`.
func c06Opens(from, to noiseutil.CipherState, n uint64, mark byte) (bool, error) {
	ad := []byte{0x11, 0, 0, 0, 0, 0, 0, 1, 0, 0, 0, 0, 0, 0, 0, mark}
	pt := []byte{'c', '0', '6', mark, byte(n), byte(n >> 8)}
	sealed, err := from.EncryptDanger(nil, ad, pt, n, make([]byte, 12))
	if err != nil {
		return false, err
	}
	got, err := to.DecryptDanger(nil, ad, sealed, n, make([]byte, 12))
	if err != nil {
		return false, nil
	}
	if !bytes.Equal(got, pt) {
		return false, fmt.Errorf("authenticated but plaintext differs")
	}
	return true, nil
}

// c06CheckPair evaluates the statement on a completed pair of results. sig prefixes name WHAT fails.
func c06CheckPair(c *mc.Check, s *c06Session, l *slog.Logger) {
	ir, rr := s.ir, s.rr
	d := s.desc()
	if !ir.Initiator || rr.Initiator {
		c.Violation("Result.Initiator flag wrong", d)
	}
	// indexes
	if ir.LocalIndex == 0 || rr.LocalIndex == 0 {
		c.Violation("a completed side reports local index 0", d)
	}
	if ir.LocalIndex != s.iIdx || rr.LocalIndex != s.rIdx {
		c.Violation("LocalIndex is not the value the side's allocator returned", map[string]any{"session": d, "init_local": ir.LocalIndex, "resp_local": rr.LocalIndex})
	}
	if ir.RemoteIndex != rr.LocalIndex {
		c.Violation("initiator RemoteIndex != responder LocalIndex", map[string]any{"session": d, "init_remote": ir.RemoteIndex, "resp_local": rr.LocalIndex})
	}
	if rr.RemoteIndex != ir.LocalIndex {
		c.Violation("responder RemoteIndex != initiator LocalIndex", map[string]any{"session": d, "resp_remote": rr.RemoteIndex, "init_local": ir.LocalIndex})
	}
	if s.iAlloc != 1 || s.rAlloc != 1 {
		c.Violation("index allocator not called exactly once per side", map[string]any{"session": d, "init_calls": s.iAlloc, "resp_calls": s.rAlloc})
	}
	// message count
	if ir.MessageIndex != rr.MessageIndex {
		c.Violation("the two sides report different message counts", map[string]any{"session": d, "init": ir.MessageIndex, "resp": rr.MessageIndex})
	}
	if ir.MessageIndex != 2 {
		c.Violation("IX session does not report 2 messages", map[string]any{"session": d, "init": ir.MessageIndex})
	}
	if ir.HandshakeTime == 0 || rr.HandshakeTime == 0 {
		c.Violation("HandshakeTime not carried", d)
	}
	// each side sees the other's certificate, at the version the other side actually sent
	if ir.RemoteCert == nil || rr.RemoteCert == nil || ir.MyCert == nil || rr.MyCert == nil {
		c.Violation("completed result lacks a certificate", d)
		return
	}
	if !bytes.Equal(ir.RemoteCert.Certificate.PublicKey(), rr.MyCert.PublicKey()) || ir.RemoteCert.Certificate.Version() != rr.MyCert.Version() ||
		!bytes.Equal(rr.RemoteCert.Certificate.PublicKey(), ir.MyCert.PublicKey()) || rr.RemoteCert.Certificate.Version() != ir.MyCert.Version() {
		c.Violation("RemoteCert of one side is not MyCert of the other", d)
	}

	// key pairing matrix on the data-plane wrappers the tunnel uses
	keys := []c06Key{
		{"init.E", noiseutil.NewCipherState(ir.EKey, ir.Cipher)},
		{"init.D", noiseutil.NewCipherState(ir.DKey, ir.Cipher)},
		{"resp.E", noiseutil.NewCipherState(rr.EKey, rr.Cipher)},
		{"resp.D", noiseutil.NewCipherState(rr.DKey, rr.Cipher)},
	}
	// want[from][to]: a sending key opens under itself (same AEAD key, trivially) and under the peer's receiving key only
	want := map[string]map[string]bool{
		"init.E": {"init.E": true, "resp.D": true},
		"resp.E": {"resp.E": true, "init.D": true},
	}
	for _, n := range []uint64{3, 1 << 33} {
		for _, from := range keys {
			if want[from.name] == nil {
				continue
			}
			for _, to := range keys {
				ok, err := c06Opens(from.cs, to.cs, n, 0)
				if err != nil {
					c.Violation("data-plane cipher wrapper failed: "+err.Error(), d)
					continue
				}
				if ok != want[from.name][to.name] {
					what := "does not open under"
					if ok {
						what = "opens under"
					}
					c.Violation(fmt.Sprintf("traffic sealed with %s %s %s", from.name, what, to.name), map[string]any{"session": d, "nonce": n})
				}
			}
		}
	}

	// ConnectionState built by the real constructor: seeds counter and replay window
	ics, err1 := newConnectionStateFromResult(ir)
	rcs, err2 := newConnectionStateFromResult(rr)
	if err1 != nil || err2 != nil {
		c.Violation("newConnectionStateFromResult refuses a completed IX result", map[string]any{"session": d, "err_init": fmt.Sprint(err1), "err_resp": fmt.Sprint(err2)})
		return
	}
	for _, dir := range []struct {
		name     string
		from, to *ConnectionState
		mi       uint64
	}{{"init->resp", ics, rcs, ir.MessageIndex}, {"resp->init", rcs, ics, rr.MessageIndex}} {
		seal := func(ctr uint64) []byte {
			pkt := make([]byte, header.Len, header.Len+64)
			header.Encode(pkt, header.Version, header.Message, 0, 7, ctr)
			out, err := dir.from.eKey.EncryptDanger(pkt, pkt[:header.Len], []byte("payload"), ctr, make([]byte, 12))
			if err != nil {
				c.Violation("eKey.EncryptDanger failed on a fresh tunnel", d)
			}
			return out
		}
		// handshake counters 1..MessageIndex must be refused by the receiver, even when correctly sealed
		for ctr := uint64(1); ctr <= dir.mi; ctr++ {
			if _, err := c06Decrypt(dir.to, l, ctr, seal(ctr), make([]byte, 12)); !errors.Is(err, ErrAlreadySeen) {
				c.Violation(fmt.Sprintf("fresh tunnel accepts data counter %d <= handshake message count (%s)", ctr, dir.name), map[string]any{"session": d, "err": fmt.Sprint(err)})
			}
		}
		next, ok := dir.from.NextMessageCounter()
		if !ok || next != dir.mi+1 {
			c.Violation("first data counter is not MessageIndex+1", map[string]any{"session": d, "dir": dir.name, "got": next, "want": dir.mi + 1})
		}
		pt, err := c06Decrypt(dir.to, l, dir.mi+1, seal(dir.mi+1), make([]byte, 12))
		if err != nil || string(pt) != "payload" {
			c.Violation(fmt.Sprintf("fresh tunnel refuses the first data packet (counter MessageIndex+1, %s)", dir.name), map[string]any{"session": d, "err": fmt.Sprint(err)})
		}
		if _, err := c06Decrypt(dir.to, l, dir.mi+1, seal(dir.mi+1), make([]byte, 12)); !errors.Is(err, ErrAlreadySeen) {
			c.Violation("fresh tunnel accepts the first data packet twice", map[string]any{"session": d, "dir": dir.name})
		}
		// and the sender's own receive side must not open its own traffic
		if _, err := c06Decrypt(dir.from, l, dir.mi+2, seal(dir.mi+2), make([]byte, 12)); err == nil {
			c.Violation("a side decrypts its own outbound traffic ("+dir.name+")", d)
		}
	}
	if ics.initiator != true || rcs.initiator != false {
		c.Violation("ConnectionState.initiator flag wrong", d)
	}
}

func TestVerifC06(t *testing.T) {
	c := mc.Begin(t, "C06", "exploration")
	defer c.End()
	l := slog.New(slog.DiscardHandler)

	cfgs := []c06Cfg{
		{cert.Version1, []cert.Version{cert.Version1}},
		{cert.Version2, []cert.Version{cert.Version2}},
		{cert.Version1, []cert.Version{cert.Version1, cert.Version2}},
		{cert.Version2, []cert.Version{cert.Version1, cert.Version2}},
	}
	idxQuick := []uint32{1, 2, 0x7fffffff, 0x80000000, 0xffffffff}
	idxThorough := []uint32{1, 2, 3, 127, 128, 255, 256, 0xffff, 0x10000, 0x7fffffff, 0x80000000, 0xfffffffe, 0xffffffff, 0xdeadbeef}
	for sh := uint(4); sh < 32; sh += 2 { // thorough: every second power of two and its predecessor
		idxThorough = append(idxThorough, 1<<sh+1, 1<<sh-2)
	}
	idx := mc.Pick(c, idxQuick, idxThorough)

	type combo struct {
		curve  cert.Curve
		cipher string
	}
	combos := []combo{{cert.Curve_CURVE25519, "aes"}, {cert.Curve_CURVE25519, "chachapoly"}, {cert.Curve_P256, "aes"}, {cert.Curve_P256, "chachapoly"}}
	worlds := make([]*c06World, len(combos))
	for i, cb := range combos {
		w, err := c06Mint(cb.curve, cb.cipher)
		if err != nil {
			c.Broken("mint %v: %v", cb, err)
		}
		worlds[i] = w
	}

	var mu sync.Mutex
	versionsSeen := map[string]int64{} // "init sent vX, resp answered vY"
	switched := int64(0)

	// Part 1: every session of the box, both sides run to completion
	perWorld := len(cfgs) * len(cfgs) * len(idx) * len(idx)
	runs, complete := mc.ParallelItems(len(worlds)*len(cfgs)*len(cfgs), 0, c.OutOfTime, func(item int, e *mc.Enum) {
		w := worlds[item/(len(cfgs)*len(cfgs))]
		icfg := cfgs[(item/len(cfgs))%len(cfgs)]
		rcfg := cfgs[item%len(cfgs)]
		s := &c06Session{w: w, icfg: icfg, rcfg: rcfg, iIdx: mc.PickOf(e, idx), rIdx: mc.PickOf(e, idx)}
		for k := 0; k < 3; k++ {
			if err := s.step(k); err != nil {
				// every configuration of the box has mutually trusted certificates: a session that does not complete
				// is outside the property's premise, and none is expected
				c.Violation(fmt.Sprintf("honest IX session does not complete (step %d)", k), map[string]any{"session": s.desc(), "err": err.Error()})
				return
			}
		}
		c.Add("evaluations", 1)
		c06CheckPair(c, s, l)
		tag := fmt.Sprintf("%s/%s init=%s resp=%s", w.curve, w.cipher, icfg, rcfg)
		c.Distinct("completed_configurations", tag)
		c.Distinct("sessions", fmt.Sprintf("%s i=%d r=%d", tag, s.iIdx, s.rIdx))
		mu.Lock()
		versionsSeen[fmt.Sprintf("stage1=v%d stage2=v%d", s.rr.RemoteCert.Certificate.Version(), s.ir.RemoteCert.Certificate.Version())]++
		if s.rr.MyCert.Version() != rcfg.def {
			switched++
		}
		mu.Unlock()
		if s.iIdx == s.rIdx {
			c.Add("sessions_with_equal_indexes", 1)
		}
		if s.iIdx == idx[len(idx)-1] && s.rIdx == idx[0] && icfg.def != rcfg.def {
			c.Sample(map[string]any{"session": s.desc(), "init_sees_cert_version": int(s.ir.RemoteCert.Certificate.Version()), "resp_sees_cert_version": int(s.rr.RemoteCert.Certificate.Version()),
				"init_local": s.ir.LocalIndex, "init_remote": s.ir.RemoteIndex, "resp_local": s.rr.LocalIndex, "resp_remote": s.rr.RemoteIndex, "message_index": s.ir.MessageIndex})
		}
	})
	if !complete {
		c.Capped("time budget (part 1)")
	}
	_ = runs

	// Part 1b: the same sessions with the unauthenticated outer header of either datagram altered in flight (message counter,
	// reserved bytes, remote-index field, subtype). The header is not covered by the Noise transcript, so such a session may
	// still complete on both sides — it is then "the same session" in the statement's sense and the full oracle applies.
	// A session that one side refuses is outside the premise and only counted.
	type hmut struct {
		name string
		f    func(h []byte)
	}
	var hmuts []hmut
	for _, v := range []uint64{0, 1, 2, 3, 7, 8191, 8192, 1 << 40, ^uint64(0)} {
		v := v
		hmuts = append(hmuts, hmut{fmt.Sprintf("counter=%d", v), func(h []byte) { binary.BigEndian.PutUint64(h[8:16], v) }})
	}
	for _, v := range []uint32{0, 1, 0xffffffff, 0xdeadbeef} {
		v := v
		hmuts = append(hmuts, hmut{fmt.Sprintf("remoteindex=%d", v), func(h []byte) { binary.BigEndian.PutUint32(h[4:8], v) }})
	}
	hmuts = append(hmuts, hmut{"reserved=ffff", func(h []byte) { h[2], h[3] = 0xff, 0xff }}, hmut{"subtype=1", func(h []byte) { h[1] = 1 }}, hmut{"subtype=255", func(h []byte) { h[1] = 255 }})
	var alteredCompleted, alteredRefused atomic.Int64
	_, complete1b := mc.ParallelItems(len(worlds)*len(cfgs)*len(cfgs), 0, c.OutOfTime, func(item int, e *mc.Enum) {
		w := worlds[item/(len(cfgs)*len(cfgs))]
		icfg := cfgs[(item/len(cfgs))%len(cfgs)]
		rcfg := cfgs[item%len(cfgs)]
		which := e.Choose(2) // 0: first datagram altered, 1: the answer altered
		hm := hmuts[e.Choose(len(hmuts))]
		s := &c06Session{w: w, icfg: icfg, rcfg: rcfg, iIdx: idx[1], rIdx: idx[len(idx)-1]}
		if which == 0 {
			s.mut1 = hm.f
		} else {
			s.mut2 = hm.f
		}
		for k := 0; k < 3; k++ {
			if err := s.step(k); err != nil {
				alteredRefused.Add(1)
				c.Distinct("altered_header_refused", fmt.Sprintf("datagram %d %s", which+1, hm.name))
				return
			}
		}
		alteredCompleted.Add(1)
		c.Add("evaluations", 1)
		c.Distinct("altered_header_completed", fmt.Sprintf("datagram %d %s", which+1, hm.name))
		s.note = fmt.Sprintf("outer header of datagram %d altered in flight: %s", which+1, hm.name)
		c06CheckPair(c, s, l)
	})
	if !complete1b {
		c.Capped("time budget (part 1b)")
	}
	c.Set("sessions_with_altered_outer_header_completed", alteredCompleted.Load())
	c.Set("sessions_with_altered_outer_header_refused", alteredRefused.Load())

	// Part 2: two concurrent sessions between the same peers, all interleavings of their 3+3 steps. Keys pair inside a
	// session; no key of session 1 opens traffic of session 2 (schedules dimension of the quantifier).
	var orders [][]int // sequences over {0,1} with three of each
	var gen func(p []int, n0, n1 int)
	gen = func(p []int, n0, n1 int) {
		if n0 == 3 && n1 == 3 {
			orders = append(orders, append([]int{}, p...))
			return
		}
		if n0 < 3 {
			gen(append(p, 0), n0+1, n1)
		}
		if n1 < 3 {
			gen(append(p, 1), n0, n1+1)
		}
	}
	gen(nil, 0, 0)
	crossCfgs := [][2]c06Cfg{{cfgs[1], cfgs[1]}, {cfgs[2], cfgs[3]}}
	if c.Thorough() {
		crossCfgs = nil
		for _, ic := range cfgs {
			for _, rc := range cfgs {
				crossCfgs = append(crossCfgs, [2]c06Cfg{ic, rc})
			}
		}
	}
	type job struct {
		w     *c06World
		cc    [2]c06Cfg
		order []int
	}
	var jobs []job
	for _, w := range worlds {
		for _, cc := range crossCfgs {
			for _, o := range orders {
				jobs = append(jobs, job{w, cc, o})
			}
		}
	}
	_, complete2 := mc.ParallelItems(len(jobs), 0, c.OutOfTime, func(item int, e *mc.Enum) {
		j := jobs[item]
		ss := [2]*c06Session{
			{w: j.w, icfg: j.cc[0], rcfg: j.cc[1], iIdx: 11, rIdx: 22},
			{w: j.w, icfg: j.cc[0], rcfg: j.cc[1], iIdx: 22, rIdx: 11},
		}
		next := [2]int{}
		for _, who := range j.order {
			if err := ss[who].step(next[who]); err != nil {
				c.Violation("honest IX session does not complete when interleaved with another session", map[string]any{"order": j.order, "session": ss[who].desc(), "err": err.Error()})
				return
			}
			next[who]++
		}
		c.Add("evaluations", 1)
		c.Add("interleaved_session_pairs", 1)
		for _, s := range ss {
			c06CheckPair(c, s, l)
		}
		// across sessions nothing pairs
		k := func(s *c06Session) []c06Key {
			return []c06Key{{"init.E", noiseutil.NewCipherState(s.ir.EKey, s.ir.Cipher)}, {"init.D", noiseutil.NewCipherState(s.ir.DKey, s.ir.Cipher)},
				{"resp.E", noiseutil.NewCipherState(s.rr.EKey, s.rr.Cipher)}, {"resp.D", noiseutil.NewCipherState(s.rr.DKey, s.rr.Cipher)}}
		}
		for _, from := range k(ss[0]) {
			for _, to := range k(ss[1]) {
				if ok, _ := c06Opens(from.cs, to.cs, 3, 1); ok {
					c.Violation(fmt.Sprintf("session-1 %s opens under session-2 %s", from.name, to.name), map[string]any{"order": j.order, "session": ss[0].desc()})
				}
			}
		}
		c.Distinct("sessions", fmt.Sprintf("interleaved %s/%s %v %v", j.w.curve, j.w.cipher, j.cc, j.order))
		if item == 7 {
			c.Sample(map[string]any{"interleaving_of_two_sessions": j.order, "session": ss[0].desc()})
		}
	})
	if !complete2 {
		c.Capped("time budget (part 2)")
	}

	// vacuity guards
	if c.Violations() == 0 && complete {
		c.Require(c.DistinctCount("completed_configurations") == len(worlds)*len(cfgs)*len(cfgs), "not every configuration completed: %d", c.DistinctCount("completed_configurations"))
		c.Require(int(c.Counter("evaluations").Load()) >= len(worlds)*perWorld, "fewer sessions than the box")
		c.Require(len(versionsSeen) == 4, "cert version combinations on the wire: %v (want all four of v1/v2 x v1/v2)", versionsSeen)
		c.Require(switched > 0, "no responder ever negotiated to the initiator's version")
		c.Require(c.Counter("sessions_with_equal_indexes").Load() > 0, "no session with equal indexes on both sides")
	}
	c.Set("distinct_nontrivial", c.DistinctCount("sessions"))
	c.Set("rule", "one evaluation = one real IX session (or interleaved pair of sessions) run to completion on both sides and judged by the full oracle; distinct = distinct (curve, cipher, initiator credentials, responder credentials, index pair | interleaving) tuple; every one is non-trivial because both sides completed (a non-completing session is reported)")
	c.Set("wire_cert_versions", versionsSeen)
	c.Set("responder_version_switches", switched)
	c.Set("index_alphabet", idx)
	c.Set("credential_configurations", fmt.Sprint(cfgs))
	c.Set("interleavings_per_pair", len(orders))
	c.Assume("index allocators are constant functions over a boundary alphabet (incl. equal values on both sides); the Machine calls an allocator once, so a constant covers every allocator behaviour it can observe")
	c.Assume("AEAD/DH primitives are trusted: 'opens' means authenticates under the real noiseutil wrapper at two nonces (3 and 2^33)")
	c.Assume("a sending key trivially opens under itself (same symmetric key); the statement's 'only' is read over the four result keys of the session and, in part 2, the keys of a concurrent session")
}

// c06Decrypt calls ConnectionState.Decrypt through reflection, filling the parameters by type (logger, counter, packet,
// nonce buffer; any extra bool parameter — e.g. "arrived inside a relay frame" — is passed as false): a change of the
// method's signature must not stop the harness from building.
func c06Decrypt(cs *ConnectionState, l *slog.Logger, counter uint64, pkt, nb []byte) ([]byte, error) {
	m := reflect.ValueOf(cs).MethodByName("Decrypt")
	mt := m.Type()
	var args []reflect.Value
	bytesSeen := 0
	for i := 0; i < mt.NumIn(); i++ {
		switch t := mt.In(i); {
		case t == reflect.TypeOf(l):
			args = append(args, reflect.ValueOf(l))
		case t.Kind() == reflect.Uint64:
			args = append(args, reflect.ValueOf(counter).Convert(t))
		case t.Kind() == reflect.Slice && t.Elem().Kind() == reflect.Uint8:
			if bytesSeen == 0 {
				args = append(args, reflect.ValueOf(pkt))
			} else {
				args = append(args, reflect.ValueOf(nb))
			}
			bytesSeen++
		default:
			args = append(args, reflect.Zero(t))
		}
	}
	res := m.Call(args)
	var out []byte
	var err error
	for _, r := range res {
		if b, ok := r.Interface().([]byte); ok {
			out = b
		} else if e, ok := r.Interface().(error); ok {
			err = e
		}
	}
	return out, err
}

