//go:build verif

package nebula

import (
	"bytes"
	"encoding/binary"
	"fmt"
	"net/netip"
	"os"
	"runtime"
	"sort"
	"strconv"
	"strings"
	"testing"
	"testing/cryptotest"
	"time"

	"github.com/slackhq/nebula/cert"
	"github.com/slackhq/nebula/header"
	"github.com/slackhq/nebula/zzverif/mc"
	"github.com/slackhq/nebula/zzverif/vtime"
)

// C39 — relays forward only for the pair they were set up for.
//
// Four REAL nodes: initiator I, relay-under-test R (am_relay true or false, fixed per history), target T and an outsider
// O; each of I, T, O holds a direct tunnel with R built by the real handshake. Explicit-state BFS (by replay) over
// histories of:
//   * every control-message kind (CreateRelayRequest / CreateRelayResponse) sent to R by every authenticated peer, with
//     RelayFrom/RelayTo drawn from ALL node addresses (R's own and addresses the sender does not own included), relay
//     indexes drawn from {fresh, the one R already recorded for that pair (duplicate / stale), another pair's, R's own},
//     in the v2 (Addr) and v1 (uint32) encodings; with R's reaction delivered loss-free or lost;
//   * honest traffic I->T, T->I, O->T (real StartRelays negotiation + handshake through the relay + data);
//   * tunnel teardown on each leg (peer closes / relay closes / relay silently forgets), re-handshake on each leg,
//     connection-manager ticks (relay migration, dead-tunnel deletion); when a leg has two tunnels (after a re-handshake
//     the older one lingers and still owns the relay slots, on R and on the endpoint) every teardown kind exists for the
//     primary and for the non-primary ("-2nd") tunnel, on R's side and on the peer's side;
//   * relayed data, authentically wrapped by every peer with every tunnel it holds with R (primary and lingering), on
//     every relay index R holds, on every index R held earlier in the history and no longer lists, and on an unknown index.
// Cast certificates: in the plain configurations every cast member's certificate carries its overlay address only. In
// the "routed" configurations one cast member (the outsider in quick; the outsider, the target or the initiator in
// thorough) holds a certificate with an UNSAFE (routed) network that covers the overlay address of every other cast
// member, R's included: every table R keeps about that peer except its own overlay addresses (HostInfo.networks, the
// firewall's routable networks) then says "this address is behind that peer", and all the crafted requests/responses
// above whose RelayFrom/RelayTo name another cast member are requests for an address the sender routes but does not own.
// Start states include an established pair one side of which asks the relay for the same relay AGAIN while the relay's
// question to the other side is lost (the relay's slot for that side is back to Requested and keeps the index of the earlier
// epoch), and an initiator with an established pair plus a half-open second pair.
// Every relay control message that is delivered to any node is opened with the receiver's tunnel key (ground truth: who sent
// it, what it says) and judged on its own: a slot that was Requested when the message arrived is Established afterwards only
// if this very message is the owner's confirmation of that slot.
// After EVERY event, on every node: relay-state transitions, hostMap.Relays ownership and every forwarded datagram are
// judged (see audit). The forwarding oracle uses ground truth only: who really sent the frame (whose tunnel key made the
// outer tag), which index it leaves on, and what the DESTINATION node itself recorded for that index.

// ---- world ------------------------------------------------------------------------------------------------------

type c39Cfg struct {
	amRelay bool
	ver     cert.Version
	routed  string // cast member whose certificate carries c39RoutedNet as an unsafe network ("" = all certificates plain)
}

// c39RoutedNet covers every cast member's overlay address (checked in c39New against what R really recorded).
const c39RoutedNet = "10.0.0.0/28"

func (c c39Cfg) String() string {
	s := fmt.Sprintf("am_relay=%v/cert-v%d", c.amRelay, c.ver)
	if c.routed != "" {
		s += fmt.Sprintf("/cert-of-%s-routes-%s", c.routed, c39RoutedNet)
	}
	return s
}

type c39Stats struct {
	transitions, noops, rebuilds, forwards, fwdByData, dataRefused, ctlRefused, ctlAccepted, slotDeaths, honestDelivered,
	migrations, spoofFinding, otherViolations, exactTransitions, probes, probesFormer, probesSecond, secondClosed, nonFinalDeletes,
	nonFinalDeletesWithSlots, fwdOnSecond, fwdOntoDropped int64
	// routed configurations: crafted control messages whose RelayFrom is an address the sender's certificate routes (unsafe
	// network) but does not own; honest packets delivered from / to the routed cast member
	reqCovered, reqCoveredRefused, reqCoveredEffect, respCovered, routedHonest, routedWorlds int64
	// per-message judgement of control messages (decoded with the receiver's tunnel key): messages decoded; Requested ->
	// Established steps judged against the very message that caused them; CreateRelayResponses that reached the relay from
	// ONE side of a pair while the relay's slot for the OTHER side was Requested (awaiting that side's own answer): all / those
	// where the waiting slot had been Established in an earlier epoch and still carries that epoch's index / those after which
	// the waiting slot was still Requested
	ctlDecoded, estByOwnerMsg, otherSideAnswered, otherSideAnsweredReReq, legKeptWaiting, pendingLegData int64
	// PeerRequested -> Established steps on the relay, by who sent the message that caused them: the slot's peer (the target of
	// the pair) / anybody else; crafted responses whose RelayTo names a pair the sender is no part of while the initiator's
	// tunnel holds a PeerRequested slot for that pair
	peerReqByTarget, peerReqByOther, respForOtherPair int64
	d1Seconds float64 // wall time at which the current job completed depth 1 (evidence only, sizing aid)
	stateSeen [4]int64
	trans     map[string]int64
}

type c39World struct {
	t     testing.TB
	c     *mc.Check
	st    *c39Stats
	cfg   c39Cfg
	net   *vnet
	nodes map[string]*vnode // i r t o
	names []string
	addr  map[string]netip.Addr
	who   map[netip.Addr]string

	fresh     uint32
	announced map[string]map[uint32]string // per peer: indexes it announced to R in crafted messages on its current leg -> peers it named
	marker    int

	// per event
	evEmitted   []vpkt
	evEmitSeq   []int
	evDelivered []vpkt
	evDelivSeq  []int
	seq         int
	lossR       bool
	hist        []string
	bad         bool
	origin      map[string]string // relayed payload -> node that first put it on the wire (retransmissions are not forwards)
	everR       []uint32          // every relay index R ever listed in this history, in order of first appearance
	everRSet    map[uint32]bool
	everSlot    map[string]map[uint32]netip.Addr // per node: every relay index it ever listed -> the peer it listed it for
	spoofed     []string // crafted requests with a RelayFromAddr the sender does not own that changed R's state
	curEv       string   // the event being executed (for per-message violations)
}

var c39Names = []string{"i", "r", "t", "o"}

// c39SpoofSig: the signature of the defect found on the unchanged tree (see proposed_fixes/C39-relayfrom-not-authenticated.md).
const c39SpoofSig = "a CreateRelayRequest whose RelayFromAddr is not the sender's own address re-binds another pair's relay slot; the relay then forwards that pair's traffic onto an index the target negotiated for the requester"

func (w *c39World) violation(sig string, detail map[string]any) {
	detail["history"] = append([]string{w.cfg.String()}, w.hist...)
	if sig == c39SpoofSig {
		w.st.spoofFinding++ // a state reached through the known defect is still explored
	} else if strings.HasPrefix(sig, "hostMap.Relays holds") {
		// the state is still probed with relayed data (what the stale index does to traffic gets its own signature)
		w.st.otherViolations++
	} else {
		w.bad = true
		w.st.otherViolations++
	}
	w.c.Violation("C39: "+sig, detail)
}

func c39New(t testing.TB, c *mc.Check, st *c39Stats, cfg c39Cfg) *c39World {
	ips := map[string]string{"i": "10.0.0.1", "r": "10.0.0.9", "t": "10.0.0.2", "o": "10.0.0.4"}
	udp := func(n string) string { return "192.0.2." + strings.TrimPrefix(ips[n], "10.0.0.") + ":4242" }
	var specs []vnodeSpec
	for _, n := range c39Names {
		ov := m{}
		shm := m{}
		if n == "r" {
			ov["relay"] = m{"am_relay": cfg.amRelay}
			for _, p := range []string{"i", "t", "o"} {
				shm[ips[p]] = []string{udp(p)}
			}
		} else {
			ov["relay"] = m{"use_relays": true}
			shm[ips["r"]] = []string{udp("r")}
		}
		ov["static_host_map"] = shm
		sp := vnodeSpec{Name: n, Networks: ips[n] + "/24", Udp: udp(n), Version: cfg.ver, Overrides: ov}
		if n == cfg.routed {
			sp.Unsafe = c39RoutedNet
		}
		specs = append(specs, sp)
	}
	net := c39Net(t, c.Seed(), specs)
	w := &c39World{t: t, c: c, st: st, cfg: cfg, net: net, nodes: map[string]*vnode{}, names: c39Names, addr: map[string]netip.Addr{}, who: map[netip.Addr]string{},
		fresh: 0x51000000, announced: map[string]map[uint32]string{}}
	for _, n := range c39Names {
		w.nodes[n] = net.node(n)
		w.addr[n] = net.node(n).vpnIP
		w.who[net.node(n).vpnIP] = n
	}
	w.teach()
	for _, n := range []string{"i", "t", "o"} {
		w.handshake(n)
	}
	for _, n := range []string{"i", "t", "o"} {
		if w.nodes[n].f.hostMap.QueryVpnAddr(w.addr["r"]) == nil || w.nodes["r"].f.hostMap.QueryVpnAddr(w.addr[n]) == nil {
			c.Broken("c39: leg %s-r not established", n)
		}
	}
	if cfg.routed != "" {
		// the world really has the claimed shape: R's own record of the routed peer says "its overlay address is its own,
		// every other cast member's address (mine included) is behind it"
		hi := w.nodes["r"].f.hostMap.QueryVpnAddr(w.addr[cfg.routed])
		if hi.networks == nil || len(hi.vpnAddrs) != 1 || hi.vpnAddrs[0] != w.addr[cfg.routed] {
			c.Broken("c39: R holds no routable-networks table for the routed peer %s (vpnAddrs %v)", cfg.routed, hi.vpnAddrs)
		}
		for _, n := range c39Names {
			nt, ok := hi.networks.Lookup(w.addr[n])
			if want := map[bool]NetworkType{true: NetworkTypeVPN, false: NetworkTypeUnsafe}[n == cfg.routed]; !ok || nt != want {
				c.Broken("c39: R's table for the routed peer %s says %v/%v for %s, want %v", cfg.routed, nt, ok, n, want)
			}
		}
		st.routedWorlds++
	}
	w.evEmitted, w.evDelivered = nil, nil
	w.everRSet = map[uint32]bool{}
	w.everSlot = map[string]map[uint32]netip.Addr{}
	return w
}

// second returns node n's non-primary tunnel with peer (after a re-handshake: the older, lingering one), or nil.
func (w *c39World) second(n *vnode, peer string) *HostInfo {
	hmap := n.f.hostMap
	hmap.RLock()
	defer hmap.RUnlock()
	hl := hmap.unlockedGetHostList(w.addr[peer])
	if len(hl) < 2 {
		return nil
	}
	return hl[1]
}

// noteR records the relay indexes R lists now (the probe later sends data on those that R dropped).
func (w *c39World) noteR() {
	for _, s := range w.slots(w.nodes["r"]) {
		if !w.everRSet[s.r.LocalIndex] {
			w.everRSet[s.r.LocalIndex] = true
			w.everR = append(w.everR, s.r.LocalIndex)
		}
	}
	for _, name := range w.names {
		if w.everSlot[name] == nil {
			w.everSlot[name] = map[uint32]netip.Addr{}
		}
		for _, s := range w.slots(w.nodes[name]) {
			w.everSlot[name][s.r.LocalIndex] = s.r.PeerAddr
		}
	}
}

// gone lists the relay indexes R listed earlier in the history and lists no more, in order of first appearance.
func (w *c39World) gone() []uint32 {
	cur := map[uint32]bool{}
	for _, s := range w.slots(w.nodes["r"]) {
		cur[s.r.LocalIndex] = true
	}
	var out []uint32
	for _, x := range w.everR {
		if !cur[x] {
			out = append(out, x)
		}
	}
	return out
}

// c39TB lets the world builder survive a flake of the shared node assembly on an oversubscribed machine ("lighthouse
// query worker did not exit": a goroutine-count wait loop that can time out under heavy load): the failure becomes a
// panic that c39Net recovers from, and the build is retried. Any other failure stays fatal.
type c39TB struct{ testing.TB }
type c39Retry struct{ msg string }

func (b c39TB) Fatalf(format string, args ...any) { panic(c39Retry{fmt.Sprintf(format, args...)}) }
func (b c39TB) Fatal(args ...any)                 { panic(c39Retry{fmt.Sprint(args...)}) }

// c39Net = vNewNet with randomness pinned exactly as vNewNet does it, retried on the assembly flake.
func c39Net(t testing.TB, seed int64, specs []vnodeSpec) (net *vnet) {
	// one P while the nodes are assembled: the goroutine the assembly waits for then runs on this very thread
	defer runtime.GOMAXPROCS(runtime.GOMAXPROCS(1))
	for attempt := 0; ; attempt++ {
		func() {
			defer func() {
				if r := recover(); r != nil {
					rt, ok := r.(c39Retry)
					if !ok {
						panic(r)
					}
					if attempt >= 3 || !strings.Contains(rt.msg, "did not exit") {
						t.Fatalf("%s", rt.msg)
					}
					runtime.Gosched()
					net = nil
				}
			}()
			vGetPKI()
			for _, sp := range specs {
				vGetPKI().leafFor(sp.Name, sp.Networks, sp.Unsafe, sp.Groups, sp.Version) // minted once, before randomness is pinned
			}
			if tt, ok := t.(*testing.T); ok {
				cryptotest.SetGlobalRandom(tt, uint64(seed)+1)
			}
			net = vNewNet(c39TB{t}, seed, specs...)
			net.tb = t
		}()
		if net != nil {
			return net
		}
	}
}

// teach = what a lighthouse would answer: I, T and O learn that the others are reachable through relay R.
func (w *c39World) teach() {
	for _, a := range []string{"i", "t", "o"} {
		for _, b := range []string{"i", "t", "o"} {
			if a != b {
				w.nodes[a].injectRelays(w.addr[b], []netip.Addr{w.addr["r"]})
			}
		}
	}
}

// handshake: node n (re-)handshakes with R, loss-free.
func (w *c39World) handshake(n string) {
	x := w.nodes[n]
	x.hm.StartHandshake(w.addr["r"], nil)
	x.settle()
	w.collect()
	w.run()
	for round := 0; round < 6 && x.f.hostMap.QueryVpnAddr(w.addr["r"]) == nil; round++ {
		vtime.Advance(100 * vtime.Millisecond)
		x.hsTick()
		w.collect()
		w.run()
	}
}

// ---- wire -------------------------------------------------------------------------------------------------------

func (w *c39World) collect() {
	before := len(w.net.inflight)
	w.net.collect()
	for _, p := range w.net.inflight[before:] {
		w.seq++
		w.evEmitted, w.evEmitSeq = append(w.evEmitted, p), append(w.evEmitSeq, w.seq)
	}
}

// run delivers everything in flight FIFO to quiescence. With lossR, what R emits is lost instead.
func (w *c39World) run() {
	for k := 0; k < 600 && len(w.net.inflight) > 0; k++ {
		p := w.net.inflight[0]
		w.net.inflight = w.net.inflight[1:]
		dst, ok := w.net.byUDP[p.To.Addr()]
		if !ok || (w.lossR && p.From == w.nodes["r"].udp) {
			continue
		}
		w.seq++
		w.evDelivered, w.evDelivSeq = append(w.evDelivered, p), append(w.evDelivSeq, w.seq)
		ctl := w.decodeCtl(dst, p) // before delivery: the tunnel it arrives on may not survive it
		var pre map[c39SlotID]Relay
		if ctl != nil {
			pre = w.slotsOn(dst)
		}
		dst.deliver(p.From, p.Data)
		if ctl != nil {
			w.judgeCtl(dst, ctl, pre)
		}
		w.collect()
	}
}

// c39Ctl: a relay control message as the RECEIVER's tunnel key opens it (ground truth: who really sent it and what it says;
// nothing of the relay manager is involved in reading it).
type c39Ctl struct {
	sender   string // the peer whose tunnel key authenticates the message
	resp     bool
	init     uint32 // InitiatorRelayIndex
	ridx     uint32 // ResponderRelayIndex
	from, to netip.Addr
}

func (c *c39Ctl) String() string {
	return fmt.Sprintf("%s from %s: relayFrom=%v relayTo=%v initiatorIndex=%#x responderIndex=%#x", map[bool]string{true: "CreateRelayResponse", false: "CreateRelayRequest"}[c.resp], c.sender, c.from, c.to, c.init, c.ridx)
}

func (w *c39World) decodeCtl(dst *vnode, p vpkt) *c39Ctl {
	var h header.H
	if len(p.Data) < header.Len+16 || h.Parse(p.Data) != nil || h.Type != header.Control {
		return nil
	}
	hmap := dst.f.hostMap
	hmap.RLock()
	hi := hmap.Indexes[h.RemoteIndex]
	hmap.RUnlock()
	if hi == nil || hi.ConnectionState == nil || hi.ConnectionState.dKey == nil {
		return nil
	}
	plain, err := hi.ConnectionState.dKey.DecryptDanger(nil, p.Data[:header.Len], p.Data[header.Len:], h.MessageCounter, make([]byte, 12))
	if err != nil {
		return nil
	}
	msg := &NebulaControl{}
	if msg.Unmarshal(plain) != nil || (msg.Type != NebulaControl_CreateRelayRequest && msg.Type != NebulaControl_CreateRelayResponse) {
		return nil
	}
	c := &c39Ctl{sender: w.peerName(hi), resp: msg.Type == NebulaControl_CreateRelayResponse, init: msg.InitiatorRelayIndex, ridx: msg.ResponderRelayIndex}
	u32 := func(x uint32) netip.Addr {
		var b [4]byte
		binary.BigEndian.PutUint32(b[:], x)
		return netip.AddrFrom4(b)
	}
	switch {
	case msg.OldRelayFromAddr > 0 || msg.OldRelayToAddr > 0:
		c.from, c.to = u32(msg.OldRelayFromAddr), u32(msg.OldRelayToAddr)
	case msg.RelayFromAddr != nil && msg.RelayToAddr != nil:
		c.from, c.to = protoAddrToNetAddr(msg.RelayFromAddr), protoAddrToNetAddr(msg.RelayToAddr)
	}
	w.st.ctlDecoded++
	return c
}

// slotsOn: every relay slot of one node, keyed like allSlots.
func (w *c39World) slotsOn(n *vnode) map[c39SlotID]Relay {
	out := map[c39SlotID]Relay{}
	for _, s := range w.slots(n) {
		out[c39SlotID{n.spec.Name, s.hi, s.r.LocalIndex}] = s.r
	}
	return out
}

// c39Confirms: does this control message, sent by the slot's owner, name the slot? Weak reading of "the owner confirmed":
// its CreateRelayResponse echoing the slot's index, or a CreateRelayRequest of its own that names the slot's pair - as the
// requester (relayFrom = itself, relayTo = the slot's peer: a simultaneous open) or in the form the relay passes a request
// on (relayFrom = the slot's peer, relayTo = the receiving node). The second form reaches a FORWARDING slot only when the
// owner crafts it (the terminal branch of the request handler does not look at the slot's type); the owner then announced
// an index of its own for that very pair, which is its own doing and is taken as its answer.
func c39Confirms(n *vnode, owner netip.Addr, sl Relay, c *c39Ctl) bool {
	if c.resp {
		return c.init == sl.LocalIndex
	}
	return (c.from == sl.PeerAddr && n.f.myVpnAddrsTable.Contains(c.to)) || (c.from == owner && c.to == sl.PeerAddr)
}

const c39EpochSig = "a Requested relay slot became Established on a control message that is not its owner's confirmation of that slot (the leg was re-established by the other side of the pair)"

// judgeCtl judges ONE delivered control message against the slots of the node that received it: a slot that was Requested
// when the message arrived (whatever index it still carries from an earlier epoch) may be Established afterwards only if
// this very message comes from the peer that owns the slot and names the slot.
func (w *c39World) judgeCtl(dst *vnode, c *c39Ctl, pre map[c39SlotID]Relay) {
	post := w.slotsOn(dst)
	name := dst.spec.Name
	for id, b := range pre {
		a, ok := post[id]
		if !ok || b.State != Requested || a.State != Established {
			continue
		}
		owner := w.peerName(id.hi)
		if c.sender == owner && c39Confirms(dst, w.addr[owner], b, c) {
			w.st.estByOwnerMsg++
			continue
		}
		w.violation(c39EpochSig, map[string]any{"node": name, "owner": owner, "before": vRelayStr(&b), "after": vRelayStr(&a), "message": c.String(), "event": w.curEv})
	}
	// observation (not judged, see the Assume line): who completes a PeerRequested slot
	for id, b := range pre {
		if a, ok := post[id]; ok && b.State == PeerRequested && a.State == Established {
			if c.sender == w.who[b.PeerAddr] {
				w.st.peerReqByTarget++
			} else {
				w.st.peerReqByOther++
			}
		}
	}
	if name == "r" && c.resp && w.who[c.to] != c.sender {
		for id, b := range pre {
			if b.State == PeerRequested && b.PeerAddr == c.to && w.peerName(id.hi) != c.sender {
				w.st.respForOtherPair++
			}
		}
	}
	// vacuity: one side of a pair answers the relay while the relay's slot for the other side awaits that side's own answer
	if name == "r" && c.resp {
		for id, s1 := range pre {
			if w.peerName(id.hi) != c.sender || s1.LocalIndex != c.init || s1.Type != ForwardingType {
				continue
			}
			for id2, s2 := range pre {
				if s2.Type != ForwardingType || s2.State != Requested || s2.PeerAddr != w.addr[c.sender] || len(id2.hi.vpnAddrs) == 0 || id2.hi.vpnAddrs[0] != s1.PeerAddr {
					continue
				}
				w.st.otherSideAnswered++
				if s2.RemoteIndex != 0 {
					w.st.otherSideAnsweredReReq++
				}
				if a, ok := post[id2]; ok && a.State == Requested {
					w.st.legKeptWaiting++
				}
			}
		}
	}
}

// ---- state views ------------------------------------------------------------------------------------------------

type c39SlotID struct {
	node string
	hi   *HostInfo
	idx  uint32
}

type c39SlotRef struct {
	hi   *HostInfo
	peer string // name of the hostinfo's peer ("?" unknown)
	rank int    // position in the peer's host list (0 = primary)
	r    Relay
}

func (w *c39World) peerName(hi *HostInfo) string {
	if len(hi.vpnAddrs) > 0 {
		if n, ok := w.who[hi.vpnAddrs[0]]; ok {
			return n
		}
	}
	return "?"
}

// hostinfos lists a node's live hostinfos in canonical order (peer name, then position in the peer's list).
func (w *c39World) hostinfos(n *vnode) []c39SlotRef {
	hmap := n.f.hostMap
	hmap.RLock()
	defer hmap.RUnlock()
	var out []c39SlotRef
	seen := map[*HostInfo]bool{}
	for _, pn := range w.names {
		for rank, hi := range hmap.unlockedGetHostList(w.addr[pn]) {
			if !seen[hi] {
				seen[hi] = true
				out = append(out, c39SlotRef{hi: hi, peer: pn, rank: rank})
			}
		}
	}
	var rest []*HostInfo
	for _, hi := range hmap.Indexes {
		if !seen[hi] {
			rest = append(rest, hi)
		}
	}
	sort.Slice(rest, func(i, j int) bool { return rest[i].localIndexId < rest[j].localIndexId })
	for _, hi := range rest {
		out = append(out, c39SlotRef{hi: hi, peer: w.peerName(hi), rank: 99})
	}
	return out
}

func c39SlotsOf(hi *HostInfo) []Relay {
	hi.relayState.RLock()
	out := make([]Relay, 0, len(hi.relayState.relayForByIdx))
	for _, r := range hi.relayState.relayForByIdx {
		out = append(out, *r)
	}
	hi.relayState.RUnlock()
	sort.Slice(out, func(i, j int) bool {
		a, b := out[i], out[j]
		if c := a.PeerAddr.Compare(b.PeerAddr); c != 0 {
			return c < 0
		}
		if a.Type != b.Type {
			return a.Type < b.Type
		}
		if a.State != b.State {
			return a.State < b.State
		}
		return a.LocalIndex < b.LocalIndex
	})
	return out
}

// slots lists every relay slot of a node in canonical order.
func (w *c39World) slots(n *vnode) []c39SlotRef {
	var out []c39SlotRef
	for _, h := range w.hostinfos(n) {
		for _, r := range c39SlotsOf(h.hi) {
			out = append(out, c39SlotRef{hi: h.hi, peer: h.peer, rank: h.rank, r: r})
		}
	}
	return out
}

func (w *c39World) allSlots() map[c39SlotID]Relay {
	out := map[c39SlotID]Relay{}
	for _, name := range w.names {
		for _, s := range w.slots(w.nodes[name]) {
			out[c39SlotID{name, s.hi, s.r.LocalIndex}] = s.r
		}
	}
	return out
}

// key: canonical structural state. Index values are renamed by order of first appearance; no key bytes, no counters.
func (w *c39World) key() string { return w.keyOf(false) }

// keyOf(raw=true) keeps the raw index values: used to decide whether an event really left the world untouched.
func (w *c39World) keyOf(raw bool) string {
	ren := map[uint32]int{}
	nm := func(x uint32) string {
		if x == 0 {
			return "0"
		}
		if raw {
			return fmt.Sprintf("#%x", x)
		}
		id, ok := ren[x]
		if !ok {
			id = len(ren) + 1
			ren[x] = id
		}
		return fmt.Sprintf("#%d", id)
	}
	var sb strings.Builder
	for _, name := range w.names {
		n := w.nodes[name]
		sb.WriteString(name + "{")
		owner := map[*HostInfo]string{}
		for _, h := range w.hostinfos(n) {
			id := fmt.Sprintf("%s.%d", h.peer, h.rank)
			owner[h.hi] = id
			fmt.Fprintf(&sb, "%s[", id)
			if name == "r" {
				fmt.Fprintf(&sb, "pd%v ", h.hi.pendingDeletion.Load())
			}
			fmt.Fprintf(&sb, "rem%v via%v", h.hi.GetRemote().IsValid(), h.hi.relayState.CopyRelayIps())
			for _, r := range c39SlotsOf(h.hi) {
				fmt.Fprintf(&sb, " (%s t%d s%d L%s R%s)", w.who[r.PeerAddr]+r.PeerAddr.String(), r.Type, r.State, nm(r.LocalIndex), nm(r.RemoteIndex))
			}
			sb.WriteString("]")
		}
		hmap := n.f.hostMap
		hmap.RLock()
		var rel []string
		for idx, hi := range hmap.Relays {
			o, ok := owner[hi]
			if !ok {
				o = "DEAD"
			}
			rel = append(rel, nm(idx)+"->"+o)
		}
		hmap.RUnlock()
		sort.Strings(rel)
		fmt.Fprintf(&sb, " R%v P%v", rel, n.pendingAddrs())
		sb.WriteString("}")
	}
	return sb.String()
}

// ---- events -----------------------------------------------------------------------------------------------------

type c39Ev struct {
	K    string // req resp data honest close closeR silentR silent (each also "-2nd") rehs rehsR tickR tickAll
	S    string // acting peer (sender of the control message / data frame, peer of the leg)
	From string // claimed RelayFromAddr (node name)
	To   string // claimed RelayToAddr / honest destination
	Idx  int    // req: 0 fresh, 1 the index R recorded for (S,To), 2 an index R recorded for another pair, 3 one of R's own local indexes
	//              resp: ordinal of R's slot whose local index is echoed as InitiatorRelayIndex, -1 = unknown index
	//              data: ordinal of R's slot whose local index the frame carries, -1 = unknown index
	Ridx int  // resp: 0 fresh ResponderRelayIndex, 1 the sender's real local index for a slot with peer From
	V1   bool // v1 encoding (OldRelay*Addr)
	Loss bool // R's reaction is lost
	Gone int  // data: k>0 = the frame carries the k-th relay index that R listed earlier and lists no more (Idx unused)
	Old  bool // data: the frame is wrapped with the sender's non-primary (lingering) tunnel with R
}

func (e c39Ev) String() string {
	switch e.K {
	case "req":
		return fmt.Sprintf("req:%s(from=%s,to=%s,idx=%s%s%s)", e.S, e.From, e.To, []string{"fresh", "recorded", "other-pair", "relay-own"}[e.Idx], map[bool]string{true: ",v1"}[e.V1], map[bool]string{true: ",reaction-lost"}[e.Loss])
	case "resp":
		return fmt.Sprintf("resp:%s(from=%s,to=%s,init=slot%d,ridx=%s%s)", e.S, e.From, e.To, e.Idx, []string{"fresh", "own"}[e.Ridx], map[bool]string{true: ",v1"}[e.V1])
	case "data":
		via := map[bool]string{true: ",wrapped-with-2nd-tunnel"}[e.Old]
		if e.Gone > 0 {
			return fmt.Sprintf("data:%s(former-index%d%s)", e.S, e.Gone, via)
		}
		return fmt.Sprintf("data:%s(slot%d%s)", e.S, e.Idx, via)
	case "honest":
		return fmt.Sprintf("honest:%s->%s", e.S, e.To)
	}
	return e.K + ":" + e.S
}

func c39U32(a netip.Addr) uint32 { b := a.As4(); return binary.BigEndian.Uint32(b[:]) }

func (w *c39World) sendCtl(s string, msg *NebulaControl) bool {
	x := w.nodes[s]
	hi := x.f.hostMap.QueryVpnAddr(w.addr["r"])
	if hi == nil || hi.ConnectionState == nil {
		return false
	}
	b, err := msg.Marshal()
	if err != nil {
		w.c.Broken("c39: marshal: %v", err)
	}
	x.f.SendMessageToHostInfo(header.Control, 0, hi, b, make([]byte, 12), make([]byte, mtu))
	w.collect()
	return true
}

func (w *c39World) announce(s string, idx uint32, forPeer string) {
	if w.announced[s] == nil {
		w.announced[s] = map[uint32]string{}
	}
	w.announced[s][idx] += forPeer + ","
}

// reqIndex resolves the index selector of a crafted request against R's CURRENT state (so that the menu is a function
// of the state).
func (w *c39World) reqIndex(e c39Ev) (uint32, bool) {
	rs := w.slots(w.nodes["r"])
	switch e.Idx {
	case 0:
		w.fresh++
		return w.fresh, true
	case 1:
		for _, s := range rs {
			if s.peer == e.S && s.rank == 0 && s.r.PeerAddr == w.addr[e.To] && s.r.RemoteIndex != 0 {
				return s.r.RemoteIndex, true
			}
		}
	case 2:
		for _, s := range rs {
			if !(s.peer == e.S && s.r.PeerAddr == w.addr[e.To]) && s.r.RemoteIndex != 0 {
				return s.r.RemoteIndex, true
			}
		}
	case 3:
		for _, s := range rs {
			return s.r.LocalIndex, true
		}
	}
	return 0, false
}

func (w *c39World) payload() []byte {
	w.marker++
	p := header.Encode(make([]byte, 0, 64), header.Version, header.Message, header.MessageNone, 0xdeadbeef, 1)
	p = append(p, []byte(fmt.Sprintf("c39-DATA-%07d", w.marker))...)
	return append(p, make([]byte, 16)...)
}

// apply executes one event; dirty=true means the world must not be reused for a sibling event even if its key is unchanged.
func (w *c39World) apply(e c39Ev) (dirty bool) {
	w.hist = append(w.hist, e.String())
	w.curEv = e.String()
	w.evEmitted, w.evDelivered, w.evEmitSeq, w.evDelivSeq = nil, nil, nil, nil
	before := w.allSlots()
	keyBefore := ""
	if e.K == "req" || e.K == "resp" {
		keyBefore = w.key()
	}
	r := w.nodes["r"]
	w.lossR = e.Loss
	covered := false // a crafted control message was sent whose RelayFrom the sender's certificate routes but does not own
	switch e.K {
	case "req", "resp":
		msg := &NebulaControl{Type: NebulaControl_CreateRelayRequest}
		ok := true
		if e.K == "req" {
			msg.InitiatorRelayIndex, ok = w.reqIndex(e)
			if ok {
				w.announce(e.S, msg.InitiatorRelayIndex, e.To)
			}
		} else {
			msg.Type = NebulaControl_CreateRelayResponse
			rs := w.slots(r)
			if e.Idx >= 0 && e.Idx < len(rs) {
				msg.InitiatorRelayIndex = rs[e.Idx].r.LocalIndex
			} else if e.Idx == -1 {
				w.fresh++
				msg.InitiatorRelayIndex = w.fresh
			} else {
				ok = false
			}
			if e.Ridx == 1 {
				ok = false
				if hi := w.nodes[e.S].f.hostMap.QueryVpnAddr(w.addr["r"]); hi != nil {
					if own, has := hi.relayState.QueryRelayForByIp(w.addr[e.From]); has {
						msg.ResponderRelayIndex, ok = own.LocalIndex, true
					}
				}
			} else {
				w.fresh++
				msg.ResponderRelayIndex = w.fresh
			}
			if ok {
				w.announce(e.S, msg.ResponderRelayIndex, e.From)
			}
		}
		if e.V1 {
			msg.OldRelayFromAddr, msg.OldRelayToAddr = c39U32(w.addr[e.From]), c39U32(w.addr[e.To])
		} else {
			msg.RelayFromAddr, msg.RelayToAddr = netAddrToProtoAddr(w.addr[e.From]), netAddrToProtoAddr(w.addr[e.To])
		}
		sent := ok && w.sendCtl(e.S, msg)
		if sent {
			w.run()
		}
		covered = sent && w.cfg.routed == e.S && e.From != e.S
	case "data":
		x := w.nodes[e.S]
		hi := x.f.hostMap.QueryVpnAddr(w.addr["r"])
		if e.Old {
			hi = w.second(x, "r")
		}
		rs := w.slots(r)
		idx := uint32(0x7e57da7a)
		if g := w.gone(); e.Gone > 0 {
			if e.Gone <= len(g) {
				idx = g[e.Gone-1]
			}
		} else if e.Idx >= 0 && e.Idx < len(rs) {
			idx = rs[e.Idx].r.LocalIndex
		}
		if hi != nil && hi.ConnectionState != nil {
			x.f.SendVia(hi, &Relay{RemoteIndex: idx}, w.payload(), make([]byte, 12), make([]byte, mtu), false, 0)
			w.collect()
			w.run()
		}
	case "honest":
		dirty = true
		w.teach()
		x, y := w.nodes[e.S], w.nodes[e.To]
		got := len(w.net.tunLog[e.To])
		x.tunSend(vUDPPacket(x.vpnIP, y.vpnIP, 1000, 2000, []byte(fmt.Sprintf("c39-honest-%d", len(w.hist)))))
		w.collect()
		for round := 0; round < 14; round++ {
			w.run()
			if len(w.net.tunLog[e.To]) > got {
				w.st.honestDelivered++
				if w.cfg.routed != "" && (w.cfg.routed == e.S || w.cfg.routed == e.To) {
					w.st.routedHonest++
				}
				break
			}
			vtime.Advance(100 * vtime.Millisecond)
			for _, name := range w.names {
				w.nodes[name].hsTick()
			}
			w.collect()
		}
	case "close": // the peer closes its tunnel with R and says so
		dirty = true
		x := w.nodes[e.S]
		if hi := x.f.hostMap.QueryVpnAddr(w.addr["r"]); hi != nil {
			x.f.sendCloseTunnel(hi)
			x.f.closeTunnel(hi)
			w.collect()
			w.run()
		}
	case "closeR": // R closes its tunnel with the peer and says so
		dirty = true
		if hi := r.f.hostMap.QueryVpnAddr(w.addr[e.S]); hi != nil {
			r.f.sendCloseTunnel(hi)
			r.f.closeTunnel(hi)
			w.collect()
			w.run()
		}
	case "silentR": // R forgets the tunnel without telling anybody (what the dead-tunnel path of the connection manager does)
		dirty = true
		if hi := r.f.hostMap.QueryVpnAddr(w.addr[e.S]); hi != nil {
			r.f.closeTunnel(hi)
		}
	case "close-2nd": // the peer closes its NON-PRIMARY tunnel with R (the older one after a re-handshake) and says so
		dirty = true
		x := w.nodes[e.S]
		if hi := w.second(x, "r"); hi != nil {
			x.f.sendCloseTunnel(hi)
			x.f.closeTunnel(hi)
			w.st.secondClosed++
			w.collect()
			w.run()
		}
	case "silent-2nd": // the peer forgets its non-primary tunnel with R without telling (connection-manager deletion)
		dirty = true
		x := w.nodes[e.S]
		if hi := w.second(x, "r"); hi != nil {
			x.f.closeTunnel(hi)
			w.st.secondClosed++
		}
	case "closeR-2nd": // R closes its non-primary tunnel with the peer and says so
		dirty = true
		if hi := w.second(r, e.S); hi != nil {
			r.f.sendCloseTunnel(hi)
			r.f.closeTunnel(hi)
			w.st.secondClosed++
			w.collect()
			w.run()
		}
	case "silentR-2nd": // R forgets its non-primary tunnel with the peer without telling
		dirty = true
		if hi := w.second(r, e.S); hi != nil {
			r.f.closeTunnel(hi)
			w.st.secondClosed++
		}
	case "rehs": // the peer handshakes again with R (a second tunnel appears, the old one lingers)
		dirty = true
		w.handshake(e.S)
	case "rehsR":
		dirty = true
		r.hm.StartHandshake(w.addr[e.S], nil)
		r.settle()
		w.collect()
		w.run()
	case "tickR":
		dirty = true
		vtime.Advance(2500 * vtime.Millisecond)
		r.cmTick()
		w.collect()
		w.run()
	case "tickAll":
		dirty = true
		vtime.Advance(2500 * vtime.Millisecond)
		for _, name := range w.names {
			w.nodes[name].cmTick()
			w.nodes[name].hsTick()
		}
		w.collect()
		w.run()
	default:
		w.c.Broken("c39: unknown event %v", e)
	}
	w.lossR = false
	defer w.audit(e, before)
	if keyBefore != "" {
		changed := w.key() != keyBefore
		if covered && e.K == "resp" {
			w.st.respCovered++
		} else if covered {
			w.st.reqCovered++
			if changed {
				w.st.reqCoveredEffect++
			} else {
				w.st.reqCoveredRefused++
			}
		}
		if !changed {
			w.st.ctlRefused++
		} else {
			w.st.ctlAccepted++
			if e.K == "req" && e.From != e.S {
				w.spoofed = append(w.spoofed, e.String())
			}
		}
	}
	return dirty
}

// menu: the events offered in the current state (a function of the state only).
func (w *c39World) menu(thorough bool) []c39Ev {
	var mn []c39Ev
	r := w.nodes["r"]
	rs := w.slots(r)
	peers := []string{"i", "t", "o"}
	up := map[string]bool{}
	for _, s := range peers {
		hi := w.nodes[s].f.hostMap.QueryVpnAddr(w.addr["r"])
		up[s] = hi != nil && hi.ConnectionState != nil
	}
	// honest traffic
	mn = append(mn, c39Ev{K: "honest", S: "i", To: "t"}, c39Ev{K: "honest", S: "t", To: "i"}, c39Ev{K: "honest", S: "o", To: "t"}, c39Ev{K: "honest", S: "t", To: "o"})
	// crafted requests
	for _, s := range peers {
		if !up[s] {
			continue
		}
		for _, from := range w.names {
			for _, to := range w.names {
				for idx := 0; idx <= 3; idx++ {
					e := c39Ev{K: "req", S: s, From: from, To: to, Idx: idx}
					if idx > 0 {
						if _, ok := w.peekReqIndex(e, rs); !ok {
							continue
						}
					}
					mn = append(mn, e)
					if thorough || (idx == 0 && (from == s || from == "r")) {
						e.V1 = true
						mn = append(mn, e)
						e.V1 = false
					}
					if idx == 0 && from == s && to != s && to != "r" {
						e.Loss = true
						mn = append(mn, e)
					}
				}
			}
		}
	}
	// crafted responses
	for _, s := range peers {
		if !up[s] {
			continue
		}
		hiS := w.nodes[s].f.hostMap.QueryVpnAddr(w.addr["r"])
		for _, from := range w.names {
			if !thorough && !(from == s || from == "i" || from == "o") {
				continue
			}
			for _, to := range w.names {
				for init := -1; init < len(rs); init++ {
					for ridx := 0; ridx <= 1; ridx++ {
						if ridx == 1 {
							if _, has := hiS.relayState.QueryRelayForByIp(w.addr[from]); !has {
								continue
							}
						}
						e := c39Ev{K: "resp", S: s, From: from, To: to, Idx: init, Ridx: ridx}
						mn = append(mn, e)
						if thorough || (init >= 0 && rs[init].peer == s && from == s) {
							e.V1 = true
							mn = append(mn, e)
						}
					}
				}
			}
		}
	}
	// churn
	for _, s := range peers {
		mn = append(mn, c39Ev{K: "close", S: s}, c39Ev{K: "closeR", S: s}, c39Ev{K: "silentR", S: s}, c39Ev{K: "rehs", S: s})
		if thorough {
			mn = append(mn, c39Ev{K: "rehsR", S: s})
		}
		// a leg with two tunnels: the non-primary one can go away on its own, on either side
		if w.second(w.nodes[s], "r") != nil {
			mn = append(mn, c39Ev{K: "close-2nd", S: s}, c39Ev{K: "silent-2nd", S: s})
		}
		if w.second(r, s) != nil {
			mn = append(mn, c39Ev{K: "closeR-2nd", S: s}, c39Ev{K: "silentR-2nd", S: s})
		}
	}
	mn = append(mn, c39Ev{K: "tickR"}, c39Ev{K: "tickAll"})
	return mn
}

// probe: relayed data, authentically wrapped by every peer, on every relay index R holds and on an unknown one. Runs in
// place on a world that has just reached a state; audit judges every resulting forward.
func (w *c39World) probe() {
	n := len(w.slots(w.nodes["r"]))
	ng := len(w.gone())
	nh := len(w.hist)
	for _, s := range []string{"i", "t", "o"} {
		for _, old := range []bool{false, true} {
			if old && w.second(w.nodes[s], "r") == nil {
				continue
			}
			for k := -1 - ng; k < n; k++ {
				if w.bad {
					return
				}
				e := c39Ev{K: "data", S: s, Idx: k, Old: old}
				if k < -1 {
					e.Idx, e.Gone = 0, -1-k // former indexes of R
					w.st.probesFormer++
				}
				if old {
					w.st.probesSecond++
				}
				w.apply(e)
				w.st.transitions++
				w.st.probes++
				w.hist = w.hist[:nh]
			}
		}
	}
}

func (w *c39World) peekReqIndex(e c39Ev, rs []c39SlotRef) (uint32, bool) {
	switch e.Idx {
	case 1:
		for _, s := range rs {
			if s.peer == e.S && s.rank == 0 && s.r.PeerAddr == w.addr[e.To] && s.r.RemoteIndex != 0 {
				return s.r.RemoteIndex, true
			}
		}
	case 2:
		for _, s := range rs {
			if !(s.peer == e.S && s.r.PeerAddr == w.addr[e.To]) && s.r.RemoteIndex != 0 {
				return s.r.RemoteIndex, true
			}
		}
	case 3:
		for _, s := range rs {
			return s.r.LocalIndex, true
		}
	}
	return 0, false
}

// ---- oracle -----------------------------------------------------------------------------------------------------

var c39StateName = []string{"Requested", "PeerRequested", "Established", "Disestablished"}

// c39Valid[from][to]: the transition relation taken from the statement's protocol (weak reading, see Assume lines):
// a slot is created Requested (I asked), PeerRequested (a peer asked me to forward) or Established (terminal accept);
// Requested/PeerRequested -> Established on confirmation; anything -> Disestablished on tunnel loss; Disestablished ->
// Requested/Established on renegotiation; Established/PeerRequested -> Requested when the relay (re-)asks the peer.
// Nothing ever moves INTO PeerRequested.
var c39Valid = [4][4]bool{
	Requested:      {Requested: true, Established: true, Disestablished: true},
	PeerRequested:  {PeerRequested: true, Requested: true, Established: true, Disestablished: true},
	Established:    {Established: true, Requested: true, Disestablished: true},
	Disestablished: {Disestablished: true, Requested: true, Established: true},
}

func (w *c39World) live(name string, hi *HostInfo) bool {
	hmap := w.nodes[name].f.hostMap
	hmap.RLock()
	defer hmap.RUnlock()
	return hmap.Indexes[hi.localIndexId] == hi
}

func (w *c39World) heardFrom(name string, peer string) bool {
	n, p := w.nodes[name], w.nodes[peer]
	if p == nil {
		return false
	}
	for _, d := range w.evDelivered {
		if d.To == n.udp && d.From == p.udp {
			return true
		}
	}
	return false
}

func (w *c39World) audit(e c39Ev, before map[c39SlotID]Relay) {
	after := w.allSlots()
	w.noteR()
	ev := e.String()
	single := len(w.evDelivered) <= 1 // one message handled: transitions are judged exactly; otherwise as compositions
	// (a) relay-state transitions, on every node
	for id, b := range before {
		a, ok := after[id]
		if !ok {
			if w.live(id.node, id.hi) {
				w.violation("a relay slot vanished from a tunnel that is still alive", map[string]any{"node": id.node, "slot": vRelayStr(&b), "event": ev})
			} else {
				w.st.slotDeaths++
				// vacuity: the tunnel that owned the slot went away while another tunnel with the same peer stays
				if len(id.hi.vpnAddrs) > 0 && w.nodes[id.node].f.hostMap.QueryVpnAddr(id.hi.vpnAddrs[0]) != nil {
					if id.node == "r" {
						w.st.nonFinalDeletesWithSlots++
					} else {
						w.st.nonFinalDeletes++
					}
				}
			}
			continue
		}
		if a.Type != b.Type || a.PeerAddr != b.PeerAddr || a.LocalIndex != b.LocalIndex {
			w.violation("a relay slot changed its type, peer or local index", map[string]any{"node": id.node, "before": vRelayStr(&b), "after": vRelayStr(&a), "event": ev})
		}
		if a.State != b.State {
			if b.State < 0 || b.State > 3 || a.State < 0 || a.State > 3 || (single && !c39Valid[b.State][a.State]) || a.State == PeerRequested {
				w.violation(fmt.Sprintf("invalid relay state transition %s -> %s", c39StateName[b.State&3], c39StateName[a.State&3]), map[string]any{"node": id.node, "before": vRelayStr(&b), "after": vRelayStr(&a), "event": ev})
			}
			w.st.trans[c39StateName[b.State&3]+"->"+c39StateName[a.State&3]]++
			if single {
				w.st.exactTransitions++
			}
			if b.State == Requested && a.State == Established && !w.heardFrom(id.node, w.peerName(id.hi)) {
				w.violation("a Requested relay slot became Established without any message from the peer that owns the slot", map[string]any{"node": id.node,
					"owner": w.peerName(id.hi), "before": vRelayStr(&b), "after": vRelayStr(&a), "event": ev})
			}
		}
	}
	for id, a := range after {
		if a.State >= 0 && a.State <= 3 {
			w.st.stateSeen[a.State]++
		}
		n := w.nodes[id.node]
		if n.f.myVpnAddrsTable.Contains(a.PeerAddr) {
			w.violation("a relay slot pairs a peer with the node itself", map[string]any{"node": id.node, "slot": vRelayStr(&a), "owner": w.peerName(id.hi), "event": ev})
		}
		if _, existed := before[id]; existed {
			continue
		}
		okCreate := !single || (a.Type == ForwardingType && (a.State == Requested || a.State == PeerRequested)) || (a.Type == TerminalType && (a.State == Requested || a.State == Established))
		if !okCreate {
			w.violation(fmt.Sprintf("a relay slot was created in state %s with type %d", c39StateName[a.State&3], a.Type), map[string]any{"node": id.node, "slot": vRelayStr(&a), "event": ev})
		}
		if a.Type == ForwardingType && !(id.node == "r" && w.cfg.amRelay) {
			w.violation("a forwarding relay slot was created on a node that is not configured as a relay", map[string]any{"node": id.node, "slot": vRelayStr(&a), "event": ev})
		}
	}
	// (b) hostMap.Relays ownership, on every node
	for _, name := range w.names {
		hmap := w.nodes[name].f.hostMap
		hmap.RLock()
		for idx, hi := range hmap.Relays {
			if hmap.Indexes[hi.localIndexId] != hi {
				w.violation("hostMap.Relays holds an index whose owner tunnel is gone", map[string]any{"node": name, "index": idx, "owner": vHostID(hi), "event": ev})
			} else if _, ok := hi.relayState.QueryRelayForByIdx(idx); !ok {
				w.violation("hostMap.Relays holds an index its owner does not list", map[string]any{"node": name, "index": idx, "owner": vHostID(hi), "event": ev})
			}
		}
		hmap.RUnlock()
	}
	// crafted announcements die with the leg
	for _, p := range []string{"i", "t", "o"} {
		if w.nodes["r"].f.hostMap.QueryVpnAddr(w.addr[p]) == nil {
			delete(w.announced, p)
		}
	}
	// (c) forwarded datagrams: a relay frame a node emits whose payload it received in a relay frame during this event
	forwarded := 0
	for ei, em := range w.evEmitted {
		inner, ok := c39IsRelayFrame(em.Data)
		if !ok {
			continue
		}
		fwd := w.net.byUDP[em.From.Addr()]
		var src *vnode
		var inIdx uint32
		for di, d := range w.evDelivered {
			if d.To != em.From || w.evDelivSeq[di] > w.evEmitSeq[ei] {
				continue
			}
			if in2, ok := c39IsRelayFrame(d.Data); ok && bytes.Equal(in2, inner) {
				src = w.net.byUDP[d.From.Addr()]
				var ih header.H
				_ = ih.Parse(d.Data)
				inIdx = ih.RemoteIndex
			}
		}
		if fwd == nil {
			continue
		}
		if w.origin == nil {
			w.origin = map[string]string{}
		}
		if o, known := w.origin[string(inner)]; src == nil || (known && o == fwd.spec.Name) {
			if !known {
				w.origin[string(inner)] = fwd.spec.Name
			}
			continue // originated (or retransmitted) by the emitter itself: terminal use of a relay, not a forward
		} else if !known {
			w.origin[string(inner)] = src.spec.Name
		}
		forwarded++
		w.st.forwards++
		var oh header.H
		_ = oh.Parse(em.Data)
		det := map[string]any{"forwarder": fwd.spec.Name, "true_sender": src.spec.Name, "to": em.To.String(), "index": oh.RemoteIndex, "event": ev}
		if !(fwd.spec.Name == "r" && w.cfg.amRelay) {
			w.violation("a node that is not configured as a relay forwarded a relayed datagram", det)
			continue
		}
		// the index the datagram ARRIVED on must be listed by a live tunnel of the relay with the true sender (before or
		// after the event): relay indexes disappear with the tunnel that owns them
		inOK := false
		for _, snap := range []map[c39SlotID]Relay{before, after} {
			for id, sl := range snap {
				if id.node == fwd.spec.Name && sl.LocalIndex == inIdx && w.peerName(id.hi) == src.spec.Name {
					inOK = true
					if w.second(fwd, src.spec.Name) == id.hi {
						w.st.fwdOnSecond++
					}
				}
			}
		}
		if !inOK {
			det["arrived_on_index"] = inIdx
			w.violation("the relay forwarded a datagram that arrived on a relay index none of its live tunnels with the sender lists (the index outlived its tunnel)", det)
		}
		dst := w.net.byUDP[em.To.Addr()]
		if dst == nil {
			w.violation("a relayed datagram was forwarded to an address that is not a peer's", det)
			continue
		}
		det["destination"] = dst.spec.Name
		if dst == fwd {
			w.violation("the relay forwarded a relayed datagram to itself", det)
			continue
		}
		// onward leg, as R itself records it: a slot on a tunnel with the destination, for the true sender, Established
		legOK := false
		for _, s := range w.slots(fwd) {
			if s.peer == dst.spec.Name && s.r.PeerAddr == src.vpnIP && s.r.RemoteIndex == oh.RemoteIndex && s.r.State == Established && s.r.Type == ForwardingType {
				legOK = true
			}
		}
		if !legOK {
			w.violation("the relay forwarded although its onward relay leg (destination tunnel, true sender) is not Established", det)
		}
		// the SENDER's own view of the index it sent on (only real slots: crafted probes have none)
		for _, s := range w.slots(src) {
			if _, own := w.announced[src.spec.Name][s.r.LocalIndex]; own {
				continue // the sender re-announced this very slot in a crafted message: its view is its own doing
			}
			if s.peer == fwd.spec.Name && s.r.RemoteIndex == inIdx && s.r.State == Established && s.r.PeerAddr != dst.vpnIP {
				det["sender_slot"] = vRelayStr(&s.r)
				if len(w.spoofed) > 0 {
					det["spoofed_requests_with_effect"] = w.spoofed
					w.violation(c39SpoofSig, det)
				} else {
					w.violation("the relay forwarded a datagram to a peer other than the one the sender negotiated that relay for (third peer)", det)
				}
			}
		}
		// the destination's own view of the index the datagram arrives on
		var dslot *Relay
		for _, s := range w.slots(dst) {
			if s.peer == fwd.spec.Name && s.r.LocalIndex == oh.RemoteIndex {
				r := s.r
				dslot = &r
			}
		}
		if dslot == nil {
			for id, b := range before { // the destination may have dropped the slot later in the same event
				if id.node == dst.spec.Name && b.LocalIndex == oh.RemoteIndex {
					r := b
					dslot = &r
				}
			}
		}
		if dslot == nil {
			// the destination listed the index earlier and dropped it with a tunnel it forgot WITHOUT telling the relay (the
			// relay's onward leg is judged above from the relay's own records): still the destination's own announcement
			if peer, ok := w.everSlot[dst.spec.Name][oh.RemoteIndex]; ok {
				dslot = &Relay{LocalIndex: oh.RemoteIndex, PeerAddr: peer, State: Disestablished}
				w.st.fwdOntoDropped++
			}
		}
		// an index the destination itself announced in a crafted (hostile) message is its own doing: a hostile destination is no victim
		_, selfAnnounced := w.announced[dst.spec.Name][oh.RemoteIndex]
		switch {
		case selfAnnounced:
		case dslot != nil && dslot.PeerAddr != src.vpnIP:
			det["destination_slot"] = vRelayStr(dslot)
			if len(w.spoofed) > 0 {
				det["spoofed_requests_with_effect"] = w.spoofed
				w.violation(c39SpoofSig, det)
			} else {
				w.violation("the relay forwarded one peer's traffic onto a relay slot the destination negotiated for a different peer", det)
			}
		case dslot == nil && oh.RemoteIndex == 0:
			// its own signature (see proposed_fixes/C39-established-without-remote-index.md): the relay's slot for the onward leg
			// never learned an index from the destination at all, and was marked Established all the same
			w.violation("the relay forwarded on relay index 0: its slot for the onward leg was marked Established without ever learning the destination's index", det)
		case dslot == nil:
			w.violation("the relay forwarded on an index the destination never announced on its current tunnel (onward leg not established)", det)
		}
	}
	if e.K == "data" {
		if forwarded > 0 {
			w.st.fwdByData++
		} else {
			w.st.dataRefused++
			// vacuity: the refused frame arrived on a live slot of the sender whose ONWARD slot had been Established in an earlier
			// epoch, was asked again by the relay and still awaits its owner's answer (it keeps the earlier epoch's index)
			for _, d := range w.evDelivered {
				var ih header.H
				if d.To != w.nodes["r"].udp || ih.Parse(d.Data) != nil {
					continue
				}
				for id, s1 := range before {
					if id.node != "r" || s1.LocalIndex != ih.RemoteIndex || s1.Type != ForwardingType || w.peerName(id.hi) != e.S {
						continue
					}
					for id2, s2 := range before {
						if id2.node == "r" && s2.Type == ForwardingType && s2.State == Requested && s2.RemoteIndex != 0 && s2.PeerAddr == w.addr[e.S] &&
							len(id2.hi.vpnAddrs) > 0 && id2.hi.vpnAddrs[0] == s1.PeerAddr {
							w.st.pendingLegData++
						}
					}
				}
			}
		}
	}
}

// ---- search -----------------------------------------------------------------------------------------------------

func c39Search(t *testing.T, c *mc.Check, st *c39Stats, cfg c39Cfg, roots [][]c39Ev, maxDepth int, deadline time.Time) (states int64, depthDone int, exhaustive bool) {
	stop := func() bool { return time.Now().After(deadline) || c.OutOfTime() || st.otherViolations > 40 }
	t0 := time.Now()
	st.d1Seconds = 0
	build := func(hist []c39Ev) *c39World {
		w := c39New(t, c, st, cfg)
		for _, e := range hist {
			w.apply(e)
		}
		st.rebuilds++
		return w
	}
	seen := map[string]bool{}
	var frontier [][]c39Ev
	for _, r := range roots { // anchor histories: each root state is probed, then expanded like any other state
		w := build(r)
		st.transitions += int64(len(r))
		if k := w.key(); !seen[k] && !w.bad {
			seen[k] = true
			states++
			frontier = append(frontier, r)
			w.probe()
		}
		w.net.close()
	}
	exhaustive = true
	for depth := 0; len(frontier) > 0; depth++ {
		if depth >= maxDepth {
			exhaustive = false
			c.Capped("bfs depth cap")
			break
		}
		var next [][]c39Ev
		for _, hist := range frontier {
			if stop() {
				c.Capped("bfs time budget")
				return states, depthDone, false
			}
			w := build(hist)
			rawKey := w.keyOf(true)
			for _, ev := range w.menu(c.Thorough()) {
				if stop() {
					w.net.close()
					c.Capped("bfs time budget")
					return states, depthDone, false
				}
				fresh, marker := w.fresh, w.marker
				ann := map[string]map[uint32]string{}
				for p, s := range w.announced {
					ann[p] = map[uint32]string{}
					for k, v := range s {
						ann[p][k] = v
					}
				}
				nh, ns := len(w.hist), len(w.spoofed)
				dirty := w.apply(ev)
				st.transitions++
				k2 := w.key()
				if !w.bad && !dirty && w.keyOf(true) == rawKey {
					// refused / no effect on the canonical state: the same world serves the next sibling event
					w.fresh, w.marker, w.announced, w.hist, w.spoofed = fresh, marker, ann, w.hist[:nh], w.spoofed[:ns]
					st.noops++
					continue
				}
				if !w.bad && !seen[k2] {
					seen[k2] = true
					states++
					h2 := append(append([]c39Ev{}, hist...), ev)
					if os.Getenv("C39_DEBUG") != "" {
						fmt.Printf("INFO d%d %v\n   %s\n", depth, h2, k2)
					}
					next = append(next, h2)
					if states <= 3 || states&(states-1) == 0 {
						c.Sample(map[string]any{"config": cfg.String(), "history": fmt.Sprint(h2)})
					}
					w.probe() // relayed data on every index, in the state just discovered
				}
				w.net.close()
				w = build(hist)
			}
			w.net.close()
		}
		depthDone = depth + 1
		if depth == 0 {
			st.d1Seconds = time.Since(t0).Seconds()
		}
		frontier = next
	}
	return states, depthDone, exhaustive
}

func TestVerifC39(t *testing.T) {
	c := mc.Begin(t, "C39", "model_checking")
	defer c.End()
	st := &c39Stats{trans: map[string]int64{}}

	// determinism: one fixed history twice — identical wire bytes and canonical state
	probe := []c39Ev{{K: "honest", S: "i", To: "t"}, {K: "req", S: "o", From: "i", To: "t"}, {K: "data", S: "i", Idx: 0}, {K: "close", S: "t"}, {K: "rehs", S: "t"}, {K: "tickR"}}
	var keys, wires []string
	for k := 0; k < 2; k++ {
		w := c39New(t, c, &c39Stats{trans: map[string]int64{}}, c39Cfg{true, cert.Version2, ""})
		for _, e := range probe {
			w.apply(e)
		}
		keys, wires = append(keys, w.key()), append(wires, w.net.wireHash())
		w.net.close()
	}
	if keys[0] != keys[1] || wires[0] != wires[1] {
		c.Broken("c39: replay is not deterministic\n%s\n%s", keys[0], keys[1])
	}

	hIT, hOT := c39Ev{K: "honest", S: "i", To: "t"}, c39Ev{K: "honest", S: "o", To: "t"}
	half := c39Ev{K: "req", S: "i", From: "i", To: "t", Loss: true}
	// an established pair, then ONE side asks the relay for the same relay again (a peer that lost its state, or restarted
	// its handshake): the relay puts its slot for the other side back to Requested, that slot keeps the index it learned in
	// the earlier epoch, and the relay's question to the other side is lost. Everything that can reach the relay while it
	// waits for that answer (retransmits and repeated answers from the first side included) is one event away.
	reAskT := c39Ev{K: "req", S: "t", From: "t", To: "i", Loss: true}
	reAskI := c39Ev{K: "req", S: "i", From: "i", To: "t", Loss: true}
	anchors := [][]c39Ev{
		nil,
		{hIT},
		{hIT, reAskT},
		{half},
		{hIT, {K: "close", S: "t"}, {K: "rehs", S: "t"}},
		// a leg with two tunnels: the older one lingers and owns the relay slots (on R: forwarding slots, on the endpoint:
		// terminal slots); every teardown of either tunnel, on either side, is one event away
		{hIT, {K: "rehs", S: "i"}},
		{hIT, {K: "rehs", S: "t"}},
		// the initiator holds an established pair and a half-open one (the relay's question to the second target is lost): every
		// answer that names the half-open pair, from every peer on every slot, is one event away
		{hIT, {K: "req", S: "i", From: "i", To: "o", Loss: true}},
		{hIT, hOT},
		{hIT, {K: "rehs", S: "i"}, {K: "tickR"}}, // ... and the connection manager has looked at both once (deletion is one tick away)
		{hIT, {K: "silentR", S: "i"}, {K: "rehs", S: "i"}},
		{hIT, {K: "rehs", S: "i"}, {K: "honest", S: "t", To: "i"}, {K: "tickAll"}}, // two tunnels, traffic, every node's connection manager ran
		{hIT, reAskI},                     // the mirror image: the leg towards the target awaits the target's answer
		{hIT, {K: "rehs", S: "i"}, reAskT}, // the re-asked slot sits on a lingering tunnel
	}
	type job struct {
		cfg   c39Cfg
		share float64
		roots [][]c39Ev
	}
	nA := mc.Pick(c, 8, len(anchors))
	// the routed configurations come second: their share of the budget must not depend on how far the big job got
	jobs := []job{{c39Cfg{true, cert.Version2, ""}, 0.50, anchors[:nA]}, {c39Cfg{true, cert.Version2, "o"}, 0.16, anchors[:2]},
		{c39Cfg{false, cert.Version2, ""}, 0.10, anchors[:2]}, {c39Cfg{true, cert.Version1, ""}, 0.16, anchors[:2]},
		{c39Cfg{false, cert.Version1, ""}, 0.08, anchors[:1]}}
	if c.Thorough() {
		v1roots := [][]c39Ev{anchors[0], anchors[1], anchors[2], anchors[5]} // v1 certificates: the re-asked leg and the two-tunnel leg as well
		jobs = []job{{c39Cfg{true, cert.Version2, ""}, 0.50, anchors[:nA]},
			{c39Cfg{true, cert.Version2, "o"}, 0.14, [][]c39Ev{anchors[0], anchors[1], anchors[3], anchors[5], anchors[8]}},
			{c39Cfg{true, cert.Version2, "t"}, 0.05, anchors[:2]}, {c39Cfg{true, cert.Version2, "i"}, 0.05, anchors[:2]},
			{c39Cfg{true, cert.Version1, "o"}, 0.05, anchors[:2]},
			{c39Cfg{false, cert.Version2, ""}, 0.08, anchors[:2]}, {c39Cfg{true, cert.Version1, ""}, 0.09, v1roots},
			{c39Cfg{false, cert.Version1, ""}, 0.04, anchors[:1]}}
	}
	budget := mc.Pick(c, 34.0, 800.0)
	if v, err := strconv.ParseFloat(os.Getenv("VERIF_BUDGET_S"), 64); err == nil && v > 0 && 0.92*v < budget {
		budget = 0.92 * v
	}
	depth := mc.Pick(c, 2, 4)
	var total int64
	fwdRelay, fwdNoRelay := int64(0), int64(0)
	perCfg := map[string]any{}
	start := time.Now()
	used := 0.0
	mainDepth := 0
	for ji, j := range jobs {
		used += j.share
		deadline := start.Add(time.Duration(used * budget * float64(time.Second)))
		f0 := st.forwards
		n, d, ex := c39Search(t, c, st, j.cfg, j.roots, depth, deadline)
		if ji == 0 {
			mainDepth = d
		}
		total += n
		perCfg[j.cfg.String()] = map[string]any{"states": n, "depth_completed": d, "closed": ex, "forwards": st.forwards - f0, "anchors": len(j.roots),
			"wall_seconds_until_depth_1_was_complete_(sizing_aid_not_an_oracle)": float64(int(st.d1Seconds*10)) / 10}
		if j.cfg.amRelay {
			fwdRelay += st.forwards - f0
		} else {
			fwdNoRelay += st.forwards - f0
		}
	}
	c.Set("states", total)
	c.Set("transitions", st.transitions)
	c.Set("traces_validated_against_impl", st.transitions)
	c.Set("per_configuration", perCfg)
	c.Set("world_rebuilds", st.rebuilds)
	c.Set("data_probe_events", st.probes)
	c.Set("data_probe_events_on_former_indexes_of_the_relay", st.probesFormer)
	c.Set("data_probe_events_wrapped_with_a_lingering_tunnel", st.probesSecond)
	c.Set("non_primary_tunnel_teardowns", st.secondClosed)
	c.Set("slots_gone_with_a_tunnel_while_another_tunnel_with_that_peer_stays", map[string]int64{"relay": st.nonFinalDeletesWithSlots, "endpoints": st.nonFinalDeletes})
	c.Set("forwards_on_slots_of_a_lingering_tunnel", st.fwdOnSecond)
	c.Set("forwards_onto_an_index_the_destination_dropped_without_telling_the_relay", st.fwdOntoDropped)
	c.Set("anchor_histories", fmt.Sprint(anchors[:nA]))
	c.Set("routed_configurations", map[string]any{"unsafe_network_in_the_certificate": c39RoutedNet, "worlds_built_and_checked_against_the_relays_own_table": st.routedWorlds,
		"crafted_requests_with_a_relayfrom_the_sender_routes_but_does_not_own": st.reqCovered, "of_these_without_effect_on_any_node": st.reqCoveredRefused,
		"of_these_with_effect_(the_relay_itself_is_the_named_target)": st.reqCoveredEffect, "crafted_responses_with_such_a_relayfrom": st.respCovered,
		"honest_packets_delivered_from_or_to_the_routed_peer": st.routedHonest})
	c.Set("control_messages_judged_one_by_one", map[string]any{"decoded_with_the_receivers_tunnel_key": st.ctlDecoded,
		"requested_to_established_steps_caused_by_the_owners_confirmation": st.estByOwnerMsg,
		"answers_from_one_side_of_a_pair_while_the_relays_slot_for_the_other_side_awaited_its_own_answer": st.otherSideAnswered,
		"of_these_with_a_waiting_slot_that_was_established_in_an_earlier_epoch_(index_retained)": st.otherSideAnsweredReReq,
		"of_these_after_which_the_slot_was_still_waiting": st.legKeptWaiting,
		"data_frames_refused_because_the_onward_slot_was_re-asked_and_still_waiting": st.pendingLegData,
		"peer_requested_slots_completed_by_a_message_from_the_slots_peer_(the_target_of_the_pair)": st.peerReqByTarget,
		"peer_requested_slots_completed_by_a_message_from_anybody_else_(observed_not_judged)": st.peerReqByOther,
		"crafted_responses_naming_as_relayto_a_pair_the_sender_is_no_part_of_while_that_pairs_slot_on_the_initiators_tunnel_was_peer_requested": st.respForOtherPair})
	c.Set("events_without_effect_on_state", st.noops)
	c.Set("forwarded_datagrams_judged", st.forwards)
	c.Set("data_events_forwarded", st.fwdByData)
	c.Set("data_events_refused", st.dataRefused)
	c.Set("control_messages_refused", st.ctlRefused)
	c.Set("control_messages_with_effect", st.ctlAccepted)
	c.Set("slots_gone_with_their_tunnel", st.slotDeaths)
	c.Set("honest_packets_delivered_end_to_end", st.honestDelivered)
	c.Set("state_transitions_observed", st.trans)
	c.Set("slot_states_observed", map[string]int64{"Requested": st.stateSeen[0], "PeerRequested": st.stateSeen[1], "Established": st.stateSeen[2], "Disestablished": st.stateSeen[3]})
	c.Set("explanation", "states = distinct canonical network states (all four nodes' tunnels, relay slots with renamed indexes, hostMap.Relays, pending handshakes, R's liveness flags) summed over the four configurations; transitions = events executed on real nodes; an event that leaves the canonical state unchanged (a refusal) lets the same world serve the next sibling event, every other event is followed by a fresh replay of the history")
	c.Assume("am_relay is fixed per history (forwarding does not re-check it; the quantifier does not ask for reloads)")
	c.Assume("valid transitions (weak reading): creation as Requested/PeerRequested (forwarding) or Requested/Established (terminal); Requested|PeerRequested->Established; any->Disestablished; Disestablished->Requested|Established; Established|PeerRequested->Requested when the relay (re-)asks the peer; nothing moves into PeerRequested; Requested->Established needs a message from the slot's owner, and (judged message by message, so whatever happened since the slot last became Requested) the message that causes the step must be the owner's confirmation of that slot: its CreateRelayResponse echoing the slot's index or a CreateRelayRequest of its own naming the slot's pair (weak reading: a real simultaneous open may complete on the owner's request, and an owner that crafts the passed-on form of a request for its own slot has answered); an index the slot keeps from an earlier epoch confirms nothing")
	c.Assume("'the pair that negotiated the slot' is judged at the destination: the index a forwarded datagram leaves on must be one the destination itself holds for the TRUE sender (or, for indexes only announced in crafted messages, one it announced on its current tunnel)")
	c.Assume("an endpoint that forgets a tunnel with the relay without telling it (silent-2nd) cannot make the relay violate the property: a forward onto an index the destination listed earlier for the true sender is judged by the relay's own records of the onward leg")
	c.Assume("the state of the incoming leg is not judged (the statement names the onward leg); a sender using a slot before answering is taken as consent")
	c.Assume("a certificate's unsafe (routed) networks do not make their addresses the holder's own: a peer 'is' its certificate's overlay addresses only; the routed network of the routed configurations lies inside the overlay network (the statement does not restrict where routed networks lie)")
	c.Assume("who may complete a PeerRequested slot is not judged (the statement names the onward leg and the pair, PeerRequested->Established is a valid transition): a CreateRelayResponse by which a peer answers for its own slot but names another pair's target as RelayTo moves that pair's PeerRequested slot on the initiator's tunnel to Established (counted in the evidence); every forward in the states so reached is judged as everywhere else")
	c.Assume("virtual time and timer-wheel positions are not part of the canonical state; counters, keys and raw index values are abstracted")
	c.Set("transitions_judged_exactly_single_message_events", st.exactTransitions)
	c.Set("forwards_through_the_relayfrom_defect", st.spoofFinding)
	if st.otherViolations == 0 {
		c.Require(fwdRelay > 0 && st.fwdByData > 0, "forwarding never happened (forwards=%d by data events=%d)", fwdRelay, st.fwdByData)
		c.Require(fwdNoRelay == 0, "non-relay forwarded")
		c.Require(st.dataRefused > 0 && st.ctlRefused > 0 && st.ctlAccepted > 0, "refusals not reached: data %d ctl %d accepted %d", st.dataRefused, st.ctlRefused, st.ctlAccepted)
		c.Require(st.honestDelivered > 0, "honest relayed traffic never arrived")
		c.Require(st.slotDeaths > 0, "no relay slot ever went away with its tunnel")
		c.Require(st.nonFinalDeletesWithSlots > 0 && st.nonFinalDeletes > 0, "no relay slot went away with a tunnel while a second tunnel with the same peer stayed (relay %d, endpoints %d)", st.nonFinalDeletesWithSlots, st.nonFinalDeletes)
		c.Require(st.probesFormer > 0 && st.probesSecond > 0 && st.secondClosed > 0, "former-index / lingering-tunnel probes not reached: %d %d %d", st.probesFormer, st.probesSecond, st.secondClosed)
		c.Require(st.routedWorlds > 0 && st.reqCovered > 0 && st.reqCoveredRefused > 0 && st.respCovered > 0 && st.routedHonest > 0,
			"routed configurations not exercised: worlds %d, covered requests %d (refused %d), covered responses %d, honest packets of the routed peer %d",
			st.routedWorlds, st.reqCovered, st.reqCoveredRefused, st.respCovered, st.routedHonest)
		c.Require(st.ctlDecoded > 0 && st.estByOwnerMsg > 0, "control messages were not judged one by one: decoded %d, Requested->Established steps by the owner's confirmation %d", st.ctlDecoded, st.estByOwnerMsg)
		c.Require(st.otherSideAnsweredReReq > 0 && st.legKeptWaiting > 0 && st.pendingLegData > 0,
			"a re-asked relay leg awaiting its owner's answer was not exercised: answers from the other side %d (re-asked leg %d, still waiting afterwards %d), data refused on it %d",
			st.otherSideAnswered, st.otherSideAnsweredReReq, st.legKeptWaiting, st.pendingLegData)
		// the half-open second pair is the last anchor of the main job: demanded only when that job completed depth 1
		c.Require(st.peerReqByTarget > 0 && (st.respForOtherPair > 0 || mainDepth < 1), "PeerRequested slots: completed by the pair's target %d, answers naming a half-open pair the sender is no part of %d", st.peerReqByTarget, st.respForOtherPair)
		c.Require(st.stateSeen[0] > 0 && st.stateSeen[1] > 0 && st.stateSeen[2] > 0 && st.stateSeen[3] > 0, "slot states not all reached: %v", st.stateSeen)
		c.Require(len(st.trans) >= 4, "too few distinct state transitions observed: %v", st.trans)
	}
}

func c39IsRelayFrame(d []byte) (inner []byte, ok bool) {
	var h header.H
	if len(d) < header.Len+16 || h.Parse(d) != nil || h.Type != header.Message || h.Subtype != header.MessageRelay {
		return nil, false
	}
	return d[header.Len : len(d)-16], true
}
