//go:build verif

package nebula

import (
	"bytes"
	"fmt"
	"log/slog"
	"os"
	"reflect"
	"testing"

	"github.com/slackhq/nebula/header"
	"github.com/slackhq/nebula/zzverif/mc"
	"github.com/slackhq/nebula/zzverif/sched"
)

// C12 — a data packet is delivered at most once.
//
// E1 half: 2–3 scheduler threads call the REAL ConnectionState.Decrypt / VerifyRelay (real AEAD keys from a real IX
// handshake between two driven nodes) on authentic packets; connection_state.go runs on the sync/atomic shims, so every
// decryptLock acquisition is a scheduling point and ALL interleavings are enumerated (the space closes without a
// preemption bound). Oracle per schedule: each counter succeeds at most once, the final window contains every success,
// and a counter that fell out of the window before its second critical section is not delivered.
//
// E4 half: on the wire — A sends marked packets to B directly and through relay R; every in-flight datagram may be
// delivered, duplicated (delivered and kept) or dropped, and a hostile relay may re-wrap an already forwarded end-to-end
// packet into a fresh authentic relay frame (up to twice), breadth-first; B's tun must see each marker at most once.

type c12Fixture struct {
	recvCS  *ConnectionState // receiver's state for the direct tunnel (template)
	win     *Bits            // receiver window at capture time
	pkts    map[uint64][]byte
	relayCS *ConnectionState // relay's state for the tunnel A—R (template)
	relWin  *Bits
	relPkts map[uint64][]byte
}

func c12Capture(t testing.TB, seed int64) *c12Fixture {
	fx := &c12Fixture{pkts: map[uint64][]byte{}, relPkts: map[uint64][]byte{}}
	// direct tunnel a <-> b
	net := vTwoNodes(t, seed)
	a, b := net.node("a"), net.node("b")
	if !net.establish(a, b, "c12-setup") || !net.establish(b, a, "c12-setup-back") {
		t.Fatalf("c12: cannot establish")
	}
	net.flushFIFO(50)
	hiB := b.f.hostMap.QueryVpnAddr(a.vpnIP)
	hiA := a.f.hostMap.QueryVpnAddr(b.vpnIP)
	fx.recvCS = hiB.ConnectionState
	fx.win = c11CloneBits(hiB.ConnectionState.window)
	send := func(n *vnode, to *vnode, store map[uint64][]byte, tag string) {
		n.tunSend(vUDPPacket(n.vpnIP, to.vpnIP, 1, 2, []byte(tag)))
		net.collect()
		for _, p := range net.inflight {
			var h header.H
			if h.Parse(p.Data) == nil && h.Type == header.Message {
				store[h.MessageCounter] = p.Data
			}
		}
		net.inflight = nil
	}
	send(a, b, fx.pkts, "P1")
	send(a, b, fx.pkts, "P2")
	// a packet far ahead of the window: counter + ReplayWindow + 5
	hiA.ConnectionState.messageCounter.Add(ReplayWindow + 5)
	send(a, b, fx.pkts, "PFAR")
	net.close()

	// relayed: a -> r (frames of subtype relay, verified by r with VerifyRelay)
	rn := vRelayNet(t, seed)
	ra, rr, rb := rn.node("a"), rn.node("r"), rn.node("b")
	if !rn.establish(ra, rb, "c12-relay-setup") {
		t.Fatalf("c12: cannot establish relay path")
	}
	rn.flushFIFO(50)
	hiR := rr.f.hostMap.QueryVpnAddr(ra.vpnIP)
	fx.relayCS = hiR.ConnectionState
	fx.relWin = c11CloneBits(hiR.ConnectionState.window)
	for _, tag := range []string{"R1", "R2"} {
		ra.tunSend(vUDPPacket(ra.vpnIP, rb.vpnIP, 1, 2, []byte(tag)))
		rn.collect()
		for _, p := range rn.inflight {
			var h header.H
			if h.Parse(p.Data) == nil && h.Type == header.Message && h.Subtype == header.MessageRelay && p.To == rr.udp {
				fx.relPkts[h.MessageCounter] = p.Data
			}
		}
		rn.inflight = nil
	}
	rn.close()
	return fx
}

func c12FreshCS(tpl *ConnectionState, win *Bits) *ConnectionState {
	cs := &ConnectionState{eKey: tpl.eKey, dKey: tpl.dKey, myCert: tpl.myCert, peerCert: tpl.peerCert, initiator: tpl.initiator,
		window: c11CloneBits(win), epoch: tpl.epoch}
	return cs
}

type c12Op struct {
	relay   bool
	counter uint64
}

func TestVerifC12(t *testing.T) {
	c := mc.Begin(t, "C12", "model_checking")
	defer c.End()
	l := slog.New(slog.DiscardHandler)
	fx := c12Capture(t, c.Seed())
	var ctrs []uint64
	for k := range fx.pkts {
		ctrs = append(ctrs, k)
	}
	c.Require(len(fx.pkts) == 3 && len(fx.relPkts) == 2, "captured %d direct / %d relay packets", len(fx.pkts), len(fx.relPkts))
	var c1, c2, cfar uint64
	for k := range fx.pkts {
		if k > cfar {
			cfar = k
		}
	}
	for k := range fx.pkts {
		if k != cfar && (c1 == 0 || k < c1) {
			c1 = k
		}
	}
	for k := range fx.pkts {
		if k != cfar && k != c1 {
			c2 = k
		}
	}
	var r1, r2 uint64
	for k := range fx.relPkts {
		if r1 == 0 || k < r1 {
			r1 = k
		}
	}
	for k := range fx.relPkts {
		if k != r1 {
			r2 = k
		}
	}

	scenarios := []struct {
		name string
		ops  []c12Op
	}{
		{"same-counter-x2", []c12Op{{false, c1}, {false, c1}}},
		{"same-counter-x3", []c12Op{{false, c1}, {false, c1}, {false, c1}}},
		{"two-counters-dup", []c12Op{{false, c1}, {false, c2}, {false, c1}}},
		{"near-and-far", []c12Op{{false, c1}, {false, cfar}}},
		{"dup-plus-far", []c12Op{{false, c1}, {false, c1}, {false, cfar}}},
		{"relay-same-x2", []c12Op{{true, r1}, {true, r1}}},
		{"relay-dup-and-other", []c12Op{{true, r1}, {true, r2}, {true, r1}}},
	}

	var schedules, points, both, multiOK int64
	outcomes := map[string]int64{}
	for _, sc := range scenarios {
		var cs *ConnectionState
		ok := make([]bool, len(sc.ops))
		payload := make([][]byte, len(sc.ops))
		setup := func() {
			if sc.ops[0].relay {
				cs = c12FreshCS(fx.relayCS, fx.relWin)
			} else {
				cs = c12FreshCS(fx.recvCS, fx.win)
			}
			for i := range sc.ops {
				i := i
				op := sc.ops[i]
				ok[i], payload[i] = false, nil
				sched.Go(func() {
					nb := make([]byte, 12)
					if op.relay {
						pkt := append([]byte(nil), fx.relPkts[op.counter]...)
						ok[i] = cs.VerifyRelay(l, op.counter, pkt, nb) == nil
					} else {
						pkt := append([]byte(nil), fx.pkts[op.counter]...)
						out, err := c12Decrypt(cs, l, op.counter, pkt, nb)
						ok[i] = err == nil
						payload[i] = out
					}
				})
			}
		}
		res := sched.Explore(sched.Options{Bound: -1, Stop: c.OutOfTime}, setup, func(x *sched.Exec) {
			schedules++
			if x.Aborted {
				c.Violation("C12/"+sc.name+": "+x.Reason, map[string]any{"scenario": sc.name, "schedule": x.Choices})
				return
			}
			per := map[uint64]int{}
			key := ""
			for i, op := range sc.ops {
				if ok[i] {
					per[op.counter]++
					key += "1"
				} else {
					key += "0"
				}
				if ok[i] && !op.relay && !bytes.Contains(payload[i], []byte("P")) {
					c.Violation("C12/"+sc.name+": successful decrypt returned a wrong payload", map[string]any{"schedule": x.Choices})
				}
			}
			outcomes[sc.name+":"+key]++
			for ctr, n := range per {
				if n > 1 {
					c.Violation(fmt.Sprintf("C12/%s: one counter accepted by %d concurrent receivers", sc.name, n),
						map[string]any{"scenario": sc.name, "ops": fmt.Sprint(sc.ops), "counter": ctr, "schedule": x.Choices, "who": x.Who, "results": key})
				}
				if n == 1 && !(cs.window.get(ctr) || ctr+cs.window.length <= cs.window.current) {
					c.Violation("C12/"+sc.name+": accepted counter not recorded in the window", map[string]any{"counter": ctr, "schedule": x.Choices})
				}
			}
			total := 0
			for _, n := range per {
				total += n
			}
			if total == 0 {
				c.Violation("C12/"+sc.name+": no receiver accepted a fresh authentic packet", map[string]any{"schedule": x.Choices, "results": key})
			}
			if x.Preemptions >= 1 {
				both++
			}
			if total > 1 {
				multiOK++
			}
			c.SampleEvery(schedules, func() any {
				return map[string]any{"scenario": sc.name, "choices": fmt.Sprint(x.Choices), "threads_chosen": fmt.Sprint(x.Who), "results": key}
			})
		})
		points += res.ChoicePoints
		if !res.Complete {
			c.Capped("time budget in " + sc.name)
		}
		c.Set("schedules_"+sc.name, res.Executions)
	}
	c.Require(both > 0, "no schedule with a preemption between the two critical sections")
	c.Require(len(outcomes) >= len(scenarios)+2, "too few distinct outcomes: %v", outcomes)

	wireStates, wireTrans := c12Wire(t, c)

	c.Set("states", schedules+wireStates)
	c.Set("transitions", points+wireTrans)
	c.Set("traces_validated_against_impl", schedules+wireTrans)
	c.Set("schedules", schedules)
	c.Set("preemption_bound_completed", "unbounded (all interleavings of the scheduling points)")
	c.Set("schedules_with_preemption", both)
	c.Set("distinct_outcomes", outcomes)
	c.Set("wire_states", wireStates)
	c.Set("explanation", "states = complete schedules of the E1 scenarios + distinct canonical network states of the wire-level BFS; transitions = scheduling choice points + datagram deliveries; every one ran on the real code")
	c.Assume("scheduling points are the sync/atomic operations of connection_state.go (decryptLock); the AEAD open between them is atomic for the scheduler")
}

// c12RelayFrames lists the relay frames R has emitted towards B so far (in emission order).
func c12RelayFrames(net *vnet) [][]byte {
	r, b := net.node("r"), net.node("b")
	var out [][]byte
	for _, w := range net.wire {
		var h header.H
		if h.Parse(w) == nil && h.Type == header.Message && h.Subtype == header.MessageRelay {
			out = append(out, w)
		}
	}
	// keep only those addressed to b: the inner packet of a frame a->r and of the forwarded frame r->b is the same bytes,
	// so re-wrapping either is the same event; deduplicate by inner packet
	seen := map[string]bool{}
	var uniq [][]byte
	for _, f := range out {
		if len(f) < header.Len+16 {
			continue
		}
		inner := string(f[header.Len : len(f)-16])
		var ih header.H
		if ih.Parse([]byte(inner)) != nil || ih.Type != header.Message || ih.Subtype != header.MessageNone {
			continue // relayed handshake / control traffic from the set-up phase
		}
		if !seen[inner] {
			seen[inner] = true
			uniq = append(uniq, f)
		}
	}
	_, _ = r, b
	return uniq
}


// c12Decrypt calls ConnectionState.Decrypt through reflection, filling the parameters by type (logger, counter, packet,
// nonce buffer; any extra bool parameter — e.g. "arrived inside a relay frame" — is passed as false): a change of the
// method's signature must not stop the harness from building.
func c12Decrypt(cs *ConnectionState, l *slog.Logger, counter uint64, pkt, nb []byte) ([]byte, error) {
	m := reflect.ValueOf(cs).MethodByName("Decrypt")
	mt := m.Type()
	var args []reflect.Value
	bytesSeen := 0
	for i := 0; i < mt.NumIn(); i++ {
		switch t := mt.In(i); {
		case t == reflect.TypeOf(l):
			args = append(args, reflect.ValueOf(l))
		case t.Kind() == reflect.Uint64:
			args = append(args, reflect.ValueOf(counter).Convert(t))
		case t.Kind() == reflect.Slice && t.Elem().Kind() == reflect.Uint8:
			if bytesSeen == 0 {
				args = append(args, reflect.ValueOf(pkt))
			} else {
				args = append(args, reflect.ValueOf(nb))
			}
			bytesSeen++
		default:
			args = append(args, reflect.Zero(t))
		}
	}
	res := m.Call(args)
	var out []byte
	var err error
	for _, r := range res {
		if b, ok := r.Interface().([]byte); ok {
			out = b
		} else if e, ok := r.Interface().(error); ok {
			err = e
		}
	}
	return out, err
}

// c12Rewrap makes R send the inner packet of frame towards B in a fresh relay frame (new outer counter), using R's real
// SendVia with its real forwarding slot, and leaves it in flight.
func c12Rewrap(net *vnet, frame []byte) {
	r, a, b := net.node("r"), net.node("a"), net.node("b")
	hiB := r.f.hostMap.QueryVpnAddr(b.vpnIP)
	if hiB == nil {
		return
	}
	rel, ok := hiB.relayState.QueryRelayForByIp(a.vpnIP)
	if !ok {
		return
	}
	inner := append([]byte(nil), frame[header.Len:len(frame)-16]...)
	r.f.SendVia(hiB, rel, inner, make([]byte, 12), make([]byte, mtu), false, 0)
	net.collect()
}

// c12Wire: BFS over delivery / duplication / drop of in-flight datagrams for marked packets sent direct and via relay.
type c12Ev struct {
	Kind string // deliver | dup | drop
	Idx  int
}

func c12Wire(t *testing.T, c *mc.Check) (int64, int64) {
	markers := []string{"MARK-ONE", "MARK-TWO"}
	build := func(hist []c12Ev) (*vnet, bool) {
		net := vRelayNet(t, c.Seed(), vnodeSpec{Name: "d", Networks: "10.0.0.4/24", Udp: "192.0.2.4:4242", Overrides: m{
			"static_host_map": m{"10.0.0.2": []string{"192.0.2.2:4242"}}}})
		a, b, d := net.node("a"), net.node("b"), net.node("d")
		if !net.establish(a, b, "w-setup1") || !net.establish(d, b, "w-setup2") {
			t.Fatalf("c12 wire: cannot establish")
		}
		net.flushFIFO(100)
		net.tunLog = map[string][][]byte{}
		a.tunSend(vUDPPacket(a.vpnIP, b.vpnIP, 1, 2, []byte(markers[0]))) // relayed
		d.tunSend(vUDPPacket(d.vpnIP, b.vpnIP, 1, 2, []byte(markers[1]))) // direct
		net.collect()
		for _, ev := range hist {
			if ev.Kind == "unwrap" {
				// the inner end-to-end packet of a relay frame is only authenticated, not encrypted, by the frame: anybody on the
				// path can cut it out and send it to B as a plain direct datagram (from A's address)
				frames := c12RelayFrames(net)
				if ev.Idx >= len(frames) {
					return net, false
				}
				f := frames[ev.Idx]
				net.inflight = append(net.inflight, vpkt{From: a.udp, To: b.udp, Data: append([]byte(nil), f[header.Len:len(f)-16]...)})
				continue
			}
			if ev.Kind == "rewrap" {
				// hostile relay: R wraps an end-to-end packet it has already forwarded into a FRESH authentic relay frame
				frames := c12RelayFrames(net)
				if ev.Idx >= len(frames) {
					return net, false
				}
				c12Rewrap(net, frames[ev.Idx])
				continue
			}
			if ev.Idx >= len(net.inflight) {
				return net, false
			}
			switch ev.Kind {
			case "deliver":
				net.deliverAt(ev.Idx, false)
			case "dup":
				net.deliverAt(ev.Idx, true)
			case "drop":
				net.dropAt(ev.Idx)
			}
		}
		return net, true
	}
	// scripted hostile-relay histories first (cheap, always complete): the relayed packet reaches B normally and is then
	// re-wrapped and re-delivered; or the re-wrapped copies arrive before / instead of the original forwarded frame
	judge := func(net *vnet, hist []c12Ev) {
		counts := map[string]int{}
		for _, p := range net.tunLog["b"] {
			for _, mk := range markers {
				if bytes.Contains(p, []byte(mk)) {
					counts[mk]++
				}
			}
		}
		for mk, n := range counts {
			if n > 1 {
				c.Violation("C12/wire: a replayed datagram was delivered to the tun again", map[string]any{"marker": mk, "times": n, "history": fmt.Sprint(hist)})
			}
		}
	}
	var scripted, unwrapped int64
	relayIdx := func(net *vnet, toB bool) int {
		for i, p := range net.inflight {
			var h header.H
			if h.Parse(p.Data) == nil && h.Subtype == header.MessageRelay && (p.To == net.node("b").udp) == toB {
				return i
			}
		}
		return -1
	}
	for _, script := range [][]string{
		{"toR", "toB", "rewrap", "toB", "rewrap", "toB"},
		{"toR", "rewrap", "toB", "toB", "rewrap", "toB"},
		{"toR", "rewrap", "rewrap", "toB", "toB", "toB"},
		{"toR", "dropB", "rewrap", "toB", "rewrap", "toB"},
		{"toR", "toB", "unwrap", "direct"},
		{"toR", "unwrap", "direct", "toB"},
		{"toR", "unwrap", "toB", "direct"},
	} {
		net, _ := build(nil)
		var hist []c12Ev
		for _, st := range script {
			switch st {
			case "toR":
				if i := relayIdx(net, false); i >= 0 {
					net.deliverAt(i, false)
				}
			case "toB":
				if i := relayIdx(net, true); i >= 0 {
					net.deliverAt(i, false)
				}
			case "dropB":
				if i := relayIdx(net, true); i >= 0 {
					net.dropAt(i)
				}
			case "rewrap":
				if fr := c12RelayFrames(net); len(fr) > 0 {
					c12Rewrap(net, fr[len(fr)-1]) // the most recent end-to-end packet = the marked one
				}
			case "unwrap":
				if fr := c12RelayFrames(net); len(fr) > 0 {
					f := fr[len(fr)-1]
					a, b := net.node("a"), net.node("b")
					net.inflight = append(net.inflight, vpkt{From: a.udp, To: b.udp, Data: append([]byte(nil), f[header.Len:len(f)-16]...)})
					unwrapped++
				}
			case "direct":
				for i, p := range net.inflight {
					var h header.H
					if p.To == net.node("b").udp && p.From == net.node("a").udp && h.Parse(p.Data) == nil && h.Subtype != header.MessageRelay {
						net.deliverAt(i, false)
						break
					}
				}
			}
			hist = append(hist, c12Ev{st, 0})
			scripted++
			if os.Getenv("C12_DEBUG") != "" {
				fmt.Println("C12DBG", st, "inflight:", net.inflight, "tunB:", len(net.tunLog["b"]), "frames:", len(c12RelayFrames(net)))
			}
		}
		judge(net, hist)
		seenMarker := false
		for _, p := range net.tunLog["b"] {
			if bytes.Contains(p, []byte(markers[0])) {
				seenMarker = true
			}
		}
		c.Require(seenMarker, "scripted hostile-relay history %v never delivered the relayed packet", script)
		net.close()
	}
	c.Set("scripted_hostile_relay_steps", scripted)
	c.Set("scripted_unwrapped_inner_packets_sent_directly", unwrapped)
	c.Require(unwrapped >= 3, "no inner packet was cut out of a relay frame and sent directly (%d)", unwrapped)
	depth := mc.Pick(c, 5, 7)
	res := mc.BFSReplay(c, mc.BFSConfig[c12Ev]{
		MaxDepth: depth, Workers: 1, Stop: c.OutOfTime,
		Label: func(e c12Ev) string { return fmt.Sprintf("%s#%d", e.Kind, e.Idx) },
		Run: func(hist []c12Ev) (string, []c12Ev) {
			net, ok := build(hist)
			defer net.close()
			if !ok {
				c.Broken("c12 wire: history not replayable")
			}
			b := net.node("b")
			counts := map[string]int{}
			for _, p := range net.tunLog["b"] {
				for _, mk := range markers {
					if bytes.Contains(p, []byte(mk)) {
						counts[mk]++
					}
				}
			}
			for mk, n := range counts {
				if n > 1 {
					c.Violation("C12/wire: a replayed datagram was delivered to the tun again", map[string]any{"marker": mk, "times": n, "history": fmt.Sprint(hist)})
				}
			}
			// canonical state: in-flight datagrams by header description + receiver/relay windows + tun log length
			key := fmt.Sprint(counts)
			for _, p := range net.inflight {
				key += "|" + p.From.String() + ">" + p.To.String() + " " + vDescribe(p.Data)
			}
			for _, n := range []*vnode{b, net.node("r")} {
				for _, tv := range n.tunnels() {
					hi := n.f.hostMap.QueryIndex(tv.LocalIndex)
					key += "|" + vWindowDigest(hi.ConnectionState.window)
				}
			}
			var menu []c12Ev
			for i := range net.inflight {
				menu = append(menu, c12Ev{"deliver", i}, c12Ev{"dup", i})
			}
			for i := range net.inflight {
				menu = append(menu, c12Ev{"drop", i})
			}
			rew := 0
			for _, e := range hist {
				if e.Kind == "rewrap" {
					rew++
				}
			}
			if rew < 2 {
				for i := range c12RelayFrames(net) {
					menu = append(menu, c12Ev{"rewrap", i})
				}
			}
			unw := 0
			for _, e := range hist {
				if e.Kind == "unwrap" {
					unw++
				}
			}
			if fr := c12RelayFrames(net); unw < 1 && rew == 0 && len(fr) > 0 {
				menu = append(menu, c12Ev{"unwrap", len(fr) - 1}) // the most recent end-to-end packet; not combined with re-wraps
			}
			key += fmt.Sprintf("|rewraps=%d frames=%d", rew, len(c12RelayFrames(net)))
			return key, menu
		},
	})
	return res.States, res.Transitions
}
