//go:build verif

package nebula

import (
	"bytes"
	"fmt"
	"net/netip"
	"os"
	"sort"
	"strings"
	"testing"

	"github.com/slackhq/nebula/header"
	"github.com/slackhq/nebula/zzverif/mc"
	"github.com/slackhq/nebula/zzverif/vtime"
)

// C31 — concurrent handshakes converge to one working tunnel.
//
// Explicit-state BFS (by replay) over a network of two REAL nodes that both start a handshake to each other.
// Events: deliver / duplicate / drop any in-flight datagram, handshake timer tick on either node (clock +100ms),
// connection-manager tick on either node (clock +2.5s), one application packet each way.
// In every NEW state, on the same (throw-away) instance:
//   (i)  probe: over a loss-free network with handshake timers running, fresh marked packets in both directions must be
//        delivered within a bounded number of rounds if either node holds a completed tunnel;
//   (ii) closure: deliver everything, run connection-manager and handshake ticks until nothing changes: both nodes end
//        with exactly one tunnel whose indexes match each other;
//   (iii) over the whole run (history + probe + closure) at most one of the two nodes swapped its primary tunnel.

type c31Ev struct {
	K string // dl (deliver) | dp (duplicate) | dr (drop) | hs | cm | tun
	N string // node for hs/cm/tun
	I int    // in-flight index for dl/dp/dr
}

func (e c31Ev) String() string {
	switch e.K {
	case "dl", "dp", "dr":
		return fmt.Sprintf("%s#%d", e.K, e.I)
	}
	return e.K + ":" + e.N
}

type c31World struct {
	net   *vnet
	a, b  *vnode
	swaps map[string]int
	tunN  int
	// overlay addresses used for application traffic (a's and b's), same family
	ta, tb netip.Addr
}

// c31Packet builds an IPv4 or IPv6 UDP datagram depending on the address family.
func c31Packet(src, dst netip.Addr, sport, dport uint16, payload []byte) []byte {
	if src.Is4() {
		return vUDPPacket(src, dst, sport, dport, payload)
	}
	b := make([]byte, 48+len(payload))
	b[0] = 0x60
	pl := 8 + len(payload)
	b[4], b[5] = byte(pl>>8), byte(pl)
	b[6], b[7] = 17, 64
	s16, d16 := src.As16(), dst.As16()
	copy(b[8:24], s16[:])
	copy(b[24:40], d16[:])
	b[40], b[41] = byte(sport>>8), byte(sport)
	b[42], b[43] = byte(dport>>8), byte(dport)
	b[44], b[45] = byte(pl>>8), byte(pl)
	copy(b[48:], payload)
	return b
}

func (w *c31World) pkt(from *vnode, marker string) []byte {
	if from == w.a {
		return c31Packet(w.ta, w.tb, 1, 2, []byte(marker))
	}
	return c31Packet(w.tb, w.ta, 1, 2, []byte(marker))
}

func c31New(t testing.TB, seed int64, scenario string) *c31World {
	var net *vnet
	if scenario == "simultaneous-dualstack" {
		// a is dual stack (first address IPv4), b is IPv6 only and its address sorts below a's IPv6 address
		a := vnodeSpec{Name: "a", Networks: "10.0.0.1/24,fd00::5/64", Udp: "192.0.2.1:4242", Overrides: m{
			"static_host_map": m{"fd00::2": []string{"192.0.2.2:4242"}}}}
		b := vnodeSpec{Name: "b", Networks: "fd00::2/64", Udp: "192.0.2.2:4242", Overrides: m{
			"static_host_map": m{"fd00::5": []string{"192.0.2.1:4242"}, "10.0.0.1": []string{"192.0.2.1:4242"}}}}
		net = vNewNet(t, seed, a, b)
	} else {
		net = vTwoNodes(t, seed)
	}
	w := &c31World{net: net, a: net.node("a"), b: net.node("b"), swaps: map[string]int{}}
	w.ta, w.tb = w.a.vpnIP, w.b.vpnIP
	if scenario == "simultaneous-dualstack" {
		w.ta = netip.MustParseAddr("fd00::5")
	}
	switch scenario {
	case "simultaneous", "simultaneous-dualstack":
		w.a.tunSend(w.pkt(w.a, "init-a"))
		w.b.tunSend(w.pkt(w.b, "init-b"))
		net.collect()
	case "rehandshake":
		// an established tunnel, then both sides start a fresh handshake (what tryRehandshake does)
		if !net.establish(w.a, w.b, "pre-a") || !net.establish(w.b, w.a, "pre-b") {
			t.Fatalf("c31: cannot establish")
		}
		net.flushFIFO(50)
		net.tunLog = map[string][][]byte{}
		w.a.hm.StartHandshake(w.b.vpnIP, nil)
		w.a.settle()
		w.b.hm.StartHandshake(w.a.vpnIP, nil)
		w.b.settle()
		net.collect()
	}
	return w
}

func (w *c31World) node(n string) *vnode {
	if n == "a" {
		return w.a
	}
	return w.b
}

func (w *c31World) peerOf(n *vnode) *vnode {
	if n == w.a {
		return w.b
	}
	return w.a
}

// cmTickObserved runs a connection-manager tick and records whether the node swapped its primary (the previous primary
// is still held but no longer primary, and the new primary existed before the tick).
func (w *c31World) cmTickObserved(n *vnode) {
	peer := w.peerOf(n).vpnIP
	hmap := n.f.hostMap
	hmap.RLock()
	before := hmap.Hosts[peer]
	existed := map[*HostInfo]bool{}
	for _, hi := range hmap.Indexes {
		existed[hi] = true
	}
	hmap.RUnlock()
	n.cmTick()
	hmap.RLock()
	after := hmap.Hosts[peer]
	stillHeld := false
	if before != nil {
		_, stillHeld = hmap.Indexes[before.localIndexId]
		stillHeld = stillHeld && hmap.Indexes[before.localIndexId] == before
	}
	hmap.RUnlock()
	if before != nil && after != nil && after != before && stillHeld && existed[after] {
		w.swaps[n.spec.Name]++
	}
}

func (w *c31World) apply(e c31Ev) bool {
	switch e.K {
	case "dl", "dp", "dr":
		if e.I >= len(w.net.inflight) {
			return false
		}
		switch e.K {
		case "dl":
			w.net.deliverAt(e.I, false)
		case "dp":
			w.net.deliverAt(e.I, true)
		case "dr":
			w.net.dropAt(e.I)
		}
	case "hs":
		vtime.Advance(100 * vtime.Millisecond)
		w.node(e.N).hsTick()
	case "cm":
		vtime.Advance(2500 * vtime.Millisecond)
		w.cmTickObserved(w.node(e.N))
	case "tun":
		n := w.node(e.N)
		w.tunN++
		n.tunSend(w.pkt(n, fmt.Sprintf("hist-%s-%d", e.N, w.tunN)))
	}
	w.net.collect()
	return true
}

// ---- canonical state -------------------------------------------------------------------------------------------

// names gives every local index a structural name: node + position in the per-peer tunnel list (primary first),
// "p" for the pending handshake.
func (w *c31World) names() map[uint32]string {
	names := map[uint32]string{}
	for _, n := range []*vnode{w.a, w.b} {
		peer := w.peerOf(n).vpnIP
		hmap := n.f.hostMap
		hmap.RLock()
		list := hmap.unlockedGetHostList(peer)
		for i, hi := range list {
			names[hi.localIndexId] = fmt.Sprintf("%s%d", n.spec.Name, i)
		}
		hmap.RUnlock()
		n.hm.RLock()
		for idx := range n.hm.indexes {
			if _, ok := names[idx]; !ok {
				names[idx] = n.spec.Name + "p"
			}
		}
		n.hm.RUnlock()
	}
	return names
}

func c31Name(names map[uint32]string, idx uint32) string {
	if idx == 0 {
		return "0"
	}
	if s, ok := names[idx]; ok {
		return s
	}
	return "gone"
}

func c31Wheel[T any](tw *TimerWheel[T], name func(T) string) string {
	if name == nil {
		name = func(T) string { return "item" }
	}
	var parts []string
	for d := 0; d < tw.wheelLen; d++ {
		slot := (tw.current + d) % tw.wheelLen
		for it := tw.wheel[slot].Head; it != nil; it = it.Next {
			parts = append(parts, fmt.Sprintf("%d:%s", d, name(it.Item)))
		}
	}
	for it := tw.expired.Head; it != nil; it = it.Next {
		parts = append(parts, "x:"+name(it.Item))
	}
	lag := "nil"
	if tw.lastTick != nil {
		lag = fmt.Sprint(vtime.Now().Sub(*tw.lastTick) / vtime.Millisecond / 50)
	}
	return lag + "[" + strings.Join(parts, ",") + "]"
}

func (w *c31World) key() string {
	names := w.names()
	var sb strings.Builder
	for _, n := range []*vnode{w.a, w.b} {
		peer := w.peerOf(n).vpnIP
		hmap := n.f.hostMap
		hmap.RLock()
		list := hmap.unlockedGetHostList(peer)
		// rank of the peer-reported handshake times among the held tunnels
		times := []uint64{}
		for _, hi := range list {
			times = append(times, uint64(hi.lastHandshakeTime))
		}
		sort.Slice(times, func(i, j int) bool { return times[i] < times[j] })
		rank := func(t uint64) int { return sort.Search(len(times), func(i int) bool { return times[i] >= t }) }
		fmt.Fprintf(&sb, "%s{", n.spec.Name)
		for _, hi := range list {
			fmt.Fprintf(&sb, "(%s->%s init=%v in=%v out=%v pd=%v t=%d rem=%v)", names[hi.localIndexId], c31Name(names, hi.remoteIndexId),
				hi.ConnectionState.initiator, hi.in.Load(), hi.out.Load(), hi.pendingDeletion.Load(), rank(uint64(hi.lastHandshakeTime)), hi.GetRemote().IsValid())
		}
		hmap.RUnlock()
		n.hm.RLock()
		for _, hh := range n.hm.vpnIps {
			fmt.Fprintf(&sb, "pend(ctr=%d ready=%v stored=%d)", hh.counter, hh.ready, len(hh.packetStore))
		}
		n.hm.RUnlock()
		sb.WriteString(" hsw=" + c31Wheel(n.hm.OutboundHandshakeTimer.t, nil))
		sb.WriteString(" cmw=" + c31Wheel(n.cm.trafficTimer.t, func(i uint32) string { return c31Name(names, i) }))
		fmt.Fprintf(&sb, " swaps=%d}", w.swaps[n.spec.Name])
	}
	sb.WriteString(" net[")
	for _, p := range w.net.inflight {
		var h header.H
		_ = h.Parse(p.Data)
		dst := w.net.byUDP[p.To.Addr()]
		fresh := ""
		if dst != nil && h.Type != header.Handshake && h.Type != header.RecvError {
			if hi := dst.f.hostMap.QueryIndex(h.RemoteIndex); hi != nil && hi.ConnectionState != nil {
				fresh = fmt.Sprintf(" fresh=%v", hi.ConnectionState.window.Check(dst.l, h.MessageCounter))
			} else {
				fresh = " noidx"
			}
		}
		hsinfo := ""
		if h.Type == header.Handshake {
			hsinfo = fmt.Sprintf(" stage=%d", h.MessageCounter)
		}
		to := "?"
		if dst != nil {
			to = dst.spec.Name
		}
		fmt.Fprintf(&sb, "(%s %s/%d idx=%s%s%s)", to, header.TypeName(h.Type), h.Subtype, c31Name(names, h.RemoteIndex), hsinfo, fresh)
	}
	sb.WriteString("]")
	return sb.String()
}

// ---- per-state obligations -------------------------------------------------------------------------------------

func (w *c31World) hasCompletedTunnel() bool {
	return len(w.a.tunnels()) > 0 || len(w.b.tunnels()) > 0
}

// probe: loss-free network, handshake timers running; fresh packets both ways must arrive in one round, within maxRounds.
func (w *c31World) probe(maxRounds int) (bool, int) {
	for round := 0; round < maxRounds; round++ {
		ma, mb := fmt.Sprintf("probe-a-%d", round), fmt.Sprintf("probe-b-%d", round)
		w.a.tunSend(w.pkt(w.a, ma))
		w.b.tunSend(w.pkt(w.b, mb))
		w.net.collect()
		w.net.flushFIFO(400)
		gotB, gotA := false, false
		for _, p := range w.net.tunLog["b"] {
			if bytes.Contains(p, []byte(ma)) {
				gotB = true
			}
		}
		for _, p := range w.net.tunLog["a"] {
			if bytes.Contains(p, []byte(mb)) {
				gotA = true
			}
		}
		if gotA && gotB {
			return true, round
		}
		vtime.Advance(100 * vtime.Millisecond)
		w.a.hsTick()
		w.b.hsTick()
		w.net.collect()
		w.net.flushFIFO(400)
	}
	return false, maxRounds
}

func (w *c31World) shape() string {
	ta, tb := w.a.tunnels(), w.b.tunnels()
	return fmt.Sprintf("a=%d b=%d pendA=%d pendB=%d", len(ta), len(tb), len(w.a.pendingAddrs()), len(w.b.pendingAddrs()))
}

// closure: no new application traffic; deliver everything and tick until both hold one matching tunnel and nothing is pending.
func (w *c31World) closure(maxRounds, trafficRounds int) (bool, string) {
	stable := 0
	for round := 0; round < maxRounds; round++ {
		if round < trafficRounds { // steady application traffic in both directions while the managers sort things out
			w.a.tunSend(w.pkt(w.a, fmt.Sprintf("steady-a-%d", round)))
			w.b.tunSend(w.pkt(w.b, fmt.Sprintf("steady-b-%d", round)))
			w.net.collect()
		}
		w.net.flushFIFO(400)
		vtime.Advance(2500 * vtime.Millisecond)
		w.cmTickObserved(w.a)
		w.net.collect()
		w.net.flushFIFO(400)
		w.cmTickObserved(w.b)
		w.net.collect()
		w.net.flushFIFO(400)
		w.a.hsTick()
		w.b.hsTick()
		w.net.collect()
		w.net.flushFIFO(400)
		ta, tb := w.a.tunnels(), w.b.tunnels()
		if len(ta) == 1 && len(tb) == 1 && len(w.a.pendingAddrs()) == 0 && len(w.b.pendingAddrs()) == 0 && len(w.net.inflight) == 0 &&
			ta[0].LocalIndex == tb[0].RemoteIndex && ta[0].RemoteIndex == tb[0].LocalIndex {
			stable++
			if stable >= 2 {
				return true, ""
			}
		} else {
			stable = 0
		}
	}
	ta, tb := w.a.tunnels(), w.b.tunnels()
	crossed := len(ta) == 1 && len(tb) == 1 && (ta[0].LocalIndex != tb[0].RemoteIndex || ta[0].RemoteIndex != tb[0].LocalIndex)
	return false, fmt.Sprintf("%s inflight=%d orphaned-pair=%v", w.shape(), len(w.net.inflight), crossed)
}

func TestVerifC31(t *testing.T) {
	c := mc.Begin(t, "C31", "model_checking")
	defer c.End()
	seed := c.Seed()
	probed := map[string]bool{}
	var probes, probeOK, closures int64
	shapes := map[string]int64{}
	firstDone := map[string]bool{}
	maxRoundsSeen := 0

	for _, scenario := range []string{"simultaneous", "rehandshake", "simultaneous-dualstack"} {
		// determinism: the same history twice gives the same key and wire bytes
		h0 := []c31Ev{{K: "dl", I: 0}, {K: "hs", N: "a"}, {K: "dl", I: 0}}
		var k [2]string
		for r := 0; r < 2; r++ {
			w := c31New(t, seed, scenario)
			for _, e := range h0 {
				w.apply(e)
			}
			k[r] = w.key() + w.net.wireHash()
			w.net.close()
		}
		if k[0] != k[1] {
			c.Broken("nondeterministic replay in scenario %s:\n%s\n%s", scenario, k[0], k[1])
		}

		depth := mc.Pick(c, 4, 7)
		if scenario == "rehandshake" {
			depth = mc.Pick(c, 3, 6)
		}
		if scenario == "simultaneous-dualstack" {
			depth = mc.Pick(c, 3, 6)
		}
		tunBudget := 1
		// every scenario gets its own share of the soft budget, so a slow machine cannot starve the later ones
		share := map[string]float64{"simultaneous": 0.4, "rehandshake": 0.3, "simultaneous-dualstack": 0.3}[scenario]
		scStart := c.Elapsed()
		total := mc.Pick(c, 55.0, 1150.0)
		stop := func() bool { return c.Elapsed()-scStart > share*total || c.OutOfTime() }
		mc.BFSReplay(c, mc.BFSConfig[c31Ev]{
			MaxDepth: depth, Workers: 1, Stop: stop,
			Label: func(e c31Ev) string { return scenario + "/" + e.String() },
			Run: func(hist []c31Ev) (string, []c31Ev) {
				w := c31New(t, seed, scenario)
				defer w.net.close()
				tuns := map[string]int{}
				for _, e := range hist {
					if !w.apply(e) {
						c.Broken("history not replayable: %v", hist)
					}
					if e.K == "tun" {
						tuns[e.N]++
					}
				}
				key := scenario + "|" + w.key() + fmt.Sprintf("|tuns=%v", tuns)
				var menu []c31Ev
				nfl := len(w.net.inflight)
				if nfl > 4 {
					nfl = 4 // only the 4 oldest in-flight datagrams are offered (bounds branching; reordering among them is free)
				}
				for i := 0; i < nfl; i++ {
					menu = append(menu, c31Ev{K: "dl", I: i})
				}
				for i := 0; i < nfl; i++ {
					menu = append(menu, c31Ev{K: "dp", I: i}, c31Ev{K: "dr", I: i})
				}
				menu = append(menu, c31Ev{K: "hs", N: "a"}, c31Ev{K: "hs", N: "b"}, c31Ev{K: "cm", N: "a"}, c31Ev{K: "cm", N: "b"})
				for _, nn := range []string{"a", "b"} {
					if tuns[nn] < tunBudget {
						menu = append(menu, c31Ev{K: "tun", N: nn})
					}
				}
				if w.a.tunnels() != nil && w.b.tunnels() == nil {
					firstDone["a-first"] = true
				}
				if w.b.tunnels() != nil && w.a.tunnels() == nil {
					firstDone["b-first"] = true
				}
				shapes[w.shape()]++
				if probed[key] {
					return key, menu
				}
				probed[key] = true
				// (iii) so far
				if w.swaps["a"] > 0 && w.swaps["b"] > 0 {
					c.Violation("C31: both nodes swapped their primary tunnel", map[string]any{"scenario": scenario, "history": fmt.Sprint(hist)})
				}
				// (i) probe
				if w.hasCompletedTunnel() {
					probes++
					ok, rounds := w.probe(16)
					if rounds > maxRoundsSeen && ok {
						maxRoundsSeen = rounds
					}
					if ok {
						probeOK++
					} else {
						c.Violation("C31: traffic does not flow in both directions after a handshake completed (loss-free network, 16 handshake-timer rounds)",
							map[string]any{"scenario": scenario, "history": fmt.Sprint(hist), "A": w.a.tunnels(), "B": w.b.tunnels(), "state": w.shape()})
					}
				}
				// (ii) closure. Variant "steady": application traffic keeps flowing for 10 manager intervals before the
				// network goes quiet (even states); variant "idle": traffic stops immediately (odd states).
				closures++
				variant, tr := "steady-traffic-then-quiet", 10
				if closures%2 == 1 {
					variant, tr = "immediately-quiet", 0
				}
				if ok, why := w.closure(24+tr, tr); !ok {
					c.Violation("C31: quiet network without a single matching tunnel pair ("+variant+"): "+why,
						map[string]any{"scenario": scenario, "history": fmt.Sprint(hist), "variant": variant, "final": why, "swaps": fmt.Sprint(w.swaps), "A": w.a.tunnels(), "B": w.b.tunnels()})
				}
				if w.swaps["a"] > 0 && w.swaps["b"] > 0 {
					c.Violation("C31: both nodes swapped their primary tunnel", map[string]any{"scenario": scenario, "history": fmt.Sprint(hist), "phase": "probe/closure"})
				}
				return key, menu
			},
		})
	}
	c.Require(firstDone["a-first"] && firstDone["b-first"], "did not reach both 'A completes first' and 'B completes first': %v", firstDone)
	c.Require(len(shapes) >= 4, "too few distinct tunnel-count shapes: %v", shapes)
	c.Set("probes", probes)
	c.Set("probes_ok", probeOK)
	c.Set("closures", closures)
	c.Set("max_probe_rounds_needed", maxRoundsSeen)
	c.Set("shapes", shapes)
	c.Set("explanation", "states = distinct canonical network states (structural: index values renamed by position, no key bytes, timer wheels by distance); transitions = real event executions by replay; each new state is additionally probed and closed on the same instance")
	c.Assume("only the 4 oldest in-flight datagrams are offered for delivery/duplication/drop at each state")
	c.Assume("'as soon as either handshake completes' is read as: over a loss-free network with handshake retry timers running, within 16 retry rounds")
}

// TestVerifC31Replay re-executes one history (env C31_REPLAY="scenario:ev,ev,...", events as printed in labels) and
// prints the state after every step of history, probe and closure. No explorer involved.
func TestVerifC31Replay(t *testing.T) {
	spec := os.Getenv("C31_REPLAY")
	if spec == "" {
		t.Skip("C31_REPLAY not set")
	}
	parts := strings.SplitN(spec, ":", 2)
	w := c31New(t, 0, parts[0])
	defer w.net.close()
	show := func(tag string) {
		fmt.Printf("%-14s A=%v\n               B=%v\n               net=%v swaps=%v\n", tag, w.a.tunnels(), w.b.tunnels(), w.net.inflight, w.swaps)
	}
	show("init")
	if len(parts) > 1 && parts[1] != "" {
		for _, es := range strings.Split(parts[1], ",") {
			var e c31Ev
			if i := strings.IndexByte(es, '#'); i > 0 {
				e.K = es[:i]
				fmt.Sscanf(es[i+1:], "%d", &e.I)
			} else {
				kv := strings.SplitN(es, "/", 2)
				e.K, e.N = kv[0], kv[1]
			}
			w.apply(e)
			show(es)
		}
	}
	ok, rounds := w.probe(16)
	show(fmt.Sprintf("probe ok=%v r=%d", ok, rounds))
	for round := 0; round < 8; round++ {
		w.net.flushFIFO(400)
		vtime.Advance(2500 * vtime.Millisecond)
		w.cmTickObserved(w.a)
		w.net.collect()
		show(fmt.Sprintf("cl%d cm:a", round))
		w.net.flushFIFO(400)
		w.cmTickObserved(w.b)
		w.net.collect()
		show(fmt.Sprintf("cl%d cm:b", round))
		w.net.flushFIFO(400)
		w.a.hsTick()
		w.b.hsTick()
		w.net.collect()
		w.net.flushFIFO(400)
	}
}
