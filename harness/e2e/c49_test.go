//go:build verif && e2e_testing

package e2e

import (
	"bytes"
	"context"
	"errors"
	"fmt"
	"net"
	"io"
	"log/slog"
	"net/netip"
	"os"
	"reflect"
	"runtime"
	"strings"
	"sync"
	"sync/atomic"
	"testing"
	"time"
	"unsafe"

	"github.com/slackhq/nebula"
	"github.com/slackhq/nebula/cert"
	"github.com/slackhq/nebula/cert_test"
	"github.com/slackhq/nebula/config"
	"github.com/slackhq/nebula/header"
	"github.com/slackhq/nebula/overlay"
	"github.com/slackhq/nebula/overlay/tio"
	"github.com/slackhq/nebula/routing"
	"github.com/slackhq/nebula/udp"
	"github.com/slackhq/nebula/zzverif/mc"
	"go.uber.org/goleak"
	"go.yaml.in/yaml/v3"
)

// C49 — stopping a node at any point releases everything.
//
// Crash-point enumeration (fault_enumeration): real nodes built by nebula.Main and started with Control.Start (build
// tag e2e_testing: in-memory sockets and tun, REAL goroutines). Each scenario is a script of observable steps; for
// every step k and every node n the scenario is re-run from scratch up to step k, then Stop() is injected on node n.
// Oracle: Stop and Wait return (30 s hang detector, three orders of magnitude above the expected time); the node's
// socket and tun are closed (the harness pumps blocked on them are released); after the remaining nodes are stopped
// too, no goroutine created since the start of the run is left (goleak, with retry).
// The interleaving of the node's goroutines inside a step is free-running: crash points are exhaustive at step
// granularity, not at instruction granularity.

// c49Tun is the harness's own tun device (the repository's e2e TestTun panics when a write races its Close, which is a
// property of that test double, not of nebula).
type c49Tun struct {
	nets             []netip.Prefix
	rx               chan []byte
	done             chan struct{}
	once             sync.Once
	mu               sync.Mutex
	log              [][]byte
	writesAfterClose atomic.Int64
}

func (t *c49Tun) Close() error                          { t.once.Do(func() { close(t.done) }); return nil }
func (t *c49Tun) Activate() error                       { return nil }
func (t *c49Tun) Networks() []netip.Prefix              { return t.nets }
func (t *c49Tun) Name() string                          { return "c49tun" }
func (t *c49Tun) RoutesFor(netip.Addr) routing.Gateways { return routing.Gateways{} }
func (t *c49Tun) Queues(int) ([]tio.Queue, error) {
	return []tio.Queue{tio.NewSingleQueue(t, udp.MTU)}, nil
}
func (t *c49Tun) Read(b []byte) (int, error) {
	select {
	case p := <-t.rx:
		return copy(b, p), nil
	case <-t.done:
		return 0, os.ErrClosed
	}
}
func (t *c49Tun) Write(b []byte) (int, error) {
	select {
	case <-t.done:
		t.writesAfterClose.Add(1)
		return 0, io.ErrClosedPipe
	default:
	}
	t.mu.Lock()
	t.log = append(t.log, append([]byte(nil), b...))
	t.mu.Unlock()
	return len(b), nil
}
func (t *c49Tun) inject(b []byte) {
	select {
	case t.rx <- append([]byte(nil), b...):
	case <-t.done:
	}
}
func (t *c49Tun) isClosed() bool {
	select {
	case <-t.done:
		return true
	default:
		return false
	}
}

type c49Node struct {
	name    string
	tun     *c49Tun
	c       *nebula.Control
	conf    *config.C
	vpn     netip.Addr
	udp     netip.AddrPort
	stopped atomic.Bool
	stalled atomic.Bool // the node's socket does not drain (a stalled NIC queue): writes block once the 10-slot buffer is full
	pumps   sync.WaitGroup
	hook    *c49Hook
	startMu sync.Mutex // held around Control.Start so that an injected Stop never overlaps the harness's own Start call
	dnsPort int        // != 0: the node serves DNS on 127.0.0.1:dnsPort (a real socket), which Stop must release
}

// c49Hook is the node's log handler. It counts the records the node emits (info and above) and, when armed, turns the
// k-th record into a crash point: the goroutine that logs it is held (at most two seconds) while Stop is injected.
type c49Hook struct {
	w     *c49World
	n     *c49Node
	count atomic.Int64
	arm   atomic.Int64
}

func (h *c49Hook) Enabled(_ context.Context, l slog.Level) bool { return l >= slog.LevelInfo }
func (h *c49Hook) WithAttrs([]slog.Attr) slog.Handler          { return h }
func (h *c49Hook) WithGroup(string) slog.Handler               { return h }
func (h *c49Hook) Handle(_ context.Context, r slog.Record) error {
	k := h.count.Add(1)
	if a := h.arm.Load(); a != 0 && k == a {
		h.w.fire(r.Message)
	}
	return nil
}

type c49Hub struct {
	mu    sync.Mutex
	nodes map[netip.AddrPort]*c49Node
	hold  bool
	held  []*udp.Packet
	seen  int64
}

func (h *c49Hub) route(p *udp.Packet) {
	h.mu.Lock()
	h.seen++
	if h.hold {
		h.held = append(h.held, p.Copy())
		h.mu.Unlock()
		return
	}
	dst := h.nodes[p.To]
	h.mu.Unlock()
	if dst != nil && dst.stalled.Load() {
		// a node whose socket is stalled is not offered handshakes: answering one would park its reader in WriteTo and
		// the scenario wants the reader to keep consuming lighthouse notifications
		var hd header.H
		if hd.Parse(p.Data) == nil && hd.Type == header.Handshake {
			return
		}
	}
	if dst != nil && !dst.stopped.Load() {
		dst.c.InjectUDPPacket(p)
	}
}

// release delivers up to n held datagrams (n<0: all) and returns how many were delivered.
func (h *c49Hub) release(n int) int {
	h.mu.Lock()
	var out []*udp.Packet
	for len(h.held) > 0 && (n < 0 || len(out) < n) {
		out = append(out, h.held[0])
		h.held = h.held[1:]
	}
	nodes := h.nodes
	h.mu.Unlock()
	for _, p := range out {
		if dst := nodes[p.To]; dst != nil && !dst.stopped.Load() {
			dst.c.InjectUDPPacket(p)
		}
	}
	return len(out)
}

func (h *c49Hub) setHold(v bool) {
	h.mu.Lock()
	h.hold = v
	h.mu.Unlock()
	if !v {
		h.release(-1)
	}
}

func (h *c49Hub) heldCount() int {
	h.mu.Lock()
	defer h.mu.Unlock()
	return len(h.held)
}

type c49World struct {
	t     *testing.T
	hub   *c49Hub
	nodes []*c49Node
	ca    cert.Certificate
	caKey []byte
	// log-record crash points
	fireOnce sync.Once
	trigger  chan struct{} // closed when the armed record is being logged
	released chan struct{} // closed when the injected Stop has returned
	firedAt  string
}

var c49Aborted atomic.Bool // the scenario script of the current run stops waiting: a Stop was injected from a log record

func (w *c49World) fire(msg string) {
	fired := false
	w.fireOnce.Do(func() {
		fired = true
		w.firedAt = msg
		close(w.trigger)
	})
	if fired {
		select {
		case <-w.released:
		case <-time.After(2 * time.Second):
		}
	}
}

func (w *c49World) add(name, network string, overrides m) *c49Node {
	nets := []netip.Prefix{netip.MustParsePrefix(network)}
	ip4 := nets[0].Addr().As4()
	ip4[1] -= 128
	udpAddr := netip.AddrPortFrom(netip.AddrFrom4(ip4), 4242)
	_, _, keyPEM, certPEM := cert_test.NewTestCert(cert.Version2, cert.Curve_CURVE25519, w.ca, w.caKey, name, time.Now().Add(-time.Minute), time.Now().Add(time.Hour), nets, nil, []string{})
	caPEM, err := w.ca.MarshalPEM()
	if err != nil {
		w.t.Fatal(err)
	}
	mc0 := m{
		"pki":      m{"ca": string(caPEM), "cert": string(certPEM), "key": string(keyPEM)},
		"firewall": m{"outbound": []m{{"proto": "any", "port": "any", "host": "any"}}, "inbound": []m{{"proto": "any", "port": "any", "host": "any"}}},
		"listen":   m{"host": udpAddr.Addr().String(), "port": udpAddr.Port()},
		"logging":  m{"level": "error"},
		"timers":   m{"pending_deletion_interval": 2, "connection_alive_interval": 2},
	}
	for k, v := range overrides {
		mc0[k] = v
	}
	cb, err := yaml.Marshal(mc0)
	if err != nil {
		w.t.Fatal(err)
	}
	n := &c49Node{name: name}
	n.hook = &c49Hook{w: w, n: n}
	l := slog.New(n.hook)
	conf := config.NewC(l)
	if err := conf.LoadString(string(cb)); err != nil {
		w.t.Fatal(err)
	}
	tunDev := &c49Tun{nets: nets, rx: make(chan []byte, 64), done: make(chan struct{})}
	c, err := nebula.Main(conf, false, "c49", l, func(*config.C, *slog.Logger, []netip.Prefix, int) (overlay.Device, error) { return tunDev, nil })
	if err != nil {
		w.t.Fatalf("Main: %v", err)
	}
	n.c, n.conf, n.vpn, n.udp, n.tun = c, conf, nets[0].Addr(), udpAddr, tunDev
	w.nodes = append(w.nodes, n)
	w.hub.mu.Lock()
	w.hub.nodes[udpAddr] = n
	w.hub.mu.Unlock()
	return n
}

// startPumps drains the node's socket and tun the way a network and a kernel would. Both pumps return when the
// corresponding resource is closed, which is how the harness observes "socket closed" / "device closed".
func (w *c49World) startPumps(n *c49Node) {
	n.pumps.Add(1)
	go func() {
		defer n.pumps.Done()
		for {
			for n.stalled.Load() && !n.stopped.Load() {
				time.Sleep(time.Millisecond)
			}
			p := n.c.GetFromUDP(true)
			if p == nil {
				return
			}
			w.hub.route(p)
		}
	}()
}

func (n *c49Node) sawOnTun(marker string) bool {
	n.tun.mu.Lock()
	defer n.tun.mu.Unlock()
	for _, p := range n.tun.log {
		if bytes.Contains(p, []byte(marker)) {
			return true
		}
	}
	return false
}

// c49ParkedPunchFires counts goroutines that are inside the punch scheduler's timer callback, i.e. punch jobs that came due
// and are waiting for room on the worker queue.
func c49ParkedPunchFires() int {
	buf := make([]byte, 4<<20)
	buf = buf[:runtime.Stack(buf, true)]
	n := 0
	for _, g := range strings.Split(string(buf), "\n\n") {
		if strings.Contains(g, "NewScheduler[") && !strings.Contains(g, ").Run(") {
			n++
		}
	}
	return n
}

var errC49Aborted = errors.New("scenario script abandoned: a Stop was injected from a log record")

// dnsUp sends one DNS query to the node's responder and reports whether anything came back (bound and serving).
func (n *c49Node) dnsUp() bool {
	conn, err := net.Dial("udp", fmt.Sprintf("127.0.0.1:%d", n.dnsPort))
	if err != nil {
		return false
	}
	defer conn.Close()
	// header (id 0x1234, RD), one question: "x." A IN
	q := []byte{0x12, 0x34, 0x01, 0x00, 0, 1, 0, 0, 0, 0, 0, 0, 1, 'x', 0, 0, 1, 0, 1}
	if _, err := conn.Write(q); err != nil {
		return false
	}
	_ = conn.SetReadDeadline(time.Now().Add(50 * time.Millisecond))
	buf := make([]byte, 512)
	k, err := conn.Read(buf)
	return err == nil && k >= 12 && buf[0] == 0x12 && buf[1] == 0x34
}

// c49Sockets lists every UDP socket the node opened (Interface.writers: one per configured routine, also those the
// platform's routine clamp leaves unused), reached through reflection because only the first one has an accessor.
func c49Sockets(c *mc.Check, n *c49Node) []*udp.TesterConn {
	f := reflect.ValueOf(n.c.GetF()).Elem().FieldByName("writers")
	if !f.IsValid() || f.Kind() != reflect.Slice {
		c.Broken("Interface.writers is not a slice any more: the harness cannot enumerate the node's sockets")
	}
	f = reflect.NewAt(f.Type(), unsafe.Pointer(f.UnsafeAddr())).Elem()
	var out []*udp.TesterConn
	for i := 0; i < f.Len(); i++ {
		tc, ok := f.Index(i).Interface().(*udp.TesterConn)
		if !ok {
			c.Broken("Interface.writers[%d] is not a *udp.TesterConn in the e2e_testing build", i)
		}
		out = append(out, tc)
	}
	return out
}

// c49SocketClosed reports whether Close has run on the in-memory socket (its done channel is closed).
func c49SocketClosed(c *mc.Check, tc *udp.TesterConn) bool {
	d := reflect.ValueOf(tc).Elem().FieldByName("done")
	if !d.IsValid() || d.Kind() != reflect.Chan {
		c.Broken("udp.TesterConn.done is not a channel any more: the harness cannot observe socket closure")
	}
	d = reflect.NewAt(d.Type(), unsafe.Pointer(d.UnsafeAddr())).Elem()
	_, ok := d.TryRecv()
	// a closed channel yields (zero, false) immediately; an open empty one also yields (zero, false): tell them apart by select
	_ = ok
	chosen, _, recvOK := reflect.Select([]reflect.SelectCase{{Dir: reflect.SelectRecv, Chan: d}, {Dir: reflect.SelectDefault}})
	return chosen == 0 && !recvOK
}

func c49FreeUDPPort() int {
	pc, err := net.ListenPacket("udp", "127.0.0.1:0")
	if err != nil {
		return 0
	}
	defer pc.Close()
	return pc.LocalAddr().(*net.UDPAddr).Port
}

func c49WaitFor(what string, cond func() bool) error {
	deadline := time.Now().Add(60 * time.Second)
	for time.Now().Before(deadline) {
		if c49Aborted.Load() {
			return errC49Aborted
		}
		if cond() {
			return nil
		}
		time.Sleep(2 * time.Millisecond)
	}
	if f := os.Getenv("VERIF_C49_DUMP"); f != "" {
		buf := make([]byte, 8<<20)
		_ = os.WriteFile(f, buf[:runtime.Stack(buf, true)], 0o644)
	}
	return fmt.Errorf("setup step did not complete within 60s: %s", what)
}

func c49Within(d time.Duration, f func()) bool {
	done := make(chan struct{})
	go func() { f(); close(done) }()
	select {
	case <-done:
		return true
	case <-time.After(d):
		return false
	}
}

type c49Step struct {
	name string
	run  func(w *c49World) error
}

type c49Scenario struct {
	name      string
	build     func(w *c49World)
	steps     []c49Step
	logPoints bool // quick tier: also inject Stop at every log record of the complete script
}

func c49Scenarios() []c49Scenario {
	tun := func(from, to *c49Node, marker string) {
		from.tun.inject(BuildTunUDPPacket(to.vpn, 80, from.vpn, 80, []byte(marker)))
	}
	startAll := c49Step{"start", func(w *c49World) error {
		for _, n := range w.nodes {
			n.startMu.Lock()
			err := n.c.Start()
			n.startMu.Unlock()
			if err != nil && !c49Aborted.Load() {
				return err
			}
		}
		return nil
	}}
	pair := func(w *c49World) {
		a := w.add("a", "10.128.0.1/24", nil)
		b := w.add("b", "10.128.0.2/24", nil)
		a.c.InjectLightHouseAddr(b.vpn, b.udp)
		b.c.InjectLightHouseAddr(a.vpn, a.udp)
	}
	return []c49Scenario{
		{name: "single-node", build: func(w *c49World) { w.add("a", "10.128.0.1/24", nil) }, steps: []c49Step{startAll}, logPoints: true},
		{name: "three-routines-on-a-single-queue-platform", build: func(w *c49World) {
			// routines: 3 opens three sockets; the in-memory conn and the single-queue tun serve one reader, so Start clamps the
			// routine count — Stop still has to close all three sockets
			w.add("a", "10.128.0.1/24", m{"routines": 3})
		}, steps: []c49Step{startAll}},
		{name: "lighthouse-serving-dns", build: func(w *c49World) {
			// a lighthouse that answers DNS on a real loopback socket: Control.Start spawns the responder asynchronously
			port := c49FreeUDPPort()
			n := w.add("lh", "10.128.0.128/24", m{"lighthouse": m{"am_lighthouse": true, "serve_dns": true, "dns": m{"host": "127.0.0.1", "port": port}}})
			n.dnsPort = port
		}, steps: []c49Step{startAll,
			{"dns-responder-started", func(w *c49World) error {
				before := w.nodes[0].hook.count.Load()
				_ = before
				return c49WaitFor("the DNS responder goroutine announced itself", func() bool { return w.nodes[0].dnsUp() })
			}},
		}, logPoints: true},
		{name: "two-nodes-handshake-and-traffic", logPoints: true, build: pair, steps: []c49Step{
			startAll,
			{"first-message-in-flight", func(w *c49World) error {
				w.hub.setHold(true)
				tun(w.nodes[0], w.nodes[1], "HS-1")
				return c49WaitFor("stage 1 on the wire", func() bool { return w.hub.heldCount() >= 1 })
			}},
			{"reply-in-flight", func(w *c49World) error {
				w.hub.release(1)
				return c49WaitFor("stage 2 on the wire", func() bool { return w.hub.heldCount() >= 1 })
			}},
			{"established", func(w *c49World) error {
				w.hub.setHold(false)
				return c49WaitFor("queued packet delivered", func() bool { return w.nodes[1].sawOnTun("HS-1") })
			}},
			{"traffic-both-ways", func(w *c49World) error {
				tun(w.nodes[1], w.nodes[0], "BACK-1")
				tun(w.nodes[0], w.nodes[1], "FWD-2")
				return c49WaitFor("data both ways", func() bool { return w.nodes[0].sawOnTun("BACK-1") && w.nodes[1].sawOnTun("FWD-2") })
			}},
		}},
		{name: "relayed-tunnel", build: func(w *c49World) {
			a := w.add("a", "10.128.0.1/24", m{"relay": m{"use_relays": true}})
			r := w.add("r", "10.128.0.128/24", m{"relay": m{"am_relay": true}})
			b := w.add("b", "10.128.0.2/24", m{"relay": m{"use_relays": true}})
			a.c.InjectLightHouseAddr(r.vpn, r.udp)
			a.c.InjectRelays(b.vpn, []netip.Addr{r.vpn})
			r.c.InjectLightHouseAddr(b.vpn, b.udp)
			r.c.InjectLightHouseAddr(a.vpn, a.udp)
			b.c.InjectLightHouseAddr(r.vpn, r.udp)
			b.c.InjectRelays(a.vpn, []netip.Addr{r.vpn})
		}, steps: []c49Step{
			startAll,
			{"relay-negotiation-in-flight", func(w *c49World) error {
				w.hub.setHold(true)
				tun(w.nodes[0], w.nodes[2], "VIA-1")
				return c49WaitFor("first datagram towards the relay", func() bool { return w.hub.heldCount() >= 1 })
			}},
			{"relayed-established", func(w *c49World) error {
				w.hub.setHold(false)
				return c49WaitFor("relayed packet delivered", func() bool {
					tun(w.nodes[0], w.nodes[2], "VIA-1")
					return w.nodes[2].sawOnTun("VIA-1")
				})
			}},
			{"relayed-traffic-back", func(w *c49World) error {
				return c49WaitFor("relayed reply delivered", func() bool {
					tun(w.nodes[2], w.nodes[0], "VIA-BACK")
					return w.nodes[0].sawOnTun("VIA-BACK")
				})
			}},
		}},
		{name: "punch-queue-full-on-a-stalled-socket", build: func(w *c49World) {
			// lh is a lighthouse; a and five queriers q1..q5 report to it. Every querier advertises 10+10 addresses, so each
			// query for a makes the lighthouse send a a punch notification worth 20 punch jobs.
			lh := w.add("lh", "10.128.0.128/24", m{"lighthouse": m{"am_lighthouse": true}})
			client := func(extra m) m {
				o := m{"lighthouse": m{"hosts": []string{lh.vpn.String()}, "interval": 1},
					"static_host_map": m{lh.vpn.String(): []string{lh.udp.String()}}}
				for k, v := range extra {
					o[k] = v
				}
				return o
			}
			w.add("a", "10.128.0.1/24", client(m{"punchy": m{"punch": true, "delay": "50ms"}}))
			for i := 1; i <= 5; i++ {
				var adv []string
				for j := 1; j <= 10; j++ {
					adv = append(adv, fmt.Sprintf("192.0.%d.%d:4242", i, j), fmt.Sprintf("[2001:db8:%d::%d]:4242", i, j))
				}
				o := client(nil)
				o["lighthouse"].(m)["advertise_addrs"] = adv
				w.add(fmt.Sprintf("q%d", i), fmt.Sprintf("10.128.0.%d/24", 10+i), o)
			}
		}, steps: []c49Step{
			startAll,
			{"everyone-registered-with-the-lighthouse", func(w *c49World) error {
				lh := w.nodes[0]
				return c49WaitFor("lighthouse knows a and 20 addresses of every querier", func() bool {
					if lh.c.QueryLighthouse(w.nodes[1].vpn) == nil {
						return false
					}
					for _, q := range w.nodes[2:] {
						cm := lh.c.QueryLighthouse(q.vpn)
						if cm == nil {
							return false
						}
						reported := 0
						for _, ce := range *cm {
							reported += len(ce.Reported)
						}
						if reported < 20 {
							return false
						}
					}
					return true
				})
			}},
			{"punch-queue-full", func(w *c49World) error {
				a := w.nodes[1]
				a.stalled.Store(true)
				for _, q := range w.nodes[2:] {
					tun(q, a, "PUNCH-ME")
				}
				// 10 punches fit the socket buffer, 1 is held by the worker, 64 wait on the queue; everything beyond that is a
				// timer callback waiting for room
				return c49WaitFor("punch jobs waiting for room on a's full punch queue", func() bool { return c49ParkedPunchFires() >= 3 })
			}},
		}},
		{name: "reload-and-queued-lighthouse-work", build: func(w *c49World) {
			// a reports to a lighthouse that never answers; packets to unknown peers queue lighthouse queries and handshakes
			a := w.add("a", "10.128.0.1/24", m{"lighthouse": m{"hosts": []string{"10.128.0.250"}, "interval": 1},
				"static_host_map": m{"10.128.0.250": []string{"10.0.0.250:4242"}}})
			b := w.add("b", "10.128.0.2/24", nil)
			a.c.InjectLightHouseAddr(b.vpn, b.udp)
			b.c.InjectLightHouseAddr(a.vpn, a.udp)
		}, steps: []c49Step{
			startAll,
			{"queued-lighthouse-queries", func(w *c49World) error {
				a := w.nodes[0]
				for i := 10; i < 40; i++ {
					a.tun.inject(BuildTunUDPPacket(netip.AddrFrom4([4]byte{10, 128, 0, byte(i)}), 80, a.vpn, 80, []byte("Q")))
				}
				tun(a, w.nodes[1], "RL-1")
				return c49WaitFor("tunnel to b", func() bool { return w.nodes[1].sawOnTun("RL-1") })
			}},
			{"reload-firewall", func(w *c49World) error {
				a := w.nodes[0]
				settings := map[string]any{}
				for k, v := range a.conf.Settings {
					settings[k] = v
				}
				settings["firewall"] = m{"outbound": []m{{"proto": "any", "port": "any", "host": "any"}}, "inbound": []m{{"proto": "udp", "port": "80", "host": "any"}}}
				raw, err := yaml.Marshal(settings)
				if err != nil {
					return err
				}
				return a.conf.ReloadConfigString(string(raw))
			}},
		}},
	}
}

func c49Signature(sc, where, node, what string) string {
	return fmt.Sprintf("C49 %s: Stop of node %s %s: %s", sc, node, where, what)
}

func TestVerifC49(t *testing.T) {
	c := mc.Begin(t, "C49", "fault_enumeration")
	defer c.End()
	nb, na := time.Now().Add(-time.Hour), time.Now().Add(24*time.Hour)
	ca, _, caKey, _ := cert_test.NewTestCaCert(cert.Version2, cert.Curve_CURVE25519, nb, na, nil, nil, []string{})
	var points, nontrivial, maxGoroutines, logPoints, logPointsFired, socketsSeen int64
	outcomes := map[string]int64{}
	firedAt := map[string]int64{}
	scenarios := c49Scenarios()
	if !c.Thorough() {
		scenarios = scenarios[:6]
	}

	// runPoint executes one crash point. Step mode (logIdx == 0): the scenario's first k steps, then Stop on node ni.
	// Log-record mode (logIdx > 0): the whole script, with Stop injected while node ni emits its logIdx-th log record (if the
	// node emits fewer records in this run, Stop comes after the script as in step mode).
	// It returns false when ni is beyond the scenario's nodes, plus the number of records every node logged.
	runPoint := func(sc c49Scenario, k, ni int, logIdx int64, grace time.Duration) (bool, []int64) {
		base := goleak.IgnoreCurrent()
		w := &c49World{t: t, hub: &c49Hub{nodes: map[netip.AddrPort]*c49Node{}}, ca: ca, caKey: caKey, trigger: make(chan struct{}), released: make(chan struct{})}
		c49Aborted.Store(false)
		sc.build(w)
		if ni >= len(w.nodes) {
			for _, n := range w.nodes {
				n.c.Stop()
			}
			return false, nil
		}
		victim := w.nodes[ni]
		stopOK := make(chan bool, 1)
		noTrigger := make(chan struct{})
		var built []int64 // records logged while nebula.Main assembled the node: there is nothing to stop yet
		socks := map[*c49Node][]*udp.TesterConn{}
		for _, n := range w.nodes {
			built = append(built, n.hook.count.Load())
			socks[n] = c49Sockets(c, n)
			socketsSeen += int64(len(socks[n]))
		}
		if logIdx > 0 {
			victim.hook.arm.Store(built[ni] + logIdx)
			go func() {
				select {
				case <-w.trigger:
				case <-noTrigger:
					return
				}
				c49Aborted.Store(true)
				victim.stopped.Store(true)
				victim.startMu.Lock() // never overlap the script's own Start call on this node
				ok := c49Within(30*time.Second, func() { victim.c.Stop() })
				victim.startMu.Unlock()
				// grace > 0: the goroutine that logged the record stays held a little longer, so that everything Stop set in
				// motion (context watchers, closers) runs BEFORE it continues; grace == 0: it continues at once and races them
				time.Sleep(grace)
				close(w.released)
				stopOK <- ok
			}()
		}
		stepName := "main"
		started := false
		var setupErr error
		for i := 0; i < k; i++ {
			if sc.steps[i].name == "start" {
				for _, n := range w.nodes {
					w.startPumps(n)
				}
				started = true
			}
			if err := sc.steps[i].run(w); err != nil {
				if !errors.Is(err, errC49Aborted) {
					setupErr = err
				}
				break
			}
			if c49Aborted.Load() {
				break
			}
			stepName = sc.steps[i].name
		}
		if setupErr != nil && !c49Aborted.Load() {
			c.Broken("scenario %s step %d: %v", sc.name, k, setupErr)
		}
		if g := int64(runtime.NumGoroutine()); g > maxGoroutines {
			maxGoroutines = g
		}
		points++
		if started {
			nontrivial++
		}
		detail := map[string]any{"scenario": sc.name, "steps_before_stop": k, "last_step": stepName, "stopped_node": victim.name}
		where := fmt.Sprintf("after step %q", stepName)
		// --- the crash point ---
		injected := false
		if logIdx > 0 {
			select {
			case <-w.trigger:
				injected = true
			default:
				close(noTrigger)
				select { // the record may have been logged between the two tests
				case <-w.trigger:
					injected = true
				default:
				}
			}
		}
		if injected {
			logPointsFired++
			firedAt[sc.name+": "+w.firedAt]++
			where = fmt.Sprintf("while logging %q", w.firedAt)
			detail["stop_injected_while_logging"] = w.firedAt
			detail["log_record_index"] = logIdx
			detail["logging_goroutine_held_after_stop_ms"] = grace.Milliseconds()
			if !<-stopOK {
				c.Violation(c49Signature(sc.name, where, victim.name, "Stop did not return within 30s"), detail)
				return true, nil
			}
		} else {
			victim.stopped.Store(true)
			if !c49Within(30*time.Second, func() { victim.c.Stop() }) {
				c.Violation(c49Signature(sc.name, where, victim.name, "Stop did not return within 30s"), detail)
				return true, nil
			}
		}
		if started {
			if !c49Within(30*time.Second, func() { _ = victim.c.Wait() }) {
				c.Violation(c49Signature(sc.name, where, victim.name, "Wait did not return within 30s after Stop"), detail)
				return true, nil
			}
			if !c49Within(30*time.Second, victim.pumps.Wait) {
				c.Violation(c49Signature(sc.name, where, victim.name, "socket still open after Stop"), detail)
				return true, nil
			}
		}
		if !victim.tun.isClosed() {
			c.Violation(c49Signature(sc.name, where, victim.name, "tun device still open after Stop"), detail)
		}
		if st := victim.c.State(); st != nebula.StateStopped {
			c.Violation(c49Signature(sc.name, where, victim.name, fmt.Sprintf("state after Stop is %v", st)), detail)
		}
		select {
		case <-victim.c.Context().Done():
		default:
			c.Violation(c49Signature(sc.name, where, victim.name, "service context still live after Stop"), detail)
		}
		// the others keep running for a moment against the dead peer, then are stopped too
		for _, n := range w.nodes {
			if n != victim && started && !c49Aborted.Load() {
				n.tun.inject(BuildTunUDPPacket(victim.vpn, 80, n.vpn, 80, []byte("after-stop")))
			}
		}
		w.hub.setHold(false)
		for _, n := range w.nodes {
			if n == victim {
				continue
			}
			n.stopped.Store(true)
			if !c49Within(30*time.Second, func() { n.c.Stop() }) {
				c.Violation(c49Signature(sc.name, where, n.name, "Stop of a surviving node did not return within 30s"), detail)
				return true, nil
			}
			if started {
				if !c49Within(30*time.Second, func() { _ = n.c.Wait(); n.pumps.Wait() }) {
					c.Violation(c49Signature(sc.name, where, n.name, "surviving node did not release its resources within 30s"), detail)
					return true, nil
				}
			}
		}
		if err := goleak.Find(base, goleak.IgnoreTopFunction("github.com/slackhq/nebula/e2e.c49Within.func1")); err != nil {
			msg := err.Error()
			top := "unknown"
			for _, ln := range strings.Split(msg, "\n") {
				if strings.Contains(ln, "github.com/slackhq/nebula") && !strings.Contains(ln, "zz_verif") {
					top = strings.TrimSpace(strings.Split(ln, "(")[0])
					if i := strings.Index(top, "with "); i >= 0 { // goleak's header line: drop the goroutine number
						top = strings.TrimSuffix(strings.TrimSpace(top[i+5:]), " on top of the stack:")
					}
					break
				}
			}
			detail["goroutines"] = msg
			c.Violation(fmt.Sprintf("C49 %s: goroutine left running after every node was stopped (first stopped: %s %s): %s", sc.name, victim.name, where, top), detail)
		}
		// every UDP socket of every node is closed (also the ones a routine clamp left without a reader)
		for _, n := range w.nodes {
			for i, tc := range socks[n] {
				if !c49SocketClosed(c, tc) {
					c.Violation(fmt.Sprintf("C49 %s: udp socket %d of %d of node %s is still open after every node was stopped (first stopped: %s %s)", sc.name, i+1, len(socks[n]), n.name, victim.name, where), detail)
				}
			}
		}
		// real sockets the node opened (DNS responder) must be free again
		for _, n := range w.nodes {
			if n.dnsPort != 0 {
				pc, err := net.ListenPacket("udp", fmt.Sprintf("127.0.0.1:%d", n.dnsPort))
				if err != nil {
					detail["bind_error"] = err.Error()
					c.Violation(fmt.Sprintf("C49 %s: the DNS socket of %s is still bound after every node was stopped (first stopped: %s %s)", sc.name, n.name, victim.name, where), detail)
				} else {
					pc.Close()
				}
			}
		}
		if logIdx == 0 {
			outcomes[fmt.Sprintf("%s/%s", sc.name, stepName)]++
		}
		c.Sample(detail)
		var counts []int64
		for i, n := range w.nodes {
			counts = append(counts, n.hook.count.Load()-built[i])
		}
		return true, counts
	}

	for _, sc := range scenarios {
		var records []int64 // per node: log records of a complete run
		for k := 0; k <= len(sc.steps); k++ {
			for ni := 0; ; ni++ {
				if c.OutOfTime() {
					c.Capped("time budget")
					break
				}
				more, counts := runPoint(sc, k, ni, 0, 0)
				if !more {
					break
				}
				if k == len(sc.steps) && counts != nil {
					for len(records) <= ni {
						records = append(records, 0)
					}
					if counts[ni] > records[ni] {
						records[ni] = counts[ni]
					}
				}
			}
		}
		// log-record crash points: Stop injected while the node emits its j-th record of the complete script (info level and
		// above: start-up, listeners, handshakes, reloads). Quick: the scenarios marked for it; thorough: all.
		if !sc.logPoints && !c.Thorough() {
			continue
		}
		for ni, nrec := range records {
			for j := int64(1); j <= nrec && j <= 64; j++ {
				if c.OutOfTime() {
					c.Capped("time budget")
					break
				}
				for _, grace := range []time.Duration{0, 100 * time.Millisecond} {
					logPoints++
					runPoint(sc, len(sc.steps), ni, j, grace)
				}
			}
		}
	}
	_ = header.Len
	c.Require(nontrivial >= 4, "too few crash points with started nodes: %d", nontrivial)
	if !c.OutOfTime() && c.Violations() == 0 {
		c.Require(logPointsFired > 0, "no Stop was injected from a log record (%d attempted)", logPoints)
	}
	c.Set("evaluations", points)
	c.Set("distinct_nontrivial", nontrivial)
	c.Set("rule", "one evaluation = one crash point: (scenario, number of steps executed, node stopped first) or (scenario, node, index of the log record during which Stop is injected); non-trivial = the nodes were started (goroutines, sockets and devices live) when Stop was injected")
	c.Set("crash_points_by_phase", outcomes)
	c.Set("udp_sockets_checked_for_closure", socketsSeen)
	c.Set("log_record_crash_points_attempted", logPoints)
	c.Set("log_record_crash_points_injected", logPointsFired)
	c.Set("log_records_that_became_crash_points", firedAt)
	c.Set("max_goroutines_alive_at_a_crash_point", maxGoroutines)
	c.Assume("crash points are exhaustive at step granularity and, for the marked scenarios, at log-record granularity (the goroutine emitting the record is held while Stop is injected and released either at once or 100 ms later, at most 2 s); the interleaving of the other goroutines is free-running (real scheduler)")
	c.Assume("'returns promptly' is checked with a 30 s hang detector only")
}
