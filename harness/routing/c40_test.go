//go:build verif

package routing

import (
	"fmt"
	"hash/fnv"
	"math/big"
	"net/netip"
	"runtime"
	"sync"
	"sync/atomic"
	"testing"

	"github.com/slackhq/nebula/firewall"
	"github.com/slackhq/nebula/zzverif/mc"
)

// C40 — multipath routing is deterministic and weight-proportional.
//
// Bounded-exhaustive enumeration (E3) against an independent reference:
//   part A  the flow hash: every one of the 2^32 port pairs is hashed by the real hashPacket and compared with the
//           published mixing function the source cites (transcribed here); the transcription is proven to be a bijection
//           on 32-bit words by an explicit inverse checked on the same 2^32 words, so every 31-bit hash value has exactly
//           two port pairs: proportional shares of the hash space are proportional shares of flows.
//   part B  every gateway list of 1..N gateways over a weight alphabet that contains 1, small primes and the extremes
//           2^30, 2^31-1: the bucket bounds written by the real CalculateBucketsForGateways are compared with exact
//           big.Int arithmetic (non-decreasing, last = 2^31-1, each share within 1 of weight/total*2^31) and the real
//           BalancePacket is probed at and around every bound (both port-pair preimages of each hash value, obtained
//           by inverting the hash) with unrelated packet fields varied.
//   part C  for a few gateway lists every port pair is sent through BalancePacket; per-gateway flow counts must be
//           exactly twice the share and ok must always be true.

const c40Space = int64(1) << 31

func c40RefMix(x uint32) uint32 {
	// "Prospecting for Hash Functions", two rounds: [16 21f0aaad 15 d35a2d97 15]
	x ^= x >> 16
	x *= 0x21f0aaad
	x ^= x >> 15
	x *= 0xd35a2d97
	x ^= x >> 15
	return x
}

func c40InvMul(a uint32) uint32 { // multiplicative inverse of an odd a modulo 2^32 (Newton iteration)
	inv := a
	for i := 0; i < 6; i++ {
		inv *= 2 - a*inv
	}
	return inv
}

var c40Inv1, c40Inv2 = c40InvMul(0x21f0aaad), c40InvMul(0xd35a2d97)

func c40RefUnmix(y uint32) uint32 {
	y ^= y>>15 ^ y>>30
	y *= c40Inv2
	y ^= y>>15 ^ y>>30
	y *= c40Inv1
	y ^= y >> 16
	return y
}

func c40Addr(i int) netip.Addr { return netip.AddrFrom4([4]byte{192, 0, 2, byte(i + 1)}) }

type c40Variant struct {
	la, ra netip.Addr
	proto  uint8
	frag   bool
}

var c40Variants = []c40Variant{
	{netip.Addr{}, netip.Addr{}, 0, false},
	{netip.MustParseAddr("10.0.0.1"), netip.MustParseAddr("172.16.9.9"), firewall.ProtoTCP, false},
	{netip.MustParseAddr("10.0.0.2"), netip.MustParseAddr("172.16.9.9"), firewall.ProtoUDP, true},
	{netip.MustParseAddr("fd00::1"), netip.MustParseAddr("2001:db8::77"), firewall.ProtoICMPv6, false},
	{netip.MustParseAddr("255.255.255.255"), netip.MustParseAddr("0.0.0.0"), 255, true},
}

// c40Overflows reports whether the 64-bit expression (cum<<31 + total/2) of the hash-threshold formula leaves uint64
// for this list. Used only to name the input class in the violation signature.
func c40Overflows(ws []int) bool {
	total := new(big.Int)
	for _, w := range ws {
		total.Add(total, big.NewInt(int64(w)))
	}
	v := new(big.Int).Lsh(total, 31)
	v.Add(v, new(big.Int).Rsh(total, 1))
	return v.BitLen() > 64
}

type c40Stats struct {
	evals, vectors, probes, emptyShare, overflowClass, failing int64
	ownerSeen                                                  [16]int64
	distinct                                                   map[uint64]struct{}
	worst                                                      map[string]c40Fail // per signature: the smallest failing list
}

type c40Fail struct {
	ws     []int
	detail map[string]any
}

func c40Smaller(a, b []int) bool {
	if len(a) != len(b) {
		return len(a) < len(b)
	}
	for i := range a {
		if a[i] != b[i] {
			return a[i] < b[i]
		}
	}
	return false
}

func (st *c40Stats) report(sig string, ws []int, detail map[string]any) {
	st.failing++
	if old, ok := st.worst[sig]; !ok || c40Smaller(ws, old.ws) {
		st.worst[sig] = c40Fail{ws, detail}
	}
}

// c40CheckVector runs parts B's oracle on one weight vector. Returns number of evaluations.
func c40CheckVector(c *mc.Check, ws []int, st *c40Stats) {
	n := len(ws)
	gws := make([]Gateway, n)
	for i, w := range ws {
		gws[i] = NewGateway(c40Addr(i), w)
	}
	CalculateBucketsForGateways(gws)
	ub := make([]int64, n)
	for i := range gws {
		ub[i] = int64(gws[i].BucketUpperBound())
	}
	st.vectors++
	st.evals++
	if n >= 2 {
		h := fnv.New64a()
		fmt.Fprint(h, ub)
		st.distinct[h.Sum64()] = struct{}{}
	}

	var fails []string
	total := new(big.Int)
	for _, w := range ws {
		total.Add(total, big.NewInt(int64(w)))
	}
	prev := int64(-1)
	for i := 0; i < n; i++ {
		if ub[i] < prev {
			fails = append(fails, fmt.Sprintf("bound[%d]=%d below bound[%d]=%d (overlap / negative share)", i, ub[i], i-1, prev))
		}
		share := ub[i] - prev
		if share == 0 {
			st.emptyShare++
		}
		// |share*total - w*2^31| <= total   <=>   |share - w/total*2^31| <= 1
		d := new(big.Int).Mul(big.NewInt(share), total)
		d.Sub(d, new(big.Int).Lsh(big.NewInt(int64(ws[i])), 31))
		d.Abs(d)
		if d.Cmp(total) > 0 {
			fails = append(fails, fmt.Sprintf("share[%d]=%d is more than 1 away from weight/total*2^31", i, share))
		}
		prev = ub[i]
	}
	if ub[n-1] != c40Space-1 {
		fails = append(fails, fmt.Sprintf("last bound=%d, want 2^31-1 (hash values above it have no owner)", ub[n-1]))
	}

	// BalancePacket probes at and around every bound. The expected owner of hash h is the gateway whose half-open
	// interval (bound[i-1], bound[i]] contains h (flat first-match scan over the bounds read back from the gateways;
	// -1 = no bound covers h, which is itself a failure: a gap).
	owner := func(h int64) int {
		for i := 0; i < n; i++ {
			if h <= ub[i] {
				return i
			}
		}
		return -1
	}
	seenH := map[int64]bool{}
	probe := func(h int64) {
		if h < 0 || h >= c40Space || seenH[h] {
			return
		}
		seenH[h] = true
		want := owner(h)
		for hi := uint32(0); hi < 2; hi++ {
			x := c40RefUnmix(uint32(h) | hi<<31)
			for vi, v := range c40Variants {
				p := firewall.Packet{LocalAddr: v.la, RemoteAddr: v.ra, LocalPort: uint16(x >> 16), RemotePort: uint16(x), Protocol: v.proto, Fragment: v.frag}
				got, ok := BalancePacket(&p, gws)
				st.probes++
				st.evals++
				if want < 0 || !ok {
					if !ok && want >= 0 {
						fails = append(fails, fmt.Sprintf("BalancePacket ok=false for hash %d although bound[%d] covers it", h, want))
					} else if !ok {
						fails = append(fails, fmt.Sprintf("BalancePacket ok=false: hash %d has no owner (gap)", h))
					} else {
						fails = append(fails, fmt.Sprintf("BalancePacket ok=true for hash %d above every bound", h))
					}
					return
				}
				if got != c40Addr(want) {
					if vi > 0 {
						fails = append(fails, fmt.Sprintf("BalancePacket choice for ports %d/%d changes with addresses/protocol/fragment", p.LocalPort, p.RemotePort))
					} else {
						fails = append(fails, fmt.Sprintf("BalancePacket(hash %d)=%v, want gateway %d", h, got, want))
					}
					return
				}
				st.ownerSeen[want]++
			}
		}
	}
	probe(0)
	probe(c40Space - 1)
	for i := 0; i < n; i++ {
		probe(ub[i] - 1)
		probe(ub[i])
		probe(ub[i] + 1)
	}

	if len(fails) == 0 {
		return
	}
	detail := map[string]any{"weights": ws, "bucket_upper_bounds": ub, "failed": fails}
	if c40Overflows(ws) {
		st.overflowClass++
		st.report("CalculateBucketsForGateways: bounds wrong when (cumulative weight<<31)+total/2 exceeds 64 bits (total weight > 2^33-2, e.g. 5 gateways of weight 2^31-1): shares overlap / part of the hash space has no gateway", ws, detail)
		return
	}
	// name the first failing sub-oracle, without the concrete numbers
	sig := "gateway buckets: "
	switch {
	case ub[n-1] > c40Space-1:
		sig += "last bound above 2^31-1 (shares exceed the hash space)"
	case ub[n-1] < c40Space-1:
		sig += "last bound below 2^31-1 (gap at the top of the hash space)"
	default:
		f := fails[0]
		switch {
		case len(f) > 5 && f[:5] == "bound":
			sig += "bounds not non-decreasing"
		case len(f) > 5 && f[:5] == "share":
			sig += "share not proportional to weight within rounding"
		default:
			sig = "BalancePacket: result disagrees with the bucket bounds (" + c40Generic(f) + ")"
		}
	}
	st.report(sig, ws, detail)
}

func c40Generic(f string) string {
	switch {
	case len(f) >= 22 && f[:22] == "BalancePacket ok=false":
		return "ok=false on a covered hash"
	case len(f) >= 21 && f[:21] == "BalancePacket ok=true":
		return "ok=true above every bound"
	case len(f) >= 20 && f[:20] == "BalancePacket choice":
		return "choice depends on unrelated packet fields"
	}
	return "wrong gateway at a bucket boundary"
}

func TestVerifC40(t *testing.T) {
	c := mc.Begin(t, "C40", "exploration")
	defer c.End()
	workers := runtime.GOMAXPROCS(0)

	// ---------------------------------------------------------------- part A: the flow hash over port pairs
	// hashPacket == published mix & 0x7fffffff, mix is a bijection (inverse round trip), on every 32-bit port pair.
	const lpStep = 1 // both tiers cover every port pair (about 2 s on 16 cores)
	var hashEvals, hashMismatch, invMismatch atomic.Int64
	var firstBad atomic.Uint64
	firstBad.Store(^uint64(0))
	{
		var wg sync.WaitGroup
		var next atomic.Int64
		for w := 0; w < workers; w++ {
			wg.Add(1)
			go func() {
				defer wg.Done()
				p := firewall.Packet{LocalAddr: netip.MustParseAddr("10.1.1.1"), RemoteAddr: netip.MustParseAddr("10.2.2.2"), Protocol: firewall.ProtoTCP}
				for {
					blk := next.Add(1) - 1 // one block = 256 local ports x all remote ports
					if blk >= 256 {
						return
					}
					var n, bad, badInv int64
					for lp := int(blk) * 256; lp < int(blk+1)*256; lp += lpStep {
						p.LocalPort = uint16(lp)
						for rp := 0; rp < 65536; rp++ {
							p.RemotePort = uint16(rp)
							x := uint32(lp)<<16 | uint32(rp)
							m := c40RefMix(x)
							if hashPacket(&p) != int(m&0x7fffffff) {
								if bad == 0 {
									for {
										cur := firstBad.Load()
										if uint64(x) >= cur || firstBad.CompareAndSwap(cur, uint64(x)) {
											break
										}
									}
								}
								bad++
							}
							if c40RefUnmix(m) != x {
								badInv++
							}
							n++
						}
					}
					hashEvals.Add(n)
					hashMismatch.Add(bad)
					invMismatch.Add(badInv)
				}
			}()
		}
		wg.Wait()
	}
	if invMismatch.Load() != 0 {
		c.Broken("reference inverse is not an inverse of the reference mix (%d mismatches): harness bug", invMismatch.Load())
	}
	if hashMismatch.Load() != 0 {
		x := uint32(firstBad.Load())
		p := firewall.Packet{LocalPort: uint16(x >> 16), RemotePort: uint16(x)}
		c.Violation("hashPacket: differs from the cited uniform mixing function (flow -> hash-space mapping no longer shown uniform / within 0..2^31-1)",
			map[string]any{"local_port": p.LocalPort, "remote_port": p.RemotePort, "hashPacket": hashPacket(&p), "reference": c40RefMix(x) & 0x7fffffff, "mismatching_port_pairs": hashMismatch.Load()})
	}
	c.Set("hash_port_pairs_compared", hashEvals.Load())
	c.Require(hashEvals.Load() == 1<<32, "part A did not cover all 2^32 port pairs: %d", hashEvals.Load())

	// hashPacket itself must ignore unrelated fields (every variant, a 2^16 slice of port pairs + boundary ports)
	var fieldEvals int64
	for _, lp := range []int{0, 1, 53, 443, 32768, 65535} {
		for rp := 0; rp < 65536; rp += mc.Pick(c, 7, 1) {
			base := -1
			for _, v := range c40Variants {
				p := firewall.Packet{LocalAddr: v.la, RemoteAddr: v.ra, LocalPort: uint16(lp), RemotePort: uint16(rp), Protocol: v.proto, Fragment: v.frag}
				h := hashPacket(&p)
				q := p
				if hashPacket(&q) != h {
					c.Violation("hashPacket: not deterministic for one packet", map[string]any{"packet": p})
				}
				if base < 0 {
					base = h
				} else if h != base {
					c.Violation("hashPacket: flow hash changes with addresses/protocol/fragment flag", map[string]any{"local_port": lp, "remote_port": rp, "variant": fmt.Sprint(v)})
				}
				fieldEvals++
			}
		}
	}

	// ---------------------------------------------------------------- part B: every gateway list in the box
	alphabet := mc.Pick(c, []int{1, 2, 3, 7, 1 << 30, 1<<31 - 1}, []int{1, 2, 3, 7, 1 << 16, 1 << 30, 1<<31 - 2, 1<<31 - 1})
	maxN := mc.Pick(c, 6, 7)
	c.Set("weight_alphabet", alphabet)
	c.Set("max_gateways", maxN)
	// work items: (n, first two weights) -> the remaining n-2 positions are an odometer
	type item struct{ n, w0, w1 int }
	var items []item
	for n := 1; n <= maxN; n++ {
		if n == 1 {
			for a := range alphabet {
				items = append(items, item{1, a, 0})
			}
			continue
		}
		for a := range alphabet {
			for b := range alphabet {
				items = append(items, item{n, a, b})
			}
		}
	}
	stats := make([]*c40Stats, workers)
	var nextItem atomic.Int64
	var capped atomic.Bool
	var wg sync.WaitGroup
	for w := 0; w < workers; w++ {
		st := &c40Stats{distinct: map[uint64]struct{}{}, worst: map[string]c40Fail{}}
		stats[w] = st
		wg.Add(1)
		go func() {
			defer wg.Done()
			for {
				k := int(nextItem.Add(1) - 1)
				if k >= len(items) {
					return
				}
				if c.OutOfTime() {
					capped.Store(true)
					return
				}
				it := items[k]
				ws := make([]int, it.n)
				idx := make([]int, it.n)
				ws[0] = alphabet[it.w0]
				if it.n > 1 {
					ws[1] = alphabet[it.w1]
				}
				for {
					for j := 2; j < it.n; j++ {
						ws[j] = alphabet[idx[j]]
					}
					c40CheckVector(c, append([]int{}, ws...), st)
					j := it.n - 1
					for ; j >= 2; j-- {
						idx[j]++
						if idx[j] < len(alphabet) {
							break
						}
						idx[j] = 0
					}
					if j < 2 {
						break
					}
				}
			}
		}()
	}
	wg.Wait()
	if capped.Load() {
		c.Capped("soft time budget reached while enumerating gateway lists")
	}
	tot := &c40Stats{distinct: map[uint64]struct{}{}, worst: map[string]c40Fail{}}
	for _, st := range stats {
		tot.evals += st.evals
		tot.vectors += st.vectors
		tot.probes += st.probes
		tot.emptyShare += st.emptyShare
		tot.overflowClass += st.overflowClass
		tot.failing += st.failing
		for sig, f := range st.worst {
			if old, ok := tot.worst[sig]; !ok || c40Smaller(f.ws, old.ws) {
				tot.worst[sig] = f
			}
		}
		for i := range st.ownerSeen {
			tot.ownerSeen[i] += st.ownerSeen[i]
		}
		for k := range st.distinct {
			tot.distinct[k] = struct{}{}
		}
	}
	// one violation per signature, with the smallest failing list (fewest gateways, then smallest weights) as replay
	for sig, f := range tot.worst {
		c.Violation(sig, f.detail)
	}
	c.Set("failing_gateway_lists", tot.failing)
	wantVectors := int64(0)
	for n, pw := 1, int64(len(alphabet)); n <= maxN; n, pw = n+1, pw*int64(len(alphabet)) {
		wantVectors += pw
	}
	if !capped.Load() {
		c.Require(tot.vectors == wantVectors, "enumerated %d gateway lists, expected %d", tot.vectors, wantVectors)
	}
	for i := 0; i < maxN; i++ {
		c.Require(tot.ownerSeen[i] > 0 || c.Violations() > 0, "no BalancePacket probe was ever owned by gateway index %d", i)
	}
	c.Require(tot.emptyShare > 0 || c.Violations() > 0, "no list with an empty share (weight 1 next to 2^31-1 weights) was enumerated")
	c.Set("gateway_lists", tot.vectors)
	c.Set("balance_probes", tot.probes)
	c.Set("lists_with_an_empty_share", tot.emptyShare)
	c.Set("lists_in_64bit_overflow_class_failing", tot.overflowClass)
	c.Sample(map[string]any{"weights": []int{3, 7, 2}, "bounds": func() []int {
		g := []Gateway{NewGateway(c40Addr(0), 3), NewGateway(c40Addr(1), 7), NewGateway(c40Addr(2), 2)}
		CalculateBucketsForGateways(g)
		return []int{g[0].BucketUpperBound(), g[1].BucketUpperBound(), g[2].BucketUpperBound()}
	}()})
	c.Sample(map[string]any{"weights": []int{1, 1<<31 - 1, 1<<31 - 1, 1<<31 - 1}, "note": "first share is empty (0.33 rounds to 0): allowed, within rounding"})

	// ---------------------------------------------------------------- part C: all port pairs through BalancePacket
	fullVectors := [][]int{{1, 1, 1}, {3, 7, 2}, {1<<31 - 1, 1, 1 << 30, 5}}
	var fullEvals int64
	for vi, ws := range fullVectors {
		if c.OutOfTime() {
			c.Capped("soft time budget reached before the full port-pair sweep of every list")
			break
		}
		gws := make([]Gateway, len(ws))
		for i, w := range ws {
			gws[i] = NewGateway(c40Addr(i), w)
		}
		CalculateBucketsForGateways(gws)
		// quick tier: the first list gets all 2^32 port pairs, the others every 16th local port (2^28 pairs)
		step := 1
		if !c.Thorough() && vi > 0 {
			step = 16
		}
		counts := make([]atomic.Int64, len(ws))
		var notOk, wrong atomic.Int64
		var nextBlk atomic.Int64
		var wg2 sync.WaitGroup
		for w := 0; w < workers; w++ {
			wg2.Add(1)
			go func() {
				defer wg2.Done()
				v := c40Variants[1]
				p := firewall.Packet{LocalAddr: v.la, RemoteAddr: v.ra, Protocol: v.proto}
				idxOf := map[netip.Addr]int{}
				for i := range gws {
					idxOf[c40Addr(i)] = i
				}
				local := make([]int64, len(ws))
				var bad, nok int64
				for {
					blk := nextBlk.Add(1) - 1
					if blk >= 256 {
						break
					}
					for lp := int(blk) * 256; lp < int(blk+1)*256; lp += step {
						p.LocalPort = uint16(lp)
						for rp := 0; rp < 65536; rp++ {
							p.RemotePort = uint16(rp)
							a, ok := BalancePacket(&p, gws)
							if !ok {
								nok++
								continue
							}
							// expected owner from the reference hash and the bounds
							h := int(c40RefMix(uint32(lp)<<16|uint32(rp)) & 0x7fffffff)
							want := -1
							for i := range gws {
								if h <= gws[i].bucketUpperBound {
									want = i
									break
								}
							}
							// (gateway addresses are distinct, last byte = index+1)
							got := int(a.As4()[3]) - 1
							if got != want {
								bad++
							}
							local[got]++
						}
					}
				}
				for i := range local {
					counts[i].Add(local[i])
				}
				wrong.Add(bad)
				notOk.Add(nok)
			}()
		}
		wg2.Wait()
		pairs := int64(1<<32) / int64(step)
		fullEvals += pairs
		got := make([]int64, len(ws))
		for i := range counts {
			got[i] = counts[i].Load()
		}
		if notOk.Load() != 0 {
			c.Violation("BalancePacket: ok=false for some flow although buckets were calculated", map[string]any{"weights": ws, "flows_without_gateway": notOk.Load()})
		}
		if wrong.Load() != 0 {
			c.Violation("BalancePacket: chosen gateway is not the owner of the flow's hash value", map[string]any{"weights": ws, "flows": wrong.Load()})
		}
		if step == 1 && notOk.Load() == 0 {
			// exact flow shares: 2 port pairs per hash value
			total := new(big.Int)
			for _, w := range ws {
				total.Add(total, big.NewInt(int64(w)))
			}
			for i, w := range ws {
				d := new(big.Int).Mul(big.NewInt(got[i]), total) // |flows_i/2 - w/total*2^31| <= 1
				d.Sub(d, new(big.Int).Lsh(big.NewInt(int64(w)), 32))
				d.Abs(d)
				if d.Cmp(new(big.Int).Lsh(total, 1)) > 0 {
					c.Violation("BalancePacket: number of flows per gateway not proportional to weight within rounding", map[string]any{"weights": ws, "flows_per_gateway": got})
				}
			}
		}
		c.Sample(map[string]any{"weights": ws, "port_pairs": pairs, "flows_per_gateway": got})
	}
	c.Set("full_port_pair_sweeps", len(fullVectors))

	evals := hashEvals.Load() + fieldEvals + tot.evals + fullEvals
	c.Set("evaluations", evals)
	c.Set("distinct_nontrivial", int64(len(tot.distinct)))
	c.Set("rule", "evaluations = port pairs hashed (part A) + unrelated-field variants + gateway lists + BalancePacket boundary probes + port pairs balanced (part C); distinct_nontrivial = number of DISTINCT bucket-bound vectors produced by lists of >= 2 gateways (a 1-gateway list is trivial)")
	c.Require(len(tot.distinct) >= 2, "fewer than two distinct bucket vectors")
	c.Assume("a flow is identified by its (local port, remote port) pair, as in hashPacket; addresses, protocol and the fragment flag are the 'unrelated packet fields'")
	c.Assume("uniformity of flows over the hash space is established by equality with the mixing function cited in balance.go, whose bijectivity is checked by an explicit inverse on all 2^32 words; a different (equally uniform) hash would need the reference updated")
	c.Assume("an empty share (weight/total*2^31 < 0.5, rounded to 0) is within 'up to rounding' and is not reported; bounds are read as inclusive upper bounds")
	c.Assume("covered: routing.CalculateBucketsForGateways / BalancePacket / hashPacket. Not covered: the fallback in inside.go getOrHandshakeConsiderRouting that deliberately abandons the chosen gateway when it is unreachable (needs a driven node, E4)")
}
