//go:build verif

package batch

import (
	"encoding/binary"
	"fmt"
	"io"
	"log/slog"
	"runtime"
	"sort"
	"strings"
	"sync"
	"sync/atomic"
	"syscall"
	"testing"

	"github.com/slackhq/nebula/firewall"
	"github.com/slackhq/nebula/iputil"
	"github.com/slackhq/nebula/overlay/tio"
	"github.com/slackhq/nebula/zzverif/mc"
)

// C23 — receive coalescing is transparent to the tun device.
//
// Engine E3: bounded-exhaustive enumeration of batches. A batch is a sequence of k slots in the sender's transmission
// order; every slot picks a packet shape (flow + kind, see c23shapes) and one of two tunnel sessions (epochs); the
// packets are materialised with running per-flow sequence numbers / IPv4 IDs, handed to a real MultiCoalescer in an
// arrival order (a permutation), and Flush writes into a recording tio.GSOWriter that plays the kernel:
//   (a) it refuses what tio.Offload.WriteGSO or the kernel (virtio_net_hdr_to_skb, ip_rcv_core, tcp/udp GSO) refuse,
//   (b) it re-segments every accepted WriteGSO with a naive transcription of the kernel's GSO arithmetic
//       (check-field adjusted by the length delta, then finished over the bytes; lengths, IDs, seq, flags).
// Oracle: multiset of delivered packets == multiset of batch packets modulo kernel-rewritten fields; per (flow, session)
// order == counter order except that a pure ACK may trail; every re-segmented packet has valid checksums and lengths.

// ------------------------------------------------------------------------------------------------ checksum helpers

func c23sum(b []byte, acc uint32) uint32 {
	i := 0
	for ; i+1 < len(b); i += 2 {
		acc += uint32(b[i])<<8 | uint32(b[i+1])
	}
	if i < len(b) {
		acc += uint32(b[i]) << 8
	}
	return acc
}

func c23fold(acc uint32) uint16 {
	for acc>>16 != 0 {
		acc = (acc & 0xffff) + (acc >> 16)
	}
	return uint16(acc)
}

// ------------------------------------------------------------------------------------------------ packet builder

type c23pk struct {
	v6       bool
	proto    byte
	tos      byte
	df       bool
	id       uint16
	mf       bool
	ipOpt    bool   // IPv4: one 4-byte option word (IHL 6)
	v6ext    int    // 0 none, 1 destination options (8 bytes), 2 fragment header (first fragment, M=1)
	flow     uint32 // IPv6 flow label
	host     byte   // last address byte of the source
	sport    uint16
	dport    uint16
	seq, ack uint32
	flags    byte
	win      uint16
	tcpOpt   bool // 12 bytes of options (NOP NOP timestamp)
	payload  []byte
	udpDelta int  // UDP length field = 8 + len(payload) + udpDelta
	noCsum   bool // UDP checksum field 0 ("not computed")
	trailing int  // bytes appended beyond the IP total length
}

func (p *c23pk) bytes() []byte {
	var l4 []byte
	switch p.proto {
	case 6:
		hl := 20
		if p.tcpOpt {
			hl = 32
		}
		l4 = make([]byte, hl+len(p.payload))
		binary.BigEndian.PutUint16(l4[0:2], p.sport)
		binary.BigEndian.PutUint16(l4[2:4], p.dport)
		binary.BigEndian.PutUint32(l4[4:8], p.seq)
		binary.BigEndian.PutUint32(l4[8:12], p.ack)
		l4[12] = byte(hl/4) << 4
		l4[13] = p.flags
		binary.BigEndian.PutUint16(l4[14:16], p.win)
		if p.tcpOpt {
			copy(l4[20:32], []byte{1, 1, 8, 10, 0, 0, 0x11, 0x22, 0, 0, 0x33, 0x44})
		}
		copy(l4[hl:], p.payload)
	case 17:
		l4 = make([]byte, 8+len(p.payload))
		binary.BigEndian.PutUint16(l4[0:2], p.sport)
		binary.BigEndian.PutUint16(l4[2:4], p.dport)
		binary.BigEndian.PutUint16(l4[4:6], uint16(8+len(p.payload)+p.udpDelta))
		copy(l4[8:], p.payload)
	case 1, 58:
		l4 = make([]byte, 8+len(p.payload))
		l4[0] = 8
		if p.proto == 58 {
			l4[0] = 128
		}
		binary.BigEndian.PutUint16(l4[4:6], p.sport)
		binary.BigEndian.PutUint16(l4[6:8], uint16(p.seq))
		copy(l4[8:], p.payload)
	default:
		l4 = make([]byte, 4+len(p.payload))
		l4[2], l4[3] = 0x08, 0x00
		copy(l4[4:], p.payload)
	}
	var ip []byte
	var src, dst []byte
	if !p.v6 {
		ihl := 20
		if p.ipOpt {
			ihl = 24
		}
		ip = make([]byte, ihl, ihl+len(l4)+p.trailing)
		ip[0] = 0x40 | byte(ihl/4)
		ip[1] = p.tos
		binary.BigEndian.PutUint16(ip[2:4], uint16(ihl+len(l4)))
		binary.BigEndian.PutUint16(ip[4:6], p.id)
		var ff uint16
		if p.df {
			ff |= 0x4000
		}
		if p.mf {
			ff |= 0x2000
		}
		binary.BigEndian.PutUint16(ip[6:8], ff)
		ip[8] = 64
		ip[9] = p.proto
		copy(ip[12:16], []byte{10, 0, 0, p.host})
		copy(ip[16:20], []byte{10, 0, 0, 2})
		if p.ipOpt {
			copy(ip[20:24], []byte{1, 1, 1, 0})
		}
		binary.BigEndian.PutUint16(ip[10:12], ^c23fold(c23sum(ip, 0)))
		src, dst = ip[12:16], ip[16:20]
	} else {
		ext := 0
		if p.v6ext != 0 {
			ext = 8
		}
		ip = make([]byte, 40+ext, 40+ext+len(l4)+p.trailing)
		ip[0] = 0x60 | p.tos>>4
		ip[1] = p.tos<<4 | byte(p.flow>>16)&0x0f
		ip[2] = byte(p.flow >> 8)
		ip[3] = byte(p.flow)
		binary.BigEndian.PutUint16(ip[4:6], uint16(ext+len(l4)))
		ip[6] = p.proto
		ip[7] = 64
		ip[8], ip[9] = 0xfd, 0x00
		ip[23] = p.host
		ip[24], ip[25] = 0xfd, 0x00
		ip[39] = 2
		switch p.v6ext {
		case 1:
			ip[6] = 60
			copy(ip[40:48], []byte{p.proto, 0, 1, 4, 0, 0, 0, 0})
		case 2:
			ip[6] = 44
			copy(ip[40:48], []byte{p.proto, 0, 0, 1, 0xca, 0xfe, 0, byte(p.id)})
		}
		src, dst = ip[8:24], ip[24:40]
	}
	// transport checksum (valid, as a real sender would have produced it)
	ps := c23sum(src, 0)
	ps = c23sum(dst, ps)
	switch p.proto {
	case 6:
		ps += 6 + uint32(len(l4))
		binary.BigEndian.PutUint16(l4[16:18], ^c23fold(c23sum(l4, ps)))
	case 17:
		ul := 8 + len(p.payload) + p.udpDelta
		switch {
		case p.noCsum:
		case ul >= 8 && ul <= len(l4):
			ps += 17 + uint32(ul)
			cs := ^c23fold(c23sum(l4[:ul], ps))
			if cs == 0 {
				cs = 0xffff
			}
			binary.BigEndian.PutUint16(l4[6:8], cs)
		default:
			l4[6], l4[7] = 0xbe, 0xef
		}
	case 1:
		binary.BigEndian.PutUint16(l4[2:4], ^c23fold(c23sum(l4, 0)))
	case 58:
		ps += 58 + uint32(len(l4))
		binary.BigEndian.PutUint16(l4[2:4], ^c23fold(c23sum(l4, ps)))
	}
	out := append(ip, l4...)
	for i := 0; i < p.trailing; i++ {
		out = append(out, 0xee)
	}
	return out
}

// c23parse transcribes what nebula's newPacket (outside.go) leaves in the firewall.ParsedPacket fields that
// MultiCoalescer.Commit copies: Protocol, IPHdrLen, FragAny. ok=false: newPacket would have rejected the packet and it
// would never reach Commit. (Package nebula cannot be imported from here; the IPv6 walk uses the real iputil code.)
func c23parse(pkt []byte) (proto byte, ipHdrLen int, fragAny bool, ok bool) {
	if len(pkt) < 1 {
		return
	}
	switch pkt[0] >> 4 {
	case 4:
		if len(pkt) < 20 {
			return
		}
		ihl := int(pkt[0]&0x0f) << 2
		if ihl < 20 {
			return
		}
		ff := binary.BigEndian.Uint16(pkt[6:8])
		nonFirst := ff&0x1fff != 0
		fragAny = ff&0x3fff != 0
		proto = pkt[9]
		min := ihl
		if !nonFirst {
			min += 4
			if proto == 1 {
				min += 2
			}
		}
		if len(pkt) < min {
			return
		}
		return proto, ihl, fragAny, true
	case 6:
		pr, off, isFrag, anyFrag, err := iputil.IPv6FindUpperProtocol(pkt)
		if err != nil {
			return
		}
		if !isFrag {
			switch pr {
			case 58:
				if len(pkt) < off+4 {
					return
				}
			case 6, 17:
				if len(pkt) < off+4 {
					return
				}
			}
		}
		return pr, off, anyFrag, true
	}
	return
}

// ------------------------------------------------------------------------------------------------ shapes

type c23flow struct {
	seq     uint32 // next TCP sequence number
	id      uint16 // next IPv4 ID
	full    int    // "full" payload size of this run
	started bool
}

const (
	c23gT1 = iota + 1
	c23gT2
	c23gT3
	c23gU1
	c23gU2
	c23gU3
	c23gX1
	c23gX2
	c23gX3
	c23gFrag = 100 // + base group: fragments of a flow form their own order group (ports are not reliably visible)
)

type c23shape struct {
	name  string
	group int
	core  bool // member of the reduced alphabet used for the deeper boxes
	mk    func(f *c23flow, pay func(n int) []byte) c23pk
}

const c23ack, c23psh, c23ece, c23cwr, c23fin, c23syn, c23rst, c23urg = 0x10, 0x08, 0x40, 0x80, 0x01, 0x02, 0x04, 0x20

func c23shapes() []c23shape {
	t1 := func(f *c23flow) c23pk {
		return c23pk{proto: 6, df: true, host: 1, sport: 1000, dport: 2000, ack: 7777, flags: c23ack, win: 0xffff}
	}
	t2 := func(f *c23flow) c23pk {
		return c23pk{v6: true, proto: 6, host: 1, sport: 1000, dport: 2000, ack: 7777, flags: c23ack, win: 0xffff, flow: 0x12345}
	}
	t3 := func(f *c23flow) c23pk {
		return c23pk{proto: 6, df: false, host: 1, sport: 1001, dport: 2000, ack: 7777, flags: c23ack, win: 0xffff}
	}
	u1 := func(f *c23flow) c23pk { return c23pk{proto: 17, df: true, host: 1, sport: 5000, dport: 6000} }
	u2 := func(f *c23flow) c23pk { return c23pk{proto: 17, df: false, host: 1, sport: 5001, dport: 6000} }
	u3 := func(f *c23flow) c23pk { return c23pk{v6: true, proto: 17, host: 1, sport: 5000, dport: 6000} }
	// data: a TCP segment of n payload bytes at the running sequence number, IPv4 ID taken from the running counter
	data := func(base func(*c23flow) c23pk, n func(f *c23flow) int, mod func(p *c23pk, f *c23flow)) func(f *c23flow, pay func(int) []byte) c23pk {
		return func(f *c23flow, pay func(int) []byte) c23pk {
			p := base(f)
			if mod != nil {
				mod(&p, f) // may move f.seq / f.id first (gap, id jump)
			}
			sz := n(f)
			p.payload = pay(sz)
			if p.proto == 6 {
				p.seq = f.seq
				if p.flags&c23syn != 0 && sz == 0 {
					f.seq++
				}
				f.seq += uint32(sz)
			}
			if !p.v6 {
				p.id = f.id
				f.id++
			}
			return p
		}
	}
	full := func(f *c23flow) int { return f.full }
	short := func(f *c23flow) int { return f.full/2 - 1 }
	over := func(f *c23flow) int { return f.full + 5 }
	zero := func(f *c23flow) int { return 0 }
	fl := func(x byte) func(p *c23pk, f *c23flow) { return func(p *c23pk, f *c23flow) { p.flags = x } }
	S := []c23shape{
		{"t1.data", c23gT1, true, data(t1, full, nil)},
		{"t1.data+psh", c23gT1, true, data(t1, full, fl(c23ack|c23psh))},
		{"t1.short", c23gT1, true, data(t1, short, nil)},
		{"t1.over", c23gT1, false, data(t1, over, nil)},
		{"t1.ack", c23gT1, true, data(t1, zero, nil)},
		{"t1.ack+psh", c23gT1, false, data(t1, zero, fl(c23ack|c23psh))},
		{"t1.gap", c23gT1, true, data(t1, full, func(p *c23pk, f *c23flow) { f.seq += 100 })},
		{"t1.dup", c23gT1, false, func(f *c23flow, pay func(int) []byte) c23pk {
			// retransmission: the previous segment's sequence position again; the cursor does not move
			p := t1(f)
			p.payload = pay(f.full)
			p.seq = f.seq - uint32(f.full)
			p.id = f.id
			f.id++
			return p
		}},
		{"t1.ece", c23gT1, true, data(t1, full, fl(c23ack|c23ece))},
		{"t1.cwr", c23gT1, false, data(t1, full, fl(c23ack|c23cwr))},
		{"t1.fin", c23gT1, true, data(t1, full, fl(c23ack|c23fin))},
		{"t1.syn", c23gT1, false, data(t1, zero, fl(c23syn))},
		{"t1.rst", c23gT1, false, data(t1, zero, fl(c23ack|c23rst))},
		{"t1.urg", c23gT1, false, data(t1, full, fl(c23ack|c23urg))},
		{"t1.noack", c23gT1, false, data(t1, full, fl(c23psh))},
		{"t1.tcpopt", c23gT1, false, data(t1, full, func(p *c23pk, f *c23flow) { p.tcpOpt = true })},
		{"t1.ce", c23gT1, true, data(t1, full, func(p *c23pk, f *c23flow) { p.tos = 0x03 })},
		{"t1.ipopt", c23gT1, false, data(t1, full, func(p *c23pk, f *c23flow) { p.ipOpt = true })},
		{"t1.frag", c23gT1 + c23gFrag, false, data(t1, full, func(p *c23pk, f *c23flow) { p.mf = true; p.df = false })},
		{"t1.win", c23gT1, false, data(t1, full, func(p *c23pk, f *c23flow) { p.win = 0x1000 })},
		{"t1.ackno", c23gT1, false, data(t1, full, func(p *c23pk, f *c23flow) { p.ack = 9999 })},
		{"t1.trail", c23gT1, false, data(t1, full, func(p *c23pk, f *c23flow) { p.trailing = 3 })},
		// DF differs from the flow's other packets while sequence number and IPv4 ID continue the run: the kernel would stamp
		// the whole superpacket with the first packet's DF and consecutive IDs, so such a packet must not join it
		{"t1.nodf", c23gT1, false, data(t1, full, func(p *c23pk, f *c23flow) { p.df = false })},
		{"t3.df", c23gT3, false, data(t3, full, func(p *c23pk, f *c23flow) { p.df = true })},
		{"u1.nodf", c23gU1, false, data(u1, full, func(p *c23pk, f *c23flow) { p.df = false })},
		{"u2.df", c23gU2, false, data(u2, full, func(p *c23pk, f *c23flow) { p.df = true })},
		{"t2.data", c23gT2, true, data(t2, full, nil)},
		{"t2.data+psh", c23gT2, false, data(t2, full, fl(c23ack|c23psh))},
		{"t2.short", c23gT2, false, data(t2, short, nil)},
		{"t2.ack", c23gT2, true, data(t2, zero, nil)},
		{"t2.dstopt", c23gT2, false, data(t2, full, func(p *c23pk, f *c23flow) { p.v6ext = 1 })},
		{"t2.ce", c23gT2, false, data(t2, full, func(p *c23pk, f *c23flow) { p.tos = 0x03 })},
		{"t2.frag", c23gT2 + c23gFrag, false, data(t2, full, func(p *c23pk, f *c23flow) { p.v6ext = 2 })},
		{"t2.flowlabel", c23gT2, false, data(t2, full, func(p *c23pk, f *c23flow) { p.flow = 0x54321 })},
		{"t3.data", c23gT3, true, data(t3, full, nil)},
		{"t3.idjump", c23gT3, true, data(t3, full, func(p *c23pk, f *c23flow) { f.id += 7 })},
		{"u1.data", c23gU1, true, data(u1, full, nil)},
		{"u1.short", c23gU1, true, data(u1, short, nil)},
		{"u1.over", c23gU1, false, data(u1, over, nil)},
		{"u1.zero", c23gU1, true, data(u1, zero, nil)},
		{"u1.len<ip", c23gU1, true, data(u1, full, func(p *c23pk, f *c23flow) { p.udpDelta = -3 })},
		{"u1.len>ip", c23gU1, false, data(u1, full, func(p *c23pk, f *c23flow) { p.udpDelta = 4 })},
		{"u1.ipopt", c23gU1, false, data(u1, full, func(p *c23pk, f *c23flow) { p.ipOpt = true })},
		{"u1.frag", c23gU1 + c23gFrag, false, data(u1, full, func(p *c23pk, f *c23flow) { p.mf = true; p.df = false })},
		{"u1.tos", c23gU1, false, data(u1, full, func(p *c23pk, f *c23flow) { p.tos = 0x2e << 2 })},
		{"u1.nocsum", c23gU1, false, data(u1, full, func(p *c23pk, f *c23flow) { p.noCsum = true })},
		{"u1.trail", c23gU1, false, data(u1, full, func(p *c23pk, f *c23flow) { p.trailing = 2 })},
		{"u2.data", c23gU2, true, data(u2, full, nil)},
		{"u2.idjump", c23gU2, false, data(u2, full, func(p *c23pk, f *c23flow) { f.id += 7 })},
		{"u3.data", c23gU3, true, data(u3, full, nil)},
		{"u3.short", c23gU3, false, data(u3, short, nil)},
		{"u3.zero", c23gU3, false, data(u3, zero, nil)},
		{"x.icmp4", c23gX1, true, data(func(f *c23flow) c23pk { return c23pk{proto: 1, df: true, host: 1, sport: 77} }, full, nil)},
		{"x.gre4", c23gX2, false, data(func(f *c23flow) c23pk { return c23pk{proto: 47, df: true, host: 1} }, full, nil)},
		{"x.icmp6", c23gX3, false, data(func(f *c23flow) c23pk { return c23pk{v6: true, proto: 58, host: 1, sport: 77} }, full, nil)},
	}
	return S
}

func c23initialFlows(m *[c23gX3 + 1]c23flow, full int) {
	for g := c23gT1; g <= c23gX3; g++ {
		m[g] = c23flow{full: full, seq: 1000, id: 0x100}
	}
	m[c23gT1].seq = 0xffffffff - uint32(full) - uint32(full)/2 // wraps inside the second full segment
	m[c23gT3].id = 0xfffe                                       // sequential IDs wrap
	m[c23gU2].id = 0xffff
}

// ------------------------------------------------------------------------------------------------ normalisation

// c23norm maps a packet to the form that ignores exactly the fields the kernel rewrites when it segments an offloaded
// write: IP total/payload length, IPv4 header checksum, IPv4 ID of atomic datagrams (DF=1, MF=0, offset 0: RFC 6864),
// TCP/UDP checksum, UDP length. Link-layer padding beyond the IP-declared length is dropped first (ip_rcv trims it).
func c23norm(pkt []byte) string {
	if len(pkt) < 20 {
		return "raw:" + string(pkt)
	}
	switch pkt[0] >> 4 {
	case 4:
		ihl := int(pkt[0]&0x0f) * 4
		if ihl < 20 || ihl > len(pkt) {
			return "raw:" + string(pkt)
		}
		tl := int(binary.BigEndian.Uint16(pkt[2:4]))
		if tl >= ihl && tl <= len(pkt) {
			pkt = pkt[:tl]
		}
		b := append([]byte("ip4:"), pkt...)
		q := b[4:]
		q[2], q[3], q[10], q[11] = 0, 0, 0, 0
		ff := binary.BigEndian.Uint16(q[6:8])
		if ff&0x4000 != 0 && ff&0x3fff == 0 {
			q[4], q[5] = 0, 0
		}
		if ff&0x3fff == 0 {
			c23normL4(q[ihl:], q[9])
		}
		return string(b)
	case 6:
		if len(pkt) < 40 {
			return "raw:" + string(pkt)
		}
		pl := int(binary.BigEndian.Uint16(pkt[4:6]))
		if 40+pl <= len(pkt) {
			pkt = pkt[:40+pl]
		}
		b := append([]byte("ip6:"), pkt...)
		q := b[4:]
		q[4], q[5] = 0, 0
		c23normL4(q[40:], q[6]) // only when the transport header directly follows the fixed header
		return string(b)
	}
	return "raw:" + string(pkt)
}

func c23normL4(l4 []byte, proto byte) {
	switch proto {
	case 6:
		if len(l4) >= 20 {
			l4[16], l4[17] = 0, 0
		}
	case 17:
		if len(l4) >= 8 {
			l4[4], l4[5], l4[6], l4[7] = 0, 0, 0, 0
		}
	}
}

// c23classify returns order-relevant facts of an input packet, read from its bytes (not from the shape table).
func c23isPureAck(pkt []byte, proto byte, ipHdrLen int, fragAny bool) bool {
	if proto != 6 || fragAny || len(pkt) < ipHdrLen+20 {
		return false
	}
	// IP-declared end
	end := len(pkt)
	if pkt[0]>>4 == 4 {
		if tl := int(binary.BigEndian.Uint16(pkt[2:4])); tl <= end {
			end = tl
		}
	} else if pl := 40 + int(binary.BigEndian.Uint16(pkt[4:6])); pl <= end {
		end = pl
	}
	doff := int(pkt[ipHdrLen+12]>>4) * 4
	fl := pkt[ipHdrLen+13]
	return doff >= 20 && ipHdrLen+doff == end && fl&c23ack != 0 && fl&(c23syn|c23fin|c23rst) == 0
}

// ------------------------------------------------------------------------------------------------ the kernel (model)

type c23out struct {
	pkt     []byte
	fromGSO bool
}

type c23writer struct {
	tso, uso bool
	out      []c23out
	events   []int // 0 = plain write, n = offloaded write re-segmented into n packets
	rejects  []string
	gso      [4]int // multi-segment superpackets: tcp4, tcp6, udp4, udp6
	maxSegs  int
}

func (w *c23writer) reset() {
	w.out, w.events, w.rejects = w.out[:0], w.events[:0], w.rejects[:0]
	w.gso = [4]int{}
	w.maxSegs = 0
}

func (w *c23writer) pattern() string {
	var sb strings.Builder
	for i, ev := range w.events {
		if i > 0 {
			sb.WriteByte(',')
		}
		if ev == 0 {
			sb.WriteByte('W')
		} else {
			fmt.Fprintf(&sb, "G%d", ev)
		}
	}
	return sb.String()
}

func (w *c23writer) Capabilities() tio.Capabilities { return tio.Capabilities{TSO: w.tso, USO: w.uso} }

func (w *c23writer) Write(p []byte) (int, error) {
	if len(p) == 0 {
		return 0, nil // tio.Offload.Write: nothing is written
	}
	w.out = append(w.out, c23out{pkt: append([]byte(nil), p...)})
	w.events = append(w.events, 0)
	return len(p), nil
}

func (w *c23writer) WriteGSO(hdr, thdr []byte, pays [][]byte, proto tio.GSOProto) error {
	segs, reject := c23kernel(hdr, thdr, pays, proto)
	if reject != "" {
		w.rejects = append(w.rejects, reject)
		return fmt.Errorf("c23 kernel model: %s", reject)
	}
	for _, s := range segs {
		w.out = append(w.out, c23out{pkt: s, fromGSO: true})
	}
	w.events = append(w.events, len(segs))
	if len(segs) > 1 {
		i := 0
		if proto == tio.GSOProtoUDP {
			i = 2
		}
		if hdr[0]>>4 == 6 {
			i++
		}
		w.gso[i]++
		if len(segs) > w.maxSegs {
			w.maxSegs = len(segs)
		}
	}
	return nil
}

// c23kernel: geometry admission (tio.Offload.WriteGSO + virtio_net_hdr_to_skb + ip_rcv_core / ipv6_rcv + tcp/udp GSO
// preconditions) and naive re-segmentation of an accepted write. Returns the packets the IP stack would see.
func c23kernel(hdr, thdr []byte, pays [][]byte, proto tio.GSOProto) ([][]byte, string) {
	n := len(pays)
	if n == 0 {
		return nil, "" // Offload.WriteGSO: nothing to send, nothing written
	}
	var csumOff int
	var l4proto byte
	switch proto {
	case tio.GSOProtoTCP:
		csumOff, l4proto = 16, 6
	case tio.GSOProtoUDP:
		csumOff, l4proto = 6, 17
	default:
		return nil, "unknown GSO proto"
	}
	if len(hdr) == 0 || len(thdr) < csumOff+2 {
		return nil, "header too short"
	}
	if 3+n > 256 {
		return nil, "more payload fragments than the writer's iovec budget (253)"
	}
	gso := len(pays[0])
	total := len(hdr) + len(thdr)
	var payload []byte
	for i, p := range pays {
		if len(p) == 0 {
			return nil, "empty payload fragment"
		}
		if len(p) > gso || (len(p) < gso && i != n-1) {
			return nil, "payload fragments are not equal-sized (only the last may be shorter)"
		}
		total += len(p)
		payload = append(payload, p...)
	}
	if total > 65535 {
		return nil, "superpacket longer than 65535 bytes"
	}
	ver := hdr[0] >> 4
	switch ver {
	case 4:
		if len(hdr) < 20 || int(hdr[0]&0x0f)*4 != len(hdr) {
			return nil, "csum_start is not the IPv4 header length"
		}
		if hdr[9] != l4proto {
			return nil, "IPv4 protocol field does not match the GSO type"
		}
		if binary.BigEndian.Uint16(hdr[6:8])&0x3fff != 0 {
			return nil, "offloaded write of an IPv4 fragment"
		}
		if c23fold(c23sum(hdr, 0)) != 0xffff {
			return nil, "IPv4 header checksum of the written packet invalid (ip_rcv drops it)"
		}
		if int(binary.BigEndian.Uint16(hdr[2:4])) != total {
			return nil, "IPv4 total length of the written packet != bytes written (ip_rcv drops or trims it)"
		}
	case 6:
		if len(hdr) != 40 {
			return nil, "IPv6 header with extension headers in an offloaded write (not modelled)"
		}
		if hdr[6] != l4proto {
			return nil, "IPv6 next header does not match the GSO type"
		}
		if int(binary.BigEndian.Uint16(hdr[4:6])) != total-40 {
			return nil, "IPv6 payload length of the written packet != bytes written (ipv6_rcv drops or trims it)"
		}
	default:
		return nil, "IP version is not GSO-capable"
	}
	if proto == tio.GSOProtoTCP {
		if int(thdr[12]>>4)*4 != len(thdr) || len(thdr) < 20 {
			return nil, "TCP data offset does not match the transport header length"
		}
	} else {
		if len(thdr) != 8 {
			return nil, "UDP header is not 8 bytes"
		}
		if n > 64 {
			return nil, "more than UDP_MAX_SEGMENTS (64) segments in a UDP GSO write"
		}
	}

	partial := uint32(binary.BigEndian.Uint16(thdr[csumOff : csumOff+2]))
	finish := func(l4 []byte, part uint32) {
		binary.BigEndian.PutUint16(l4[csumOff:csumOff+2], uint16(part))
		cs := ^c23fold(c23sum(l4, 0))
		if cs == 0 {
			cs = 0xffff // CSUM_MANGLED_0
		}
		binary.BigEndian.PutUint16(l4[csumOff:csumOff+2], cs)
	}
	if n == 1 {
		// GSO_NONE + NEEDS_CSUM: the kernel only finishes the checksum; lengths and IP header stay as written
		pkt := append(append(append([]byte(nil), hdr...), thdr...), payload...)
		finish(pkt[len(hdr):], partial)
		return [][]byte{pkt}, ""
	}
	superL4 := len(thdr) + len(payload)
	var out [][]byte
	id0 := binary.BigEndian.Uint16(hdr[4:6])
	seq0 := binary.BigEndian.Uint32(thdr[4:8])
	nseg := (len(payload) + gso - 1) / gso
	for i := 0; i < nseg; i++ {
		lo, hi := i*gso, (i+1)*gso
		if hi > len(payload) {
			hi = len(payload)
		}
		pkt := append(append(append([]byte(nil), hdr...), thdr...), payload[lo:hi]...)
		ip, l4 := pkt[:len(hdr)], pkt[len(hdr):]
		if ver == 4 {
			binary.BigEndian.PutUint16(ip[2:4], uint16(len(pkt)))
			binary.BigEndian.PutUint16(ip[4:6], id0+uint16(i))
			ip[10], ip[11] = 0, 0
			binary.BigEndian.PutUint16(ip[10:12], ^c23fold(c23sum(ip, 0)))
		} else {
			binary.BigEndian.PutUint16(ip[4:6], uint16(len(pkt)-40))
		}
		segL4 := len(l4)
		var part uint32
		if proto == tio.GSOProtoTCP {
			binary.BigEndian.PutUint32(l4[4:8], seq0+uint32(lo))
			if i != 0 {
				l4[13] &^= c23cwr
			}
			if i != nseg-1 {
				l4[13] &^= c23fin | c23psh
			}
			// tcp_gso_segment: newcheck = ~csum_fold(csum_add(csum_unfold(th->check), htonl(~skb->len + thlen + mss)))
			part = uint32(c23fold(partial + uint32(^uint16(superL4)) + uint32(segL4)))
		} else {
			// __udp_gso_segment: check = csum16_add(csum16_sub(uh->check, uh->len), newlen); uh->len = newlen
			oldLen := binary.BigEndian.Uint16(l4[4:6])
			part = uint32(c23fold(partial + uint32(^oldLen) + uint32(segL4)))
			binary.BigEndian.PutUint16(l4[4:6], uint16(segL4))
		}
		finish(l4, part)
		out = append(out, pkt)
	}
	return out, ""
}

// c23verifyGSOPacket: a packet produced by re-segmentation must be a valid IP packet from scratch.
func c23verifyGSOPacket(pkt []byte) string {
	var l4 []byte
	var ps uint32
	var proto byte
	if pkt[0]>>4 == 4 {
		ihl := int(pkt[0]&0x0f) * 4
		if int(binary.BigEndian.Uint16(pkt[2:4])) != len(pkt) {
			return "IPv4 total length wrong"
		}
		if c23fold(c23sum(pkt[:ihl], 0)) != 0xffff {
			return "IPv4 header checksum invalid"
		}
		l4, proto = pkt[ihl:], pkt[9]
		ps = c23sum(pkt[12:20], 0)
	} else {
		if int(binary.BigEndian.Uint16(pkt[4:6])) != len(pkt)-40 {
			return "IPv6 payload length wrong"
		}
		l4, proto = pkt[40:], pkt[6]
		ps = c23sum(pkt[8:40], 0)
	}
	ps += uint32(proto) + uint32(len(l4))
	if proto == 17 {
		if int(binary.BigEndian.Uint16(l4[4:6])) != len(l4) {
			return "UDP length wrong"
		}
		if l4[6] == 0 && l4[7] == 0 {
			return "UDP checksum zero"
		}
	}
	if c23fold(c23sum(l4, ps)) != 0xffff {
		if proto == 6 {
			return "TCP checksum invalid"
		}
		return "UDP checksum invalid"
	}
	return ""
}

// ------------------------------------------------------------------------------------------------ one batch

type c23slot struct {
	shape int
	epoch int // 0 = old session, 1 = new session
}

type c23input struct {
	pkt      []byte
	norm     string
	shape    int
	group    int
	epoch    int
	key      SortKey
	pureAck  bool
	proto    byte
	ipHdrLen int
	fragAny  bool
}

type c23stats struct {
	batches, withGSO, reordered, ackTrailed, plainWrites, gsoWrites, gsoSegs int64
	gso                                                                      [4]int64
	maxSegs                                                                  int
	outcomes                                                                 map[string]struct{}
	shapeCoalesced                                                           map[int]int64 // shape -> times it travelled inside a superpacket
	shapeVerbatim                                                            map[int]int64
}

type c23env struct {
	c      *mc.Check
	shapes []c23shape
	nviol  *atomic.Int64
}

type c23worker struct {
	env   *c23env
	w     *c23writer
	m     *MultiCoalescer
	st    c23stats
	prev  []c23slot // the previous batch run on this coalescer
	fresh bool
}

func (e *c23env) newWorker(tso, uso bool) *c23worker {
	wk := &c23worker{env: e, w: &c23writer{tso: tso, uso: uso}}
	wk.m = NewMultiCoalescer(wk.w, slog.New(slog.NewTextHandler(io.Discard, nil)))
	wk.fresh = true
	wk.st.outcomes = map[string]struct{}{}
	wk.st.shapeCoalesced = map[int]int64{}
	wk.st.shapeVerbatim = map[int]int64{}
	return wk
}

// materialise builds the packets of a batch in transmission order.
func (e *c23env) materialise(slots []c23slot, full int) []c23input {
	var flows [c23gX3 + 1]c23flow
	c23initialFlows(&flows, full)
	ins := make([]c23input, len(slots))
	ctr := [2]uint64{1000, 0} // the old session is deep into its counter space, the new one starts at 0
	for i, s := range slots {
		sh := e.shapes[s.shape]
		g := sh.group
		if g >= c23gFrag {
			g -= c23gFrag
		}
		slot := i
		pk := sh.mk(&flows[g], func(n int) []byte {
			b := make([]byte, n)
			for j := range b {
				b[j] = byte(slot*37 + j*3 + 1)
			}
			return b
		})
		in := &ins[i]
		in.pkt = pk.bytes()
		in.shape, in.group, in.epoch = s.shape, sh.group, s.epoch
		in.key = SortKey{Epoch: uint64(5 + s.epoch), Counter: ctr[s.epoch]}
		ctr[s.epoch]++
		var ok bool
		in.proto, in.ipHdrLen, in.fragAny, ok = c23parse(in.pkt)
		if !ok {
			e.c.Broken("shape %s builds a packet newPacket would reject", sh.name)
		}
		in.pureAck = c23isPureAck(in.pkt, in.proto, in.ipHdrLen, in.fragAny)
		in.norm = c23norm(in.pkt)
	}
	return ins
}

func (e *c23env) describe(ins []c23input, arrival []int) map[string]any {
	var tx []string
	var hexes []string
	for _, in := range ins {
		tx = append(tx, fmt.Sprintf("%s/e%d/ctr%d", e.shapes[in.shape].name, in.epoch, in.key.Counter))
		if len(ins) <= 8 {
			hexes = append(hexes, fmt.Sprintf("%x", in.pkt))
		}
	}
	d := map[string]any{"transmission_order": tx, "arrival_order": arrival}
	if hexes != nil {
		d["packets_hex"] = hexes
	}
	return d
}

// run executes one batch on coalescer m/w and returns "" or (signature, detail).
func (e *c23env) run(m *MultiCoalescer, w *c23writer, ins []c23input, arrival []int, st *c23stats) (string, map[string]any) {
	w.reset()
	work := make([][]byte, len(ins))
	for _, i := range arrival {
		in := &ins[i]
		work[i] = append([]byte(nil), in.pkt...) // the coalescer patches headers in place: give it its own copy
		pp := &firewall.ParsedPacket{}
		pp.Protocol, pp.IPHdrLen, pp.FragAny = in.proto, in.ipHdrLen, in.fragAny
		if err := m.Commit(work[i], in.key, pp); err != nil {
			return "Commit returns an error", map[string]any{"error": err.Error()}
		}
	}
	err := m.Flush()
	if len(w.rejects) > 0 {
		return "geometry: " + w.rejects[0], map[string]any{"rejects": w.rejects}
	}
	if err != nil {
		return "Flush returns an error", map[string]any{"error": err.Error()}
	}
	// --- multiset: group batch packets and delivered packets by their normalised form. Identical packets are
	// interchangeable; the first assignment hands the delivered positions of a class to its members in (session, counter)
	// order, which is what an order-preserving implementation produces.
	pos := make([]int, len(ins))
	for i := range pos {
		pos[i] = -1
	}
	type cls struct{ ins, outs []int }
	classes := make(map[string]*cls, len(ins))
	var order []*cls
	for i := range ins {
		cl := classes[ins[i].norm]
		if cl == nil {
			cl = &cls{}
			classes[ins[i].norm] = cl
			order = append(order, cl)
		}
		cl.ins = append(cl.ins, i)
	}
	var extra []int
	for oi, o := range w.out {
		if cl := classes[c23norm(o.pkt)]; cl != nil && len(cl.outs) < len(cl.ins) {
			cl.outs = append(cl.outs, oi)
		} else {
			extra = append(extra, oi)
		}
	}
	for _, cl := range order {
		sort.SliceStable(cl.ins, func(x, y int) bool { return compareKeys(ins[cl.ins[x]].key, ins[cl.ins[y]].key) < 0 })
		for k, oi := range cl.outs {
			pos[cl.ins[k]] = oi
		}
	}
	var missing []int
	for i := range ins {
		if pos[i] < 0 {
			missing = append(missing, i)
		}
	}
	if len(missing) > 0 || len(extra) > 0 {
		d := map[string]any{"events": w.pattern()}
		var ms, xs []string
		for _, i := range missing {
			ms = append(ms, fmt.Sprintf("%s: %x", e.shapes[ins[i].shape].name, ins[i].pkt))
		}
		for _, oi := range extra {
			xs = append(xs, fmt.Sprintf("gso=%v: %x", w.out[oi].fromGSO, w.out[oi].pkt))
		}
		d["batch_packets_not_delivered"] = ms
		d["delivered_packets_not_in_batch"] = xs
		switch {
		case len(missing) > 0 && len(extra) > 0:
			return "packet altered beyond kernel-rewritten fields [" + e.shapes[ins[missing[0]].shape].name + "]", d
		case len(missing) > 0:
			return "packet lost [" + e.shapes[ins[missing[0]].shape].name + "]", d
		default:
			return "packet duplicated or invented", d
		}
	}
	// --- checksums / lengths of everything that went through an offloaded write
	for _, o := range w.out {
		if o.fromGSO {
			if why := c23verifyGSOPacket(o.pkt); why != "" {
				return "re-segmented packet invalid: " + why, map[string]any{"packet": fmt.Sprintf("%x", o.pkt), "events": w.pattern()}
			}
		}
	}
	// --- order per (flow group, session): counter order, except that a pure ACK may trail later packets
	orderCheck := func() (bool, int, int, bool) {
		trailed := false
		for i := range ins {
			for j := i + 1; j < len(ins); j++ {
				a, b := &ins[i], &ins[j]
				if a.group != b.group || a.epoch != b.epoch || pos[i] < pos[j] {
					continue
				}
				if a.pureAck {
					trailed = true
					continue
				}
				return false, i, j, trailed
			}
		}
		return true, 0, 0, trailed
	}
	ok, oi, oj, trailed := orderCheck()
	if !ok {
		// Identical packets of DIFFERENT sessions may have been delivered in another interleaving than assumed above;
		// the statement allows any. Search the alternative assignments: for every class that spans both sessions choose
		// which delivered positions belong to the old session (members of one session keep counter order).
		var span []*cls
		for _, cl := range order {
			n0 := 0
			for _, i := range cl.ins {
				if ins[i].epoch == 0 {
					n0++
				}
			}
			if n0 > 0 && n0 < len(cl.ins) {
				span = append(span, cl)
			}
		}
		budget := 50000
		var rec func(ci int) bool
		rec = func(ci int) bool {
			if ci == len(span) {
				budget--
				good, _, _, tr := orderCheck()
				if good {
					trailed = tr
				}
				return good
			}
			cl := span[ci]
			var e0, e1 []int
			for _, i := range cl.ins {
				if ins[i].epoch == 0 {
					e0 = append(e0, i)
				} else {
					e1 = append(e1, i)
				}
			}
			n := len(cl.outs)
			var choose func(start, need int, mask []bool) bool
			choose = func(start, need int, mask []bool) bool {
				if budget <= 0 {
					return false
				}
				if need == 0 {
					a, b := 0, 0
					for k := 0; k < n; k++ {
						if mask[k] {
							pos[e0[a]] = cl.outs[k]
							a++
						} else {
							pos[e1[b]] = cl.outs[k]
							b++
						}
					}
					return rec(ci + 1)
				}
				for k := start; k <= n-need; k++ {
					mask[k] = true
					if choose(k+1, need-1, mask) {
						return true
					}
					mask[k] = false
				}
				return false
			}
			return choose(0, len(e0), make([]bool, n))
		}
		if len(span) == 0 || !rec(0) {
			a, b := &ins[oi], &ins[oj]
			return fmt.Sprintf("order: %s overtaken by later %s of the same flow and session", e.shapes[a.shape].name, e.shapes[b.shape].name),
				map[string]any{"earlier": oi, "later": oj, "events": w.pattern(), "assignment_search_exhausted": budget > 0}
		}
	}
	// --- statistics
	st.batches++
	multi := false
	for i, n := range w.gso {
		st.gso[i] += int64(n)
		if n > 0 {
			multi = true
		}
	}
	if multi {
		st.withGSO++
	}
	if trailed {
		st.ackTrailed++
	}
	for k := range arrival {
		if k > 0 && compareKeys(ins[arrival[k-1]].key, ins[arrival[k]].key) > 0 {
			st.reordered++
			break
		}
	}
	if w.maxSegs > st.maxSegs {
		st.maxSegs = w.maxSegs
	}
	for _, ev := range w.events {
		if ev == 0 {
			st.plainWrites++
		} else {
			st.gsoWrites++
		}
	}
	for i := range ins {
		if w.out[pos[i]].fromGSO {
			st.gsoSegs++
			st.shapeCoalesced[ins[i].shape]++
		} else {
			st.shapeVerbatim[ins[i].shape]++
		}
	}
	if len(ins) <= 4 {
		var kb [8]byte
		key := kb[:0]
		for _, ev := range w.events {
			key = append(key, byte(ev))
		}
		if _, seen := st.outcomes[string(key)]; !seen {
			st.outcomes[string(key)] = struct{}{}
		}
	}
	return "", nil
}

func compareKeys(a, b SortKey) int {
	switch {
	case a.Epoch != b.Epoch:
		if a.Epoch < b.Epoch {
			return -1
		}
		return 1
	case a.Counter < b.Counter:
		return -1
	case a.Counter > b.Counter:
		return 1
	}
	return 0
}

// batch runs one batch on the worker's long-lived coalescer; a failure is re-run on a fresh coalescer to separate
// defects of the batch itself from state leaking out of the previous Flush.
func (wk *c23worker) batch(slots []c23slot, arrival []int, full int) {
	e := wk.env
	if e.nviol.Load() > 100 {
		return
	}
	ins := e.materialise(slots, full)
	sig, det := e.run(wk.m, wk.w, ins, arrival, &wk.st)
	descOf := func(sl []c23slot) string {
		var sb strings.Builder
		for i, s := range sl {
			if i >= 12 {
				fmt.Fprintf(&sb, "... (%d packets)", len(sl))
				break
			}
			fmt.Fprintf(&sb, "%s/e%d ", e.shapes[s.shape].name, s.epoch)
		}
		return strings.TrimSpace(sb.String())
	}
	if sig != "" {
		if !strings.HasSuffix(sig, "[u1.len<ip]") {
			// (the u1.len<ip truncation is a confirmed defect of the unchanged tree, see proposed_fixes/C23-*.md: it is
			// reported like any violation but must not end the exploration of everything else early)
			e.nviol.Add(1)
		}
		fw := e.newWorker(wk.w.tso, wk.w.uso)
		var scratch c23stats
		scratch.outcomes, scratch.shapeCoalesced, scratch.shapeVerbatim = map[string]struct{}{}, map[int]int64{}, map[int]int64{}
		sig2, det2 := e.run(fw.m, fw.w, ins, arrival, &scratch)
		d := e.describe(ins, arrival)
		d["caps"] = map[string]bool{"tso": wk.w.tso, "uso": wk.w.uso}
		if sig2 == "" {
			for k, v := range det {
				d[k] = v
			}
			d["previous_batch_on_same_coalescer"] = descOf(wk.prev)
			e.c.Violation("stale state after Flush: "+sig, d)
		} else {
			for k, v := range det2 {
				d[k] = v
			}
			e.c.Violation(sig2, d)
		}
		// continue on a fresh coalescer
		nw := e.newWorker(wk.w.tso, wk.w.uso)
		wk.m, wk.w = nw.m, nw.w
	}
	wk.prev = append(wk.prev[:0], slots...)
	if n := wk.st.batches; n > 0 && n&(n-1) == 0 && n >= 256 && sig == "" {
		e.c.Sample(map[string]any{"batch": descOf(slots), "arrival": append([]int(nil), arrival...), "writes": wk.w.pattern()})
	}
}

func c23perms(k int) [][]int {
	var out [][]int
	var rec func(cur []int, used int)
	rec = func(cur []int, used int) {
		if len(cur) == k {
			out = append(out, append([]int(nil), cur...))
			return
		}
		for i := 0; i < k; i++ {
			if used&(1<<i) == 0 {
				rec(append(cur, i), used|1<<i)
			}
		}
	}
	rec(nil, 0)
	return out
}

// ------------------------------------------------------------------------------------------------ the test

func TestVerifC23(t *testing.T) {
	c := mc.Begin(t, "C23", "exploration")
	defer c.End()
	var nviol atomic.Int64
	env := &c23env{c: c, shapes: c23shapes(), nviol: &nviol}
	S := len(env.shapes)
	var core []int
	for i, s := range env.shapes {
		if s.core {
			core = append(core, i)
		}
	}
	workers := runtime.GOMAXPROCS(0)
	var mu sync.Mutex
	total := c23stats{outcomes: map[string]struct{}{}, shapeCoalesced: map[int]int64{}, shapeVerbatim: map[int]int64{}}
	merge := func(s *c23stats) {
		mu.Lock()
		defer mu.Unlock()
		total.batches += s.batches
		total.withGSO += s.withGSO
		total.reordered += s.reordered
		total.ackTrailed += s.ackTrailed
		total.plainWrites += s.plainWrites
		total.gsoWrites += s.gsoWrites
		total.gsoSegs += s.gsoSegs
		for i := range s.gso {
			total.gso[i] += s.gso[i]
		}
		if s.maxSegs > total.maxSegs {
			total.maxSegs = s.maxSegs
		}
		for k := range s.outcomes {
			total.outcomes[k] = struct{}{}
		}
		for k, v := range s.shapeCoalesced {
			total.shapeCoalesced[k] += v
		}
		for k, v := range s.shapeVerbatim {
			total.shapeVerbatim[k] += v
		}
	}
	// parallel over n items; every worker owns one long-lived coalescer (state carries over between batches)
	parallel := func(n int, tso, uso bool, item func(i int, wk *c23worker)) {
		var next atomic.Int64
		var wg sync.WaitGroup
		for w := 0; w < workers; w++ {
			wg.Add(1)
			go func() {
				defer wg.Done()
				wk := env.newWorker(tso, uso)
				for {
					i := int(next.Add(1) - 1)
					if i >= n || nviol.Load() > 100 {
						break
					}
					if c.OutOfTime() {
						c.Capped("soft time budget")
						break
					}
					item(i, wk)
				}
				merge(&wk.st)
			}()
		}
		wg.Wait()
	}
	const P = 12
	perms := map[int][][]int{}
	for k := 1; k <= 7; k++ {
		perms[k] = c23perms(k)
	}
	// product enumerates alphabet^k (alphabet entries are (shape, epoch)); the first slot is the parallel item.
	product := func(alpha []c23slot, k int, allPerms bool, tso, uso bool) {
		A := len(alpha)
		parallel(A, tso, uso, func(first int, wk *c23worker) {
			slots := make([]c23slot, k)
			idx := make([]int, k)
			idx[0] = first
			serial := first
			for {
				for i := range slots {
					slots[i] = alpha[idx[i]]
				}
				ps := perms[k]
				if allPerms {
					for _, p := range ps {
						wk.batch(slots, p, P)
					}
				} else {
					wk.batch(slots, ps[0], P)
					if k > 1 {
						wk.batch(slots, ps[1+serial%(len(ps)-1)], P) // cycles through every non-identity permutation
					}
				}
				serial++
				// odometer over slots 1..k-1
				j := k - 1
				for ; j >= 1; j-- {
					idx[j]++
					if idx[j] < A {
						break
					}
					idx[j] = 0
				}
				if j < 1 || nviol.Load() > 100 || c.OutOfTime() {
					break
				}
			}
		})
	}
	alphaOf := func(shapes []int) []c23slot {
		var a []c23slot
		for _, s := range shapes {
			a = append(a, c23slot{s, 0}, c23slot{s, 1})
		}
		return a
	}
	all := make([]int, S)
	for i := range all {
		all[i] = i
	}
	fullAlpha, coreAlpha := alphaOf(all), alphaOf(core)
	c.Set("alphabet_shapes", S)
	c.Set("alphabet_per_slot_with_epoch", len(fullAlpha))
	c.Set("core_alphabet_per_slot_with_epoch", len(coreAlpha))

	// (1a) full alphabet, k <= 2: every arrival permutation. The cheap, diverse phases run first so that a run that
	// is cut short by the time budget on a busy machine has still seen every kind of situation.
	product(fullAlpha, 1, true, true, true)
	product(fullAlpha, 2, true, true, true)
	// (4) writers with fewer capabilities (USO needs a newer kernel than TSO; no offload at all): k <= 2, all perms
	for _, caps := range [][2]bool{{true, false}, {false, true}, {false, false}} {
		product(fullAlpha, 1, true, caps[0], caps[1])
		product(fullAlpha, 2, true, caps[0], caps[1])
		if c.Thorough() {
			product(coreAlpha, 3, true, caps[0], caps[1])
		}
	}
	// (5) long single-flow runs with interleaved traffic: the 64-segment, 65535-byte and iovec ceilings
	{
		type long struct {
			shape, other, n, full, every, split, arr int
			shortLast                                bool
		}
		idx := func(name string) int {
			for i, s := range env.shapes {
				if s.name == name {
					return i
				}
			}
			c.Broken("no shape %s", name)
			return -1
		}
		var items []long
		ns := []int{2, 17, 63, 64, 65, 66, 128, 129, 254, 300}
		if c.Thorough() {
			ns = append(ns, 3, 31, 127, 130, 192, 200, 253, 256)
			sort.Ints(ns)
		}
		for _, sh := range []string{"t1.data", "t2.data", "t3.data", "u1.data", "u2.data", "u3.data"} {
			for _, other := range []string{"", "t1.ack", "u1.short", "x.icmp4", "t2.data"} {
				for _, n := range ns {
					for _, full := range []int{12, 1000, 1460} {
						for _, every := range []int{0, 1, 5} {
							if (other == "") != (every == 0) {
								continue
							}
							for _, split := range []int{0, 2} {
								for arr := 0; arr < 4; arr++ {
									for _, sl := range []bool{false, true} {
										o := -1
										if other != "" {
											o = idx(other)
										}
										if other == sh {
											continue
										}
										items = append(items, long{idx(sh), o, n, full, every, split, arr, sl})
									}
								}
							}
						}
					}
				}
			}
		}
		shortOf := map[string]string{"t1.data": "t1.short", "t2.data": "t2.short", "t3.data": "t1.short", "u1.data": "u1.short", "u2.data": "u1.short", "u3.data": "u3.short"}
		parallel(len(items), true, true, func(i int, wk *c23worker) {
			it := items[i]
			var slots []c23slot
			for j := 0; j < it.n; j++ {
				ep := 0
				if it.split > 0 && j >= it.n/it.split {
					ep = 1
				}
				sh := it.shape
				if it.shortLast && j == it.n-1 {
					sh = idx(shortOf[env.shapes[it.shape].name])
				}
				slots = append(slots, c23slot{sh, ep})
				if it.every > 0 && j%it.every == it.every-1 {
					slots = append(slots, c23slot{it.other, ep})
				}
			}
			n := len(slots)
			arrival := make([]int, n)
			for j := range arrival {
				switch it.arr {
				case 0:
					arrival[j] = j
				case 1:
					arrival[j] = n - 1 - j
				case 2:
					arrival[j] = j ^ 1
					if arrival[j] >= n {
						arrival[j] = j
					}
				default:
					arrival[j] = (j + 7) % n
				}
			}
			wk.batch(slots, arrival, it.full)
		})
		c.Set("long_run_batches", len(items))
		c.Set("long_run_max_packets", 2*ns[len(ns)-1])
	}

	// (3) k = 5..6 (7 thorough) restricted to <= 2 distinct (shape, epoch) kinds per batch, full alphabet
	{
		A := len(fullAlpha)
		kmax := mc.Pick(c, 6, 7)
		parallel(A, true, true, func(a int, wk *c23worker) {
			for b := a; b < A; b++ {
				for k := 5; k <= kmax; k++ {
					slots := make([]c23slot, k)
					for mask := 0; mask < 1<<k; mask++ {
						if a == b && mask != 0 {
							break
						}
						for i := range slots {
							if mask>>i&1 == 0 {
								slots[i] = fullAlpha[a]
							} else {
								slots[i] = fullAlpha[b]
							}
						}
						ps := perms[k]
						wk.batch(slots, ps[0], P)
						wk.batch(slots, ps[1+(mask*31+a+b)%(len(ps)-1)], P)
					}
				}
			}
		})
		c.Set("two_kind_batches_max_k", kmax)
	}
	// (1) full alphabet, k <= 3: every arrival permutation (thorough) / identity + one rotating permutation (quick)
	product(fullAlpha, 3, c.Thorough(), true, true)
	c.Set("full_alphabet_max_k", 3)
	// (2) deeper boxes
	if c.Thorough() {
		product(fullAlpha, 4, false, true, true)
		c.Set("full_alphabet_k4", true)
		product(coreAlpha, 5, false, true, true)
		c.Set("core_alphabet_max_k", 5)
	} else {
		product(coreAlpha, 4, false, true, true)
		c.Set("core_alphabet_max_k", 4)
	}
	// ---- evidence
	c.Set("cpu_seconds", float64(int(c23cpu()*10))/10)
	c.Set("evaluations", total.batches)
	c.Set("distinct_nontrivial", total.withGSO)
	c.Set("rule", "one evaluation = one (batch in transmission order, session assignment, arrival permutation, writer capabilities) run through Commit/Flush and compared; non-trivial = the coalescer really emitted at least one offloaded superpacket of >= 2 segments in that batch (measured on the recording writer)")
	c.Set("batches_with_arrival_reordering", total.reordered)
	c.Set("batches_where_a_pure_ack_trailed_later_data", total.ackTrailed)
	c.Set("plain_writes", total.plainWrites)
	c.Set("offloaded_writes", total.gsoWrites)
	c.Set("packets_delivered_inside_superpackets", total.gsoSegs)
	c.Set("multi_segment_superpackets", map[string]int64{"tcp4": total.gso[0], "tcp6": total.gso[1], "udp4": total.gso[2], "udp6": total.gso[3]})
	c.Set("max_segments_in_one_superpacket", total.maxSegs)
	c.Set("distinct_write_patterns_k_le_4", len(total.outcomes))
	var coal, never []string
	for i, s := range env.shapes {
		if total.shapeCoalesced[i] > 0 {
			coal = append(coal, s.name)
		} else {
			never = append(never, s.name)
		}
	}
	sort.Strings(coal)
	sort.Strings(never)
	c.Set("shapes_seen_inside_superpackets", coal)
	c.Set("shapes_always_delivered_verbatim", never)
	if nviol.Load() == 0 && !c.OutOfTime() {
		for i, n := range total.gso {
			c.Require(n > 0, "no multi-segment superpacket of kind %d (tcp4,tcp6,udp4,udp6) was ever produced", i)
		}
		c.Require(total.withGSO > 1000 && total.withGSO < total.batches, "coalescing happened in %d of %d batches", total.withGSO, total.batches)
		c.Require(total.reordered > 0, "no batch with a reordered arrival")
		c.Require(total.ackTrailed > 0, "the pure-ACK exception was never exercised")
		c.Require(total.maxSegs >= 64, "the 64-segment ceiling was never reached (max %d)", total.maxSegs)
		c.Require(len(total.outcomes) >= 8, "only %d distinct write patterns", len(total.outcomes))
		for i, s := range env.shapes {
			c.Require(total.shapeVerbatim[i] > 0, "shape %s was never delivered verbatim", s.name)
		}
	}
	c.Assume("the kernel is a reference model written from its documented contract: tio.Offload.WriteGSO's checks, virtio_net_hdr_to_skb, ip_rcv_core/ipv6_rcv length+checksum checks, tcp_gso_segment/__udp_gso_segment/inet_gso_segment arithmetic, UDP_MAX_SEGMENTS=64")
	c.Assume("bytes beyond the IP-declared length (link-layer padding) are not part of the packet: ip_rcv trims them; they are ignored in the comparison")
	c.Assume("'IPv4 IDs that carry no meaning' = atomic datagrams (DF=1, MF=0, offset 0; RFC 6864); lengths and checksums are compared modulo rewriting, but every re-segmented packet must carry correct ones")
	c.Assume("order is checked per (5-tuple, session) for unfragmented TCP/UDP, per (addresses, protocol) for other protocols, and separately for fragments; an earlier pure ACK (no payload, ACK set, no SYN/FIN/RST) may be delivered after later packets of its flow; order across sessions and across flows is not demanded")
	c.Assume("ParsedPacket fields (Protocol, IPHdrLen, FragAny) are produced by a transcription of newPacket/parseV4 and the real iputil.IPv6FindUpperProtocol; batches beyond the enumerated sizes (k<=3 full alphabet; deeper boxes restricted as listed; structured long runs up to a few hundred packets) are not covered")
}

// c23cpu returns the CPU seconds (user+system) this process has consumed: wall time is meaningless on a shared machine.
func c23cpu() float64 {
	var ru syscall.Rusage
	if syscall.Getrusage(syscall.RUSAGE_SELF, &ru) != nil {
		return 0
	}
	return float64(ru.Utime.Sec+ru.Stime.Sec) + float64(ru.Utime.Usec+ru.Stime.Usec)/1e6
}
