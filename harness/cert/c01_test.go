//go:build verif

package cert

import (
	"bytes"
	"crypto/ecdsa"
	"crypto/ed25519"
	"crypto/elliptic"
	"crypto/rand"
	"crypto/sha256"
	"encoding/asn1"
	"errors"
	"fmt"
	"math/big"
	"math/bits"
	"net/netip"
	"sort"
	"strings"
	"sync"
	"testing"
	"time"

	"github.com/slackhq/nebula/zzverif/mc"
)

// C01 — certificate acceptance equals the documented trust rule; re-check of a cached certificate equals a full check.
//
// Engine E3 (bounded-exhaustive inputs/configurations vs. a reference predicate). Certificates are built DIRECTLY from
// the private structs (certificateV1/certificateV2 + marshalForSigning + own Ed25519/ECDSA signing), because
// TBSCertificate.Sign refuses exactly the constraint-violating leaves the verifier must reject. Every certificate then
// goes through MarshalPEM -> UnmarshalCertificateFromPEM, so the verifier sees what it would see from the wire/disk.
//
// Box A  constraint lattice x validity window x evaluation time (signer present, good signature)
// Box B  trust scenario x blocklist x signature kind x evaluation time on a reduced leaf set
// Box C  cached re-check: for accepted certificates, every sequence (depth <= 2/3) of pool / blocklist mutations x every
//        evaluation time: VerifyCachedCertificate == fresh VerifyCertificate == reference predicate
//
// The reference predicate (c01Rule) is a clause-by-clause transcription of the property statement over plain data
// (ints, strings, byte/bit loops); it never looks at the certificate objects.

// ---------------------------------------------------------------------------------------------------------------
// keys and signatures (own code: crypto stdlib only, nothing from cert/p256)

type c01Key struct {
	curve Curve
	ed    ed25519.PrivateKey
	ec    *ecdsa.PrivateKey
	pub   []byte // the way the public key appears in a CA certificate
}

func c01NewKey(curve Curve, seed byte) *c01Key {
	raw := bytes.Repeat([]byte{seed}, 32)
	switch curve {
	case Curve_CURVE25519:
		k := ed25519.NewKeyFromSeed(raw)
		return &c01Key{curve: curve, ed: k, pub: append([]byte{}, k.Public().(ed25519.PublicKey)...)}
	case Curve_P256:
		k, err := ecdsa.ParseRawPrivateKey(elliptic.P256(), raw)
		if err != nil {
			panic(err)
		}
		e, err := k.ECDH()
		if err != nil {
			panic(err)
		}
		return &c01Key{curve: curve, ec: k, pub: e.PublicKey().Bytes()}
	}
	panic("curve")
}

type c01ECSig struct{ R, S *big.Int }

var c01N = elliptic.P256().Params().N
var c01HalfN = new(big.Int).Rsh(elliptic.P256().Params().N, 1)

func c01ParseECSig(sig []byte) (c01ECSig, bool) {
	var v c01ECSig
	rest, err := asn1.Unmarshal(sig, &v)
	if err != nil || len(rest) != 0 || v.R == nil || v.S == nil {
		return v, false
	}
	return v, true
}

// c01IsHighS: S > floor(N/2) (the midpoint itself counts as low).
func c01IsHighS(sig []byte) (high bool, ok bool) {
	v, ok := c01ParseECSig(sig)
	if !ok {
		return false, false
	}
	return v.S.Cmp(c01HalfN) > 0, true
}

// c01SForm re-encodes an ECDSA signature with S or N-S so that it has the requested form.
func c01SForm(sig []byte, high bool) []byte {
	v, ok := c01ParseECSig(sig)
	if !ok {
		panic("c01SForm: not an ECDSA signature")
	}
	if (v.S.Cmp(c01HalfN) > 0) != high {
		v.S = new(big.Int).Sub(c01N, v.S)
	}
	out, err := asn1.Marshal(v)
	if err != nil {
		panic(err)
	}
	return out
}

// sign produces a signature the way nebula certificates are signed: Ed25519 over the bytes, ECDSA-P256 over
// sha256(bytes) as ASN.1 DER. For P-256 the S form is forced (low or high) so the run is reproducible in that respect.
func (k *c01Key) sign(msg []byte, high bool) []byte {
	if k.ed != nil {
		return ed25519.Sign(k.ed, msg)
	}
	h := sha256.Sum256(msg)
	sig, err := ecdsa.SignASN1(rand.Reader, k.ec, h[:])
	if err != nil {
		panic(err)
	}
	return c01SForm(sig, high)
}

// c01Tamper returns a well-formed but wrong signature (P-256: R+1, still valid DER; Ed25519: one bit flipped).
func c01Tamper(curve Curve, sig []byte) []byte {
	if curve == Curve_P256 {
		v, ok := c01ParseECSig(sig)
		if !ok {
			panic("tamper")
		}
		v.R = new(big.Int).Add(v.R, big.NewInt(1))
		out, _ := asn1.Marshal(v)
		return out
	}
	o := append([]byte{}, sig...)
	o[10] ^= 0x04
	return o
}

// ---------------------------------------------------------------------------------------------------------------
// plain-data description of a certificate

type c01Spec struct {
	ver    Version
	curve  Curve
	name   string
	groups []string
	nets   []netip.Prefix
	unsafe []netip.Prefix
	nb, na int64 // unix seconds
	isCA   bool
	issuer string
	pub    []byte
}

func c01PfxStrings(ps []netip.Prefix) []string {
	out := make([]string, len(ps))
	for i, p := range ps {
		out[i] = p.String()
	}
	return out
}

func (s *c01Spec) desc() map[string]any {
	return map[string]any{"version": int(s.ver), "curve": s.curve.String(), "name": s.name, "groups": s.groups,
		"networks": c01PfxStrings(s.nets), "unsafe_networks": c01PfxStrings(s.unsafe), "not_before": s.nb, "not_after": s.na, "is_ca": s.isCA}
}

// c01Assemble builds the certificate from the private structs, signs it with mkSig and decodes it from its PEM form.
func c01Assemble(s *c01Spec, mkSig func(tbs []byte) []byte) (Certificate, error) {
	nb, na := time.Unix(s.nb, 0), time.Unix(s.na, 0)
	var bs beingSignedCertificate
	switch s.ver {
	case Version1:
		bs = &certificateV1{details: detailsV1{name: s.name, networks: append([]netip.Prefix(nil), s.nets...),
			unsafeNetworks: append([]netip.Prefix(nil), s.unsafe...), groups: append([]string(nil), s.groups...),
			notBefore: nb, notAfter: na, publicKey: s.pub, isCA: s.isCA, issuer: s.issuer, curve: s.curve}}
	case Version2:
		bs = &certificateV2{details: detailsV2{name: s.name, networks: append([]netip.Prefix(nil), s.nets...),
			unsafeNetworks: append([]netip.Prefix(nil), s.unsafe...), groups: append([]string(nil), s.groups...),
			isCA: s.isCA, notBefore: nb, notAfter: na, issuer: s.issuer}, curve: s.curve, publicKey: s.pub}
	default:
		return nil, fmt.Errorf("version")
	}
	tbs, err := bs.marshalForSigning()
	if err != nil {
		return nil, err
	}
	if err := bs.setSignature(mkSig(tbs)); err != nil {
		return nil, err
	}
	p, err := bs.(Certificate).MarshalPEM()
	if err != nil {
		return nil, err
	}
	c, rest, err := UnmarshalCertificateFromPEM(p)
	if err != nil {
		return nil, err
	}
	if len(rest) != 0 {
		return nil, fmt.Errorf("trailing bytes")
	}
	return c, nil
}

// ---------------------------------------------------------------------------------------------------------------
// the reference predicate: the statement, clause by clause

const (
	c01FBlkGiven  uint32 = 1 << iota // the fingerprint of the presented signature form is blocklisted
	c01FBlkTwin                      // the fingerprint of the other (P-256 high/low S) signature form is blocklisted
	c01FIssuer                       // the issuer is not a CA of the pool
	c01FCurve                        // the issuing CA has another curve
	c01FCATime                       // the CA is not valid at t
	c01FLeafTime                     // the certificate is not valid at t
	c01FSig                          // the signature does not verify under the CA key
	c01FWinNB                        // certificate valid before the CA
	c01FWinNA                        // certificate valid after the CA
	c01FGroups                       // a group outside the CA's group list
	c01FNets                         // a network outside the CA's network ranges
	c01FUnsafe                       // an unsafe network outside the CA's unsafe-network ranges
	c01NClauses = 12
)

var c01ClauseNames = []string{"blocklisted", "twin-blocklisted", "issuer-not-trusted", "curve-mismatch", "ca-not-valid-at-t",
	"cert-not-valid-at-t", "bad-signature", "starts-before-ca", "ends-after-ca", "group-outside-ca", "network-outside-ca", "unsafe-network-outside-ca"}

func c01MaskString(f uint32) string {
	if f == 0 {
		return "none"
	}
	var s []string
	for i := 0; i < c01NClauses; i++ {
		if f&(1<<uint(i)) != 0 {
			s = append(s, c01ClauseNames[i])
		}
	}
	return strings.Join(s, "+")
}

type c01Instant struct{ sec, nsec int64 }

func (t c01Instant) time() time.Time { return time.Unix(t.sec, t.nsec) }
func (t c01Instant) String() string {
	if t.nsec == 0 {
		return fmt.Sprint(t.sec)
	}
	return fmt.Sprintf("%d.%09d", t.sec, t.nsec)
}

// valid at t: NotBefore <= t <= NotAfter (both seconds inclusive; an instant after the NotAfter second is outside)
func c01ValidAt(nb, na int64, t c01Instant) bool {
	if t.sec < nb {
		return false
	}
	if t.sec > na || (t.sec == na && t.nsec > 0) {
		return false
	}
	return true
}

// c01Inside: leaf prefix lies inside the CA range: same family, at least as long, and equal on the CA's prefix bits.
func c01Inside(leaf, ca netip.Prefix) bool {
	la, cb := leaf.Addr().AsSlice(), ca.Addr().AsSlice()
	if len(la) != len(cb) {
		return false
	}
	if leaf.Bits() < ca.Bits() {
		return false
	}
	for i := 0; i < ca.Bits(); i++ {
		if (la[i/8]>>(7-uint(i%8)))&1 != (cb[i/8]>>(7-uint(i%8)))&1 {
			return false
		}
	}
	return true
}

func c01AllInside(leaf, ca []netip.Prefix) bool {
	if len(ca) == 0 { // an empty CA list is "no restriction"
		return true
	}
	for _, l := range leaf {
		ok := false
		for _, r := range ca {
			if c01Inside(l, r) {
				ok = true
			}
		}
		if !ok {
			return false
		}
	}
	return true
}

// c01Rule returns the set of violated clauses; the certificate is to be accepted iff the set is empty.
// issuer == nil: the issuer fingerprint names no CA in the pool (the remaining clauses cannot be evaluated).
func c01Rule(leaf *c01Spec, issuer *c01Spec, sigOK, blkGiven, blkTwin bool, t c01Instant) uint32 {
	var f uint32
	if blkGiven {
		f |= c01FBlkGiven
	}
	if blkTwin {
		f |= c01FBlkTwin
	}
	if issuer == nil {
		return f | c01FIssuer
	}
	if issuer.curve != leaf.curve {
		f |= c01FCurve
	}
	if !c01ValidAt(issuer.nb, issuer.na, t) {
		f |= c01FCATime
	}
	if !c01ValidAt(leaf.nb, leaf.na, t) {
		f |= c01FLeafTime
	}
	if !sigOK {
		f |= c01FSig
	}
	if leaf.nb < issuer.nb {
		f |= c01FWinNB
	}
	if leaf.na > issuer.na {
		f |= c01FWinNA
	}
	if len(issuer.groups) > 0 {
		for _, g := range leaf.groups {
			found := false
			for _, cg := range issuer.groups {
				if g == cg {
					found = true
				}
			}
			if !found {
				f |= c01FGroups
			}
		}
	}
	if !c01AllInside(leaf.nets, issuer.nets) {
		f |= c01FNets
	}
	if !c01AllInside(leaf.unsafe, issuer.unsafe) {
		f |= c01FUnsafe
	}
	return f
}

// ---------------------------------------------------------------------------------------------------------------
// statistics (kept per work item, merged under a lock)

type c01Stats struct {
	evals, nontrivial, accepts, rejects, cachedEvals, cachedAccepts, cachedRejects, cachedStates int64
	sole                                                                                        [c01NClauses]int64
	accAt, rejAt                                                                                map[c01Instant]int64
	outcomes                                                                                    map[string]int64
}

func c01NewStats() *c01Stats {
	return &c01Stats{accAt: map[c01Instant]int64{}, rejAt: map[c01Instant]int64{}, outcomes: map[string]int64{}}
}

func (s *c01Stats) merge(o *c01Stats) {
	s.evals += o.evals
	s.nontrivial += o.nontrivial
	s.accepts += o.accepts
	s.rejects += o.rejects
	s.cachedEvals += o.cachedEvals
	s.cachedAccepts += o.cachedAccepts
	s.cachedRejects += o.cachedRejects
	s.cachedStates += o.cachedStates
	for i := range s.sole {
		s.sole[i] += o.sole[i]
	}
	for k, v := range o.accAt {
		s.accAt[k] += v
	}
	for k, v := range o.rejAt {
		s.rejAt[k] += v
	}
	for k, v := range o.outcomes {
		s.outcomes[k] += v
	}
}

func c01ErrClass(err error) string {
	if err == nil {
		return "accept"
	}
	s := err.Error()
	if i := strings.IndexByte(s, ':'); i >= 0 {
		s = s[:i]
	}
	return s
}

type c01Ctx struct {
	c       *mc.Check
	mu      sync.Mutex
	st      *c01Stats
	key     map[Curve][3]*c01Key // 0 = issuing CA key, 1 = decoy CA key, 2 = "same name, other key" CA key
	leafPub map[Curve][]byte
}

func (x *c01Ctx) merge(s *c01Stats) {
	x.mu.Lock()
	x.st.merge(s)
	x.mu.Unlock()
}

type c01CA struct {
	spec c01Spec
	cert Certificate
	fp   string
	key  *c01Key
}

func (x *c01Ctx) mkCA(ver Version, key *c01Key, name string, groups []string, nets, unsafe []netip.Prefix, nb, na int64) *c01CA {
	ca := &c01CA{key: key, spec: c01Spec{ver: ver, curve: key.curve, name: name, groups: groups, nets: nets, unsafe: unsafe, nb: nb, na: na, isCA: true, pub: key.pub}}
	c, err := c01Assemble(&ca.spec, func(tbs []byte) []byte { return key.sign(tbs, false) })
	if err != nil {
		x.c.Broken("cannot build CA %v: %v", ca.spec.desc(), err)
	}
	ca.cert = c
	ca.fp, err = c.Fingerprint()
	if err != nil {
		x.c.Broken("CA fingerprint: %v", err)
	}
	return ca
}

// pool builds a fresh CAPool through the public API. The CAs of the box live around unix second 100..200, so AddCA
// reports them as expired against the wall clock but keeps them in the pool (documented behaviour of AddCA /
// NewCAPoolFromPEM); whether a CA is valid is decided by the evaluation time t given to the verifier.
func (x *c01Ctx) pool(cas ...*c01CA) *CAPool {
	p := NewCAPool()
	for _, ca := range cas {
		x.addCA(p, ca)
	}
	return p
}

func (x *c01Ctx) addCA(p *CAPool, ca *c01CA) {
	if err := p.AddCA(ca.cert); err != nil && !errors.Is(err, ErrExpired) {
		x.c.Broken("AddCA(%s): %v", ca.spec.name, err)
	}
	if _, ok := p.CAs[ca.fp]; !ok {
		x.c.Broken("AddCA(%s) did not store the CA", ca.spec.name)
	}
}

// one evaluation of the first half of the property
func (x *c01Ctx) eval(st *c01Stats, box string, p *CAPool, crt Certificate, leaf *c01Spec, issuer *c01Spec, sigOK, bg, bt bool, t c01Instant, detail func() map[string]any) (accepted bool, cc *CachedCertificate) {
	cc, err := p.VerifyCertificate(t.time(), crt)
	f := c01Rule(leaf, issuer, sigOK, bg, bt, t)
	st.evals++
	if bits.OnesCount32(f) <= 1 {
		st.nontrivial++
	}
	if bits.OnesCount32(f) == 1 {
		st.sole[bits.TrailingZeros32(f)]++
	}
	if err == nil {
		st.accepts++
		st.accAt[t]++
	} else {
		st.rejects++
		st.rejAt[t]++
	}
	st.outcomes[c01MaskString(f)+" => "+c01ErrClass(err)]++
	if (err == nil) != (f == 0) {
		d := detail()
		d["box"] = box
		d["t"] = t.String()
		d["rule_violated_clauses"] = c01MaskString(f)
		d["impl_error"] = fmt.Sprint(err)
		if err == nil {
			x.c.Violation("VerifyCertificate accepts a certificate the trust rule rejects: "+c01MaskString(f), d)
		} else {
			x.c.Violation("VerifyCertificate rejects a certificate the trust rule accepts: "+c01ErrClass(err), d)
		}
	}
	return err == nil, cc
}

// ---------------------------------------------------------------------------------------------------------------
// alphabets

func c01P(s ...string) []netip.Prefix {
	var out []netip.Prefix
	for _, x := range s {
		out = append(out, netip.MustParsePrefix(x))
	}
	return out
}

func c01IsV4(p netip.Prefix) bool { return p.Addr().Is4() }

// subsets of size 1..maxSize of atoms, in order
func c01Subsets(atoms []netip.Prefix, maxSize int) [][]netip.Prefix {
	var out [][]netip.Prefix
	for i := range atoms {
		out = append(out, []netip.Prefix{atoms[i]})
	}
	if maxSize >= 2 {
		for i := range atoms {
			for j := i + 1; j < len(atoms); j++ {
				out = append(out, []netip.Prefix{atoms[i], atoms[j]})
			}
		}
	}
	return out
}

// CA constraint alphabets
func c01CAGroups() [][]string { return [][]string{nil, {"a"}, {"a", "b"}} }
func c01CANets(ver Version) [][]netip.Prefix {
	if ver == Version1 {
		return [][]netip.Prefix{nil, c01P("10.0.0.0/8"), c01P("10.1.0.0/16", "10.3.0.0/16")}
	}
	return [][]netip.Prefix{nil, c01P("10.0.0.0/8"), c01P("10.1.0.0/16", "fd00::/8")}
}
func c01CAUnsafe(ver Version, thorough bool) [][]netip.Prefix {
	out := [][]netip.Prefix{nil, c01P("192.168.0.0/16")}
	if thorough && ver == Version2 {
		out = append(out, c01P("192.168.0.0/16", "fc00::/7"))
	}
	return out
}

// leaf alphabets: address inside / prefix equal to a CA range / wider than the CA range / outside, v4 and v6
func c01LeafNets(ver Version, thorough bool) [][]netip.Prefix {
	v4 := c01P("10.1.0.5/24", "10.0.0.1/8", "10.1.0.1/16", "10.0.0.1/7", "11.0.0.1/24", "10.3.0.9/32")
	v6 := c01P("fd00::5/64", "fd00::1/8", "fd00::1/7", "fe80::1/64")
	if ver == Version1 {
		if thorough {
			return c01Subsets(v4, 2)
		}
		return append(c01Subsets(v4, 1), c01P("10.1.0.5/24", "11.0.0.1/24"), c01P("10.1.0.5/24", "10.3.0.9/32"))
	}
	if thorough {
		return c01Subsets(append(v4, v6...), 2)
	}
	out := c01Subsets(v4, 1)
	out = append(out, c01P("10.1.0.5/24", "11.0.0.1/24"))
	for _, p := range v6 {
		out = append(out, []netip.Prefix{v4[0], p})
	}
	out = append(out, c01P("fd00::5/64"))
	return out
}

func c01LeafUnsafe(ver Version, thorough bool) [][]netip.Prefix {
	v4 := c01P("192.168.1.0/24", "192.168.0.0/16", "192.168.0.0/15", "172.16.0.0/12")
	out := [][]netip.Prefix{nil}
	out = append(out, c01Subsets(v4, 1)...)
	out = append(out, c01P("192.168.1.0/24", "172.16.0.0/12"))
	if thorough {
		out = append(out, c01P("192.168.1.0/24", "192.168.0.0/16"), c01P("192.168.0.0/16", "192.168.0.0/15"))
		if ver == Version2 {
			out = append(out, c01P("fd12::/16"), c01P("fc00::/7"), c01P("fc00::/6"), c01P("2001:db8::/32"), c01P("192.168.1.0/24", "fd12::/16"), c01P("192.168.1.0/24", "2001:db8::/32"))
		}
	}
	return out
}

// structural rule of v2 certificates (decoder refuses otherwise): an unsafe network of a family needs an assigned
// address of that family. Such combinations are not certificates at all and are left out of the box.
func c01Structural(ver Version, nets, unsafe []netip.Prefix) bool {
	if ver != Version2 {
		return true
	}
	has4, has6 := false, false
	for _, n := range nets {
		if c01IsV4(n) {
			has4 = true
		} else {
			has6 = true
		}
	}
	for _, u := range unsafe {
		if c01IsV4(u) && !has4 || !c01IsV4(u) && !has6 {
			return false
		}
	}
	return true
}

func c01GroupSubsets() [][]string {
	return [][]string{nil, {"a"}, {"b"}, {"c"}, {"a", "b"}, {"a", "c"}, {"b", "c"}, {"a", "b", "c"}}
}

const c01CANB, c01CANA = int64(100), int64(200)

func c01Times() []c01Instant {
	var out []c01Instant
	for _, s := range []int64{98, 99, 100, 101, 102, 150, 198, 199, 200, 201, 202} {
		out = append(out, c01Instant{s, 0})
	}
	// instants between seconds, next to every boundary
	for _, s := range []int64{98, 99, 100, 198, 199, 200, 201} {
		out = append(out, c01Instant{s, 500_000_000})
	}
	sort.Slice(out, func(i, j int) bool {
		if out[i].sec != out[j].sec {
			return out[i].sec < out[j].sec
		}
		return out[i].nsec < out[j].nsec
	})
	return out
}

// ---------------------------------------------------------------------------------------------------------------

func TestVerifC01(t *testing.T) {
	c := mc.Begin(t, "C01", "exploration")
	defer c.End()
	x := &c01Ctx{c: c, st: c01NewStats(), key: map[Curve][3]*c01Key{}, leafPub: map[Curve][]byte{}}
	curves := []Curve{Curve_CURVE25519, Curve_P256}
	for _, cu := range curves {
		x.key[cu] = [3]*c01Key{c01NewKey(cu, 0x11), c01NewKey(cu, 0x22), c01NewKey(cu, 0x33)}
	}
	x.leafPub[Curve_CURVE25519] = bytes.Repeat([]byte{0x42}, 32)
	x.leafPub[Curve_P256] = c01NewKey(Curve_P256, 0x44).pub
	thorough := c.Thorough()
	times := c01Times()
	versions := []Version{Version1, Version2}

	c.Assume("valid at t means NotBefore <= t <= NotAfter with both boundary seconds inclusive (Certificate.Expired's documented behaviour and the existing tests); instants between seconds are compared exactly")
	c.Assume("an empty group / network / unsafe-network list on a CA means 'no restriction' (nebula-cert ca help text); 'inside a range' = same address family, prefix at least as long, equal on the CA's prefix bits")
	c.Assume("blocklisting is about the certificate's own two fingerprints only (the statement says nothing about blocklisting a CA fingerprint; that case is left out of the box)")
	c.Assume("CAs live at unix seconds 100..200; AddCA reports them expired against the wall clock but keeps them in the pool, validity is decided by the evaluation time passed to the verifier")
	c.Assume("signature validity is known by construction (signed with the issuing CA's key over the certificate's own bytes, or tampered / signed by another key); the harness signs with crypto/ed25519 and crypto/ecdsa directly")

	stop := func() bool { return c.OutOfTime() }

	// ------------------------------------------------------------------ Box B: trust scenario x blocklist x signature x time
	type itemB struct {
		lv, cv      Version
		cu          Curve
		constrained bool
		leafKind    int
	}
	leafKinds := []string{"conforming", "equal-prefix", "group-outside", "network-outside", "unsafe-outside", "ends-after-ca", "starts-before-ca"}
	var itemsB []itemB
	for _, lv := range versions {
		for _, cv := range versions {
			for _, cu := range curves {
				for _, k := range []bool{false, true} {
					for lk := range leafKinds {
						itemsB = append(itemsB, itemB{lv, cv, cu, k, lk})
					}
				}
			}
		}
	}
	trusts := []string{"signer-only", "signer+decoy+other-curve-ca", "empty-pool", "decoys-only", "same-name-other-key-ca-only", "issuer-is-other-curve-ca", "empty-issuer-field"}
	blocks := []string{"empty", "presented-form", "other-form", "unrelated", "all-three"}
	sigKinds := []string{"good-low-s", "good-high-s", "tampered", "signed-by-other-key"}

	type seedC struct {
		lv, cv      Version
		cu          Curve
		constrained bool
		leafKind    int
		high        bool
	}
	var seeds []seedC
	var muB sync.Mutex

	mkCAB := func(cv Version, cu Curve, constrained bool, keyIdx int, name string) *c01CA {
		if !constrained {
			return x.mkCA(cv, x.key[cu][keyIdx], name, nil, nil, nil, c01CANB, c01CANA)
		}
		return x.mkCA(cv, x.key[cu][keyIdx], name, []string{"a", "b"}, c01CANets(cv)[2], c01P("192.168.0.0/16"), c01CANB, c01CANA)
	}
	mkLeafB := func(lv Version, cu Curve, kind int) *c01Spec {
		l := &c01Spec{ver: lv, curve: cu, name: "leaf", groups: []string{"a"}, nets: c01P("10.1.0.5/24"), unsafe: c01P("192.168.1.0/24"), nb: 100, na: 200, pub: x.leafPub[cu]}
		switch kind {
		case 1:
			l.nets, l.unsafe, l.groups = c01P("10.1.0.1/16"), c01P("192.168.0.0/16"), []string{"a", "b"}
		case 2:
			l.groups = []string{"a", "c"}
		case 3:
			l.nets = c01P("10.2.0.5/24")
		case 4:
			l.unsafe = c01P("192.168.1.0/24", "172.16.0.0/12")
		case 5:
			l.na = 201
		case 6:
			l.nb = 99
		}
		return l
	}
	other := func(cu Curve) Curve {
		if cu == Curve_P256 {
			return Curve_CURVE25519
		}
		return Curve_P256
	}

	_, complete := mc.ParallelItems(len(itemsB), 0, stop, func(i int, _ *mc.Enum) {
		it := itemsB[i]
		st := c01NewStats()
		defer x.merge(st)
		ca := mkCAB(it.cv, it.cu, it.constrained, 0, "ca")
		sameName := mkCAB(it.cv, it.cu, it.constrained, 2, "ca")
		decoy := x.mkCA(it.cv, x.key[it.cu][1], "decoy", nil, nil, nil, 50, 250)
		decoyExpired := x.mkCA(it.cv, x.key[it.cu][1], "decoy-old", nil, nil, nil, 10, 20)
		otherCurve := mkCAB(it.cv, other(it.cu), it.constrained, 0, "ca")
		unrelatedSpec := mkLeafB(it.lv, it.cu, 0)
		unrelatedSpec.name = "someone-else"
		unrelatedSpec.issuer = ca.fp
		unrelated, err := c01Assemble(unrelatedSpec, func(tbs []byte) []byte { return ca.key.sign(tbs, false) })
		if err != nil {
			c.Broken("unrelated leaf: %v", err)
		}
		unrelatedFp, _ := unrelated.Fingerprint()

		for tr, trName := range trusts {
			for sk, skName := range sigKinds {
				if it.cu != Curve_P256 && sk == 1 {
					continue // only P-256 signatures have a second form
				}
				leaf := mkLeafB(it.lv, it.cu, it.leafKind)
				var issuerCA *c01CA = ca
				switch tr {
				case 5:
					issuerCA = otherCurve
				}
				leaf.issuer = issuerCA.fp
				if tr == 6 {
					leaf.issuer = ""
				}
				high := sk == 1
				signKey := ca.key
				if sk == 3 || tr == 5 { // another key of the certificate's own curve
					signKey = x.key[it.cu][1]
				}
				var sig []byte
				crt, err := c01Assemble(leaf, func(tbs []byte) []byte {
					sig = signKey.sign(tbs, high)
					if sk == 2 {
						sig = c01Tamper(it.cu, sig)
					}
					return sig
				})
				if err != nil {
					c.Broken("cannot build leaf %v: %v", leaf.desc(), err)
				}
				fpGiven, err := crt.Fingerprint()
				if err != nil {
					c.Broken("fingerprint: %v", err)
				}
				fpTwin := ""
				if it.cu == Curve_P256 {
					curHigh, ok := c01IsHighS(sig)
					if !ok {
						c.Broken("own signature does not parse")
					}
					twin, err := c01Assemble(leaf, func([]byte) []byte { return c01SForm(sig, !curHigh) })
					if err != nil {
						c.Broken("twin: %v", err)
					}
					fpTwin, _ = twin.Fingerprint()
					if fpTwin == fpGiven {
						c.Broken("twin has the same fingerprint")
					}
				}
				sigOK := (sk == 0 || sk == 1) && tr != 5
				// the pool of this trust scenario
				var members []*c01CA
				switch tr {
				case 0, 6:
					members = []*c01CA{ca}
				case 1:
					members = []*c01CA{decoy, ca, otherCurve, decoyExpired}
				case 2:
				case 3:
					members = []*c01CA{decoy, decoyExpired}
				case 4:
					members = []*c01CA{sameName}
				case 5:
					members = []*c01CA{ca, otherCurve, decoy}
				}
				var issuer *c01Spec
				for _, m := range members {
					if leaf.issuer != "" && m.fp == leaf.issuer {
						issuer = &m.spec
					}
				}
				for bl, blName := range blocks {
					if fpTwin == "" && (bl == 2) {
						continue
					}
					pool := x.pool(members...)
					bg, bt := false, false
					if bl == 1 || bl == 4 {
						pool.BlocklistFingerprint(fpGiven)
						bg = true
					}
					if (bl == 2 || bl == 4) && fpTwin != "" {
						pool.BlocklistFingerprint(fpTwin)
						bt = true
					}
					if bl == 3 || bl == 4 {
						pool.BlocklistFingerprint(unrelatedFp)
					}
					seeded := false
					for _, tt := range times {
						acc, _ := x.eval(st, "B", pool, crt, leaf, issuer, sigOK, bg, bt, tt, func() map[string]any {
							return map[string]any{"leaf": leaf.desc(), "leaf_kind": leafKinds[it.leafKind], "ca": ca.spec.desc(), "trust": trName, "blocklist": blName, "signature": skName}
						})
						if acc && !seeded && bl == 0 && tr == 0 {
							seeded = true
							muB.Lock()
							seeds = append(seeds, seedC{it.lv, it.cv, it.cu, it.constrained, it.leafKind, high})
							muB.Unlock()
						}
					}
				}
				if tr == 1 && sk == 0 {
					c.Sample(map[string]any{"box": "B", "leaf": leaf.desc(), "leaf_kind": leafKinds[it.leafKind], "ca": ca.spec.desc(), "trust": trName, "signature": skName, "blocklists": blocks, "times": len(times)})
				}
			}
		}
		// a CA certificate presented as a peer certificate has no issuer: not "issued by a trusted CA"
		pool := x.pool(ca)
		for _, tt := range times {
			x.eval(st, "B", pool, ca.cert, &ca.spec, nil, true, false, false, tt, func() map[string]any {
				return map[string]any{"leaf": "the CA certificate itself", "ca": ca.spec.desc(), "trust": "signer-only"}
			})
		}
	})
	completeBC := complete
	if !complete {
		c.Capped("box B time budget")
	}

	// ------------------------------------------------------------------ Box C: cached re-check == full check
	sort.Slice(seeds, func(i, j int) bool { return fmt.Sprint(seeds[i]) < fmt.Sprint(seeds[j]) })
	ops := []string{"add-decoy-ca", "remove-signer-ca", "add-signer-ca", "add-same-name-other-key-ca", "blocklist-presented-form",
		"blocklist-other-form", "blocklist-unrelated", "reset-blocklist"}
	depth := mc.Pick(c, 2, 3)
	_, complete = mc.ParallelItems(len(seeds), 0, stop, func(i int, _ *mc.Enum) {
		sd := seeds[i]
		st := c01NewStats()
		defer x.merge(st)
		ca := mkCAB(sd.cv, sd.cu, sd.constrained, 0, "ca")
		sameName := mkCAB(sd.cv, sd.cu, sd.constrained, 2, "ca")
		decoy := x.mkCA(sd.cv, x.key[sd.cu][1], "decoy", nil, nil, nil, 50, 250)
		leaf := mkLeafB(sd.lv, sd.cu, sd.leafKind)
		leaf.issuer = ca.fp
		var sig []byte
		crt, err := c01Assemble(leaf, func(tbs []byte) []byte { sig = ca.key.sign(tbs, sd.high); return sig })
		if err != nil {
			c.Broken("seed leaf: %v", err)
		}
		fpGiven, _ := crt.Fingerprint()
		fpTwin := ""
		if sd.cu == Curve_P256 {
			twin, err := c01Assemble(leaf, func([]byte) []byte { return c01SForm(sig, !sd.high) })
			if err != nil {
				c.Broken("twin: %v", err)
			}
			fpTwin, _ = twin.Fingerprint()
		}
		// acceptance happens in the original trust state (signer only, empty blocklist) at t=150
		cc, err := x.pool(ca).VerifyCertificate(time.Unix(150, 0), crt)
		if err != nil || cc == nil {
			c.Broken("seed certificate not accepted: %v", err)
		}
		var seq []int
		var rec func(d int)
		rec = func(d int) {
			// replay the mutation sequence on a fresh pool (the cached certificate outlives the pool it came from,
			// exactly as it does across a nebula PKI reload)
			pool := x.pool(ca)
			signerIn, bg, bt := true, false, false
			for _, op := range seq {
				switch op {
				case 0:
					x.addCA(pool, decoy)
				case 1:
					delete(pool.CAs, ca.fp)
					signerIn = false
				case 2:
					x.addCA(pool, ca)
					signerIn = true
				case 3:
					x.addCA(pool, sameName)
				case 4:
					pool.BlocklistFingerprint(fpGiven)
					bg = true
				case 5:
					pool.BlocklistFingerprint(fpTwin)
					bt = true
				case 6:
					pool.BlocklistFingerprint(decoy.fp[:32] + fpGiven[32:])
				case 7:
					pool.ResetCertBlocklist()
					bg, bt = false, false
				}
			}
			st.cachedStates++
			var issuer *c01Spec
			if signerIn {
				issuer = &ca.spec
			}
			for _, tt := range times {
				detail := func() map[string]any {
					names := make([]string, len(seq))
					for k, op := range seq {
						names[k] = ops[op]
					}
					return map[string]any{"leaf": leaf.desc(), "ca": ca.spec.desc(), "accepted_in": "pool {signer}, empty blocklist, t=150",
						"signature": map[bool]string{false: "good-low-s", true: "good-high-s"}[sd.high], "then": names}
				}
				full, _ := x.eval(st, "C", pool, crt, leaf, issuer, true, bg, bt, tt, detail)
				cerr := pool.VerifyCachedCertificate(tt.time(), cc)
				st.cachedEvals++
				if cerr == nil {
					st.cachedAccepts++
				} else {
					st.cachedRejects++
				}
				if (cerr == nil) != full {
					d := detail()
					d["t"] = tt.String()
					d["cached_error"] = fmt.Sprint(cerr)
					f := c01Rule(leaf, issuer, true, bg, bt, tt)
					d["rule_violated_clauses"] = c01MaskString(f)
					if cerr == nil {
						x.c.Violation("VerifyCachedCertificate accepts where the full check rejects: "+c01MaskString(f), d)
					} else {
						x.c.Violation("VerifyCachedCertificate rejects where the full check accepts: "+c01ErrClass(cerr), d)
					}
				}
			}
			if d == depth {
				return
			}
			for op := range ops {
				if op == 5 && fpTwin == "" {
					continue
				}
				seq = append(seq, op)
				rec(d + 1)
				seq = seq[:len(seq)-1]
				if c.OutOfTime() {
					c.Capped("box C time budget")
					return
				}
			}
		}
		rec(0)
		if i%7 == 0 {
			c.Sample(map[string]any{"box": "C", "leaf": leaf.desc(), "ca": ca.spec.desc(), "mutation_alphabet": ops, "depth": depth, "times": len(times)})
		}
	})
	completeBC = completeBC && complete
	if !complete {
		c.Capped("box C time budget")
	}

	// ------------------------------------------------------------------ Box A: constraint lattice x window x time
	type itemA struct {
		lv, cv Version
		cu     Curve
		g      []string
		n, u   []netip.Prefix
	}
	var itemsA []itemA
	for _, lv := range versions {
		for _, cv := range versions {
			for _, cu := range curves {
				if !thorough && (cu == Curve_P256) != (cv == Version2) {
					continue // quick: one curve per (leaf version, CA version) pair: v1 CAs on 25519, v2 CAs on P-256
				}
				for _, g := range c01CAGroups() {
					for _, n := range c01CANets(cv) {
						for _, u := range c01CAUnsafe(cv, thorough) {
							itemsA = append(itemsA, itemA{lv, cv, cu, g, n, u})
						}
					}
				}
			}
		}
	}
	nbs := []int64{99, 100, 101}
	nas := []int64{199, 200, 201}
	timesA := times
	groupsA := c01GroupSubsets()
	if !thorough {
		timesA = nil
		for _, tt := range times { // quick: 11 of the 18 instants, every boundary second still present
			switch tt {
			case c01Instant{98, 0}, c01Instant{99, 0}, c01Instant{99, 500_000_000}, c01Instant{100, 0}, c01Instant{101, 0}, c01Instant{150, 0},
				c01Instant{199, 0}, c01Instant{200, 0}, c01Instant{200, 500_000_000}, c01Instant{201, 0}, c01Instant{202, 0}:
				timesA = append(timesA, tt)
			}
		}
		groupsA = [][]string{nil, {"a"}, {"b"}, {"a", "b"}, {"a", "c"}}
	}
	var leavesA int64
	var muA sync.Mutex
	_, complete = mc.ParallelItems(len(itemsA), 0, stop, func(i int, _ *mc.Enum) {
		it := itemsA[i]
		st := c01NewStats()
		defer x.merge(st)
		ca := x.mkCA(it.cv, x.key[it.cu][0], "ca", it.g, it.n, it.u, c01CANB, c01CANA)
		decoy := x.mkCA(it.cv, x.key[it.cu][1], "decoy", nil, nil, nil, 50, 250)
		pool := x.pool(ca, decoy)
		var nLeaves int64
		defer func() {
			muA.Lock()
			leavesA += nLeaves
			muA.Unlock()
		}()
		for _, lg := range groupsA {
			for _, ln := range c01LeafNets(it.lv, thorough) {
				for _, lu := range c01LeafUnsafe(it.lv, thorough) {
					if !c01Structural(it.lv, ln, lu) {
						continue
					}
					if c.OutOfTime() {
						c.Capped("box A time budget")
						return
					}
					for _, nb := range nbs {
						for _, na := range nas {
							leaf := &c01Spec{ver: it.lv, curve: it.cu, name: "leaf", groups: lg, nets: ln, unsafe: lu, nb: nb, na: na, issuer: ca.fp, pub: x.leafPub[it.cu]}
							crt, err := c01Assemble(leaf, func(tbs []byte) []byte { return ca.key.sign(tbs, false) })
							if err != nil {
								c.Broken("cannot build leaf %v: %v", leaf.desc(), err)
							}
							nLeaves++
							for _, tt := range timesA {
								x.eval(st, "A", pool, crt, leaf, &ca.spec, true, false, false, tt, func() map[string]any {
									return map[string]any{"leaf": leaf.desc(), "ca": ca.spec.desc(), "pool": "signer + unconstrained decoy CA", "blocklist": "empty", "signature": "good"}
								})
							}
							if nLeaves&(nLeaves-1) == 0 && i%37 == 0 {
								c.Sample(map[string]any{"box": "A", "leaf": leaf.desc(), "ca": ca.spec.desc(), "times": len(timesA)})
							}
						}
					}
				}
			}
		}
	})
	if !complete {
		c.Capped("box A time budget")
	}

	// ------------------------------------------------------------------ evidence and vacuity guards
	st := x.st
	c.Set("evaluations", st.evals+st.cachedEvals)
	c.Set("distinct_nontrivial", st.nontrivial)
	c.Set("rule", "cartesian products without repetition (every evaluated tuple certificate x CA x pool x blocklist x signature x time [x mutation sequence] is distinct by construction); a case counts as non-trivial when the reference rule accepts it or rejects it for exactly ONE clause (the boundary of the rule), counted during the run")
	c.Set("verify_calls", st.evals)
	c.Set("accepts", st.accepts)
	c.Set("rejects", st.rejects)
	c.Set("cached_verify_calls", st.cachedEvals)
	c.Set("cached_accepts", st.cachedAccepts)
	c.Set("cached_rejects", st.cachedRejects)
	c.Set("cached_trust_states", st.cachedStates)
	c.Set("cached_seeds", len(seeds))
	c.Set("cached_mutation_depth", depth)
	c.Set("boxA_items_ca_x_versions_x_curve", len(itemsA))
	c.Set("boxA_leaf_certificates", leavesA)
	c.Set("boxB_items", len(itemsB))
	c.Set("evaluation_times", len(times))
	c.Set("boxA_evaluation_times", len(timesA))
	c.Set("boxA_leaf_group_sets", len(groupsA))
	sole := map[string]int64{}
	for i, n := range st.sole {
		sole[c01ClauseNames[i]] = n
	}
	c.Set("rejected_for_exactly_this_clause", sole)
	c.Set("distinct_outcomes", len(st.outcomes))
	implResults := map[string]int64{}
	sawCurve := false
	for k, v := range st.outcomes {
		implResults[k[strings.Index(k, " => ")+4:]] += v
		if strings.Contains(k, "curve-mismatch") {
			sawCurve = true
		}
	}
	c.Set("impl_results", implResults)

	c.Set("boxes_B_and_C_complete", completeBC)
	if c.Violations() == 0 && !completeBC {
		// the soft budget ran out before the small boxes finished (overloaded machine): less was explored, not a broken harness
		c.Require(st.accepts > 0 && st.rejects > 0, "accepts=%d rejects=%d", st.accepts, st.rejects)
	}
	if c.Violations() == 0 && completeBC {
		c.Require(st.accepts > 0 && st.rejects > 0, "accepts=%d rejects=%d", st.accepts, st.rejects)
		for i, n := range st.sole {
			if uint32(1)<<uint(i) == c01FCATime || uint32(1)<<uint(i) == c01FCurve {
				// unreachable alone: a certificate inside the CA's window that is valid at t implies the CA is valid at t;
				// a signature cannot verify under a key of the other curve
				continue
			}
			c.Require(n > 0, "no case rejected solely for clause %q", c01ClauseNames[i])
		}
		for _, tt := range times {
			in := c01ValidAt(c01CANB, c01CANA, tt)
			c.Require(st.rejAt[tt] > 0, "no reject at t=%s", tt)
			c.Require((st.accAt[tt] > 0) == in, "t=%s: accepts=%d but CA window membership is %v", tt, st.accAt[tt], in)
		}
		c.Require(sawCurve, "no curve-mismatch case")
		c.Require(len(implResults) >= 10, "only %d distinct verifier results", len(implResults))
		c.Require(len(seeds) >= 8, "only %d cached seeds", len(seeds))
		c.Require(st.cachedAccepts > 0 && st.cachedRejects > 0, "cached accepts=%d rejects=%d", st.cachedAccepts, st.cachedRejects)
		c.Require(len(st.outcomes) >= 12, "only %d distinct outcomes", len(st.outcomes))
	}
}
