//go:build verif

package cert

import (
	"bytes"
	"crypto/aes"
	"crypto/cipher"
	"crypto/ed25519"
	"encoding/hex"
	"encoding/pem"
	"fmt"
	"hash/fnv"
	"runtime"
	"strings"
	"sync"
	"sync/atomic"
	"testing"

	"golang.org/x/crypto/argon2"

	"github.com/slackhq/nebula/zzverif/mc"
)

// C43 — encrypted private keys open only with the right passphrase; key PEM encodings round-trip and are refused
// under the wrong banner.
//
// Engine E3. Box 1: curve x key bytes x passphrase x Argon2 parameters -> EncryptAndMarshalSigningPrivateKey, then
// DecryptAndUnmarshalSigningPrivateKey with EVERY passphrase of the alphabet. Box 2: every edit-distance-1 mutant of
// the protobuf body (re-armoured) and of the PEM text, every banner, and structure-aware protobuf rewrites of a set of
// seed files, decrypted with the right passphrase (and a wrong one). Box 3: every (banner, payload length) pair
// through the four plain-key PEM decoders, the eight marshal/unmarshal round trips and every 1-edit mutant of the
// marshalled plain keys.
//
// Oracles are independent of the code under test:
//   * an own decryptor (encoding/pem + a 60-line protobuf walker + argon2.IDKey + AES-256-GCM) must open what the
//     implementation produced and yields the reference (banner, algorithm, KDF parameters, salt, ciphertext) tuple;
//   * implementation returns a key  ==>  key == original key, curve == original curve and the reference tuple of the
//     (possibly altered) input equals the original's;  wrong passphrase ==> refused;  right passphrase on the
//     unmodified file ==> the original key;
//   * plain keys: a decoder accepts  <=>  (banner, length) is in its documented table, and returns the payload.
// SAFETY: an altered file may encode arbitrary Argon2 cost parameters (up to 4 TiB / 2^32 passes). The KDF parameters
// of every mutant are decoded first (walker AND UnmarshalNebulaEncryptedData); mutants beyond the cap are not run and
// are counted in skipped_unsafe.

type c43Tuple struct {
	Banner      string
	Alg         string
	Version     int32
	Memory      uint32
	Iterations  uint32
	Parallelism uint32
	Salt        []byte
	Ciphertext  []byte
}

func (a c43Tuple) equal(b c43Tuple) bool {
	return a.Banner == b.Banner && a.Alg == b.Alg && a.Version == b.Version && a.Memory == b.Memory && a.Iterations == b.Iterations &&
		a.Parallelism == b.Parallelism && bytes.Equal(a.Salt, b.Salt) && bytes.Equal(a.Ciphertext, b.Ciphertext)
}

func (a c43Tuple) json() map[string]any {
	return map[string]any{"banner": a.Banner, "algorithm": a.Alg, "argon2_version": a.Version, "memory_kib": a.Memory, "iterations": a.Iterations,
		"parallelism": a.Parallelism, "salt_hex": hex.EncodeToString(a.Salt), "ciphertext_hex": hex.EncodeToString(a.Ciphertext)}
}

// --- protobuf walker (proto3 semantics: last scalar wins, repeated embedded messages merge, unknown fields skipped) ----

type c43Field struct {
	num uint64
	wt  int
	val []byte
	u   uint64
}

func c43Uvarint(b []byte) (uint64, int) {
	var x uint64
	for i := 0; i < len(b) && i < 10; i++ {
		if i == 9 && b[i] > 1 {
			return 0, 0
		}
		x |= uint64(b[i]&0x7f) << (7 * uint(i))
		if b[i]&0x80 == 0 {
			return x, i + 1
		}
	}
	return 0, 0
}

func c43PutUvarint(x uint64, pad int) []byte {
	var out []byte
	for x >= 0x80 {
		out = append(out, byte(x)|0x80)
		x >>= 7
	}
	out = append(out, byte(x))
	for i := 0; i < pad; i++ {
		out[len(out)-1] |= 0x80
		out = append(out, 0)
	}
	return out
}

func c43Split(b []byte) ([]c43Field, bool) {
	var out []c43Field
	for len(b) > 0 {
		key, n := c43Uvarint(b)
		if n == 0 || key>>3 == 0 {
			return nil, false
		}
		b = b[n:]
		f := c43Field{num: key >> 3, wt: int(key & 7)}
		switch f.wt {
		case 0:
			u, m := c43Uvarint(b)
			if m == 0 {
				return nil, false
			}
			f.u, f.val, b = u, b[:m], b[m:]
		case 2:
			l, m := c43Uvarint(b)
			if m == 0 || uint64(len(b)-m) < l {
				return nil, false
			}
			f.val, b = b[m:m+int(l)], b[m+int(l):]
		case 1:
			if len(b) < 8 {
				return nil, false
			}
			f.val, b = b[:8], b[8:]
		case 5:
			if len(b) < 4 {
				return nil, false
			}
			f.val, b = b[:4], b[4:]
		default:
			return nil, false
		}
		out = append(out, f)
	}
	return out, true
}

func c43Enc(f c43Field, padTag, padLen int) []byte {
	out := c43PutUvarint(f.num<<3|uint64(f.wt), padTag)
	if f.wt == 2 {
		out = append(out, c43PutUvarint(uint64(len(f.val)), padLen)...)
	}
	return append(out, f.val...)
}

func c43Join(fs []c43Field) []byte {
	var out []byte
	for _, f := range fs {
		out = append(out, c43Enc(f, 0, 0)...)
	}
	return out
}

func c43ParseBody(banner string, body []byte) (t c43Tuple, ok bool) {
	t.Banner = banner
	top, ok := c43Split(body)
	if !ok {
		return t, false
	}
	for _, f := range top {
		switch {
		case f.num == 1 && f.wt == 2:
			meta, ok := c43Split(f.val)
			if !ok {
				return t, false
			}
			for _, g := range meta {
				switch {
				case g.num == 1 && g.wt == 2:
					t.Alg = string(g.val)
				case g.num == 2 && g.wt == 2:
					ar, ok := c43Split(g.val)
					if !ok {
						return t, false
					}
					for _, h := range ar {
						switch {
						case h.num == 1 && h.wt == 0:
							t.Version = int32(h.u)
						case h.num == 2 && h.wt == 0:
							t.Memory = uint32(h.u)
						case h.num == 3 && h.wt == 0:
							t.Iterations = uint32(h.u)
						case h.num == 4 && h.wt == 0:
							t.Parallelism = uint32(h.u)
						case h.num == 5 && h.wt == 2:
							t.Salt = h.val
						}
					}
				}
			}
		case f.num == 2 && f.wt == 2:
			t.Ciphertext = f.val
		}
	}
	return t, true
}

func c43ParsePEM(b []byte) (t c43Tuple, ok bool) {
	blk, _ := pem.Decode(b)
	if blk == nil {
		return t, false
	}
	return c43ParseBody(blk.Type, blk.Bytes)
}

// c43RefDecrypt is the independent decryptor.
func c43RefDecrypt(pass []byte, t c43Tuple) ([]byte, bool) {
	if t.Alg != "AES-256-GCM" || t.Version != argon2.Version || len(t.Salt) < 16 || t.Memory == 0 || t.Iterations == 0 || t.Parallelism == 0 || t.Parallelism > 255 || len(t.Ciphertext) <= 12 {
		return nil, false
	}
	key := argon2.IDKey(pass, t.Salt, t.Iterations, t.Memory, uint8(t.Parallelism), 32)
	blk, err := aes.NewCipher(key)
	if err != nil {
		return nil, false
	}
	gcm, err := cipher.NewGCM(blk)
	if err != nil {
		return nil, false
	}
	pt, err := gcm.Open(nil, t.Ciphertext[:12], t.Ciphertext[12:], nil)
	return pt, err == nil
}

// ---------------------------------------------------------------------------------------------------------------

type c43Run struct {
	c      *mc.Check
	shards [64]struct {
		mu sync.Mutex
		m  map[uint64]struct{}
	}
	capMem, capIter                                                                      uint32
	encrypts, decrypts, rightOK, wrongRefused, mutants, mutantCalls, skippedUnsafe       atomic.Int64
	mutantRefused, mutantOpenedSameContent, distinct, plainCalls, plainAccepted, plainNo atomic.Int64
}

func (r *c43Run) isNew(parts ...[]byte) bool {
	h := fnv.New64a()
	for _, p := range parts {
		h.Write(p)
		h.Write([]byte{0xff, 0x00, 0xfe})
	}
	x := h.Sum64()
	sh := &r.shards[x&63]
	sh.mu.Lock()
	defer sh.mu.Unlock()
	if sh.m == nil {
		sh.m = map[uint64]struct{}{}
	}
	if _, ok := sh.m[x]; ok {
		return false
	}
	sh.m[x] = struct{}{}
	return true
}

type c43Seed struct {
	label  string
	curve  Curve
	key    []byte
	pass   []byte
	pemB   []byte
	body   []byte
	banner string
	tuple  c43Tuple
}

func c43ErrClass(err error) string {
	s := err.Error()
	for _, pre := range []string{"unsupported encryption algorithm", "proto:", "incompatible Argon2 version"} {
		if strings.HasPrefix(s, pre) {
			return pre // the rest echoes altered input
		}
	}
	var sb strings.Builder
	for _, ch := range s {
		if ch >= '0' && ch <= '9' {
			continue
		}
		sb.WriteRune(ch)
		if sb.Len() >= 60 {
			break
		}
	}
	return sb.String()
}

// unsafe reports whether running the KDF on this input could cost more than the cap. Both parsers are consulted.
func (r *c43Run) unsafe(pemBytes []byte) bool {
	big := func(mem, iter uint32) bool { return mem > r.capMem || iter > r.capIter }
	blk, _ := pem.Decode(pemBytes)
	if blk == nil {
		return false // nothing will be derived
	}
	if t, ok := c43ParseBody(blk.Type, blk.Bytes); ok && big(t.Memory, t.Iterations) {
		return true
	}
	if ned, err := UnmarshalNebulaEncryptedData(blk.Bytes); err == nil {
		p := ned.EncryptionMetadata.Argon2Parameters
		if big(p.Memory, p.Iterations) {
			return true
		}
	}
	return false
}

// attempt runs the real decryptor on an (altered) file and applies the oracle.
func (r *c43Run) attempt(s *c43Seed, kind string, pos, v int, input []byte, pass []byte, rightPass bool) {
	if r.unsafe(input) {
		r.skippedUnsafe.Add(1)
		return
	}
	r.mutantCalls.Add(1)
	curve, key, _, err := DecryptAndUnmarshalSigningPrivateKey(pass, input)
	detail := func(note string) map[string]any {
		m := map[string]any{"seed": s.label, "mutation": fmt.Sprintf("%s pos=%d val=%d", kind, pos, v), "note": note, "original_pem": string(s.pemB),
			"altered_pem": string(input), "passphrase_used_hex": hex.EncodeToString(pass), "passphrase_of_seed_hex": hex.EncodeToString(s.pass),
			"original_key_hex": hex.EncodeToString(s.key), "returned_key_hex": hex.EncodeToString(key), "returned_curve": curve.String(),
			"original_content": s.tuple.json()}
		if t, ok := c43ParsePEM(input); ok {
			m["altered_content"] = t.json()
		}
		return m
	}
	if err != nil {
		r.mutantRefused.Add(1)
		r.c.Distinct("outcomes", "refused: "+c43ErrClass(err))
		if key != nil {
			r.c.Violation("DecryptAndUnmarshalSigningPrivateKey returns key bytes together with an error", detail(err.Error()))
		}
		return
	}
	if !rightPass {
		r.c.Violation(fmt.Sprintf("%s encrypted key: a wrong passphrase opens an altered file", s.curve), detail("wrong passphrase accepted"))
		return
	}
	t, ok := c43ParsePEM(input)
	switch {
	case !bytes.Equal(key, s.key):
		r.c.Violation(fmt.Sprintf("%s encrypted key: an altered file decrypts to a key that is not the original", s.curve), detail("key differs"))
	case curve != s.curve:
		r.c.Violation(fmt.Sprintf("%s encrypted key: an altered file is opened as a key of another curve", s.curve), detail("curve differs"))
	case !ok:
		r.c.Violation(fmt.Sprintf("%s encrypted key: a file the reference parser cannot read is opened", s.curve), detail("reference walker failed"))
	case !t.equal(s.tuple):
		r.c.Violation(fmt.Sprintf("%s encrypted key: an altered file with different encrypted content (%s) is opened", s.curve, c43TupleDiff(t, s.tuple)), detail("content differs"))
	default:
		r.mutantOpenedSameContent.Add(1)
		r.c.Distinct("outcomes", "opened: same banner/algorithm/parameters/salt/ciphertext as the original (armour or encoding changed only)")
		if r.isNew([]byte(s.label), input) {
			r.distinct.Add(1)
		}
	}
}

func c43TupleDiff(a, b c43Tuple) string {
	switch {
	case a.Banner != b.Banner:
		return "banner"
	case a.Alg != b.Alg:
		return "algorithm"
	case a.Version != b.Version || a.Memory != b.Memory || a.Iterations != b.Iterations || a.Parallelism != b.Parallelism:
		return "KDF parameters"
	case !bytes.Equal(a.Salt, b.Salt):
		return "salt"
	}
	return "ciphertext"
}

func c43ByteEdits(b []byte, pos int, emit func(kind string, v int, m []byte)) {
	n := len(b)
	buf := make([]byte, 0, n+1)
	if pos < n {
		for v := 0; v < 256; v++ {
			if byte(v) == b[pos] {
				continue
			}
			buf = append(buf[:0], b...)
			buf[pos] = byte(v)
			emit("substitute", v, buf)
		}
		buf = append(buf[:0], b[:pos]...)
		buf = append(buf, b[pos+1:]...)
		emit("delete", -1, buf)
		emit("truncate", -1, b[:pos])
	}
	for v := 0; v < 256; v++ {
		buf = append(buf[:0], b[:pos]...)
		buf = append(buf, byte(v))
		buf = append(buf, b[pos:]...)
		emit("insert", v, buf)
	}
}

var c43AllBanners = []string{
	CertificateBanner, CertificateV2Banner, X25519PrivateKeyBanner, X25519PublicKeyBanner, P256PrivateKeyBanner, P256PublicKeyBanner,
	EncryptedECDSAP256PrivateKeyBanner, ECDSAP256PrivateKeyBanner, ECDSAP256PublicKeyBanner, EncryptedEd25519PrivateKeyBanner,
	Ed25519PrivateKeyBanner, Ed25519PublicKeyBanner, "PRIVATE KEY", "NEBULA ED25519 ENCRYPTED PRIVATE KEY ", "nebula ed25519 encrypted private key", "",
}

// c43Rewrites: structure-aware variants of the protobuf body.
func c43Rewrites(body []byte) [][]byte {
	var out [][]byte
	top, ok := c43Split(body)
	if !ok {
		panic("c43: seed body does not parse")
	}
	listOps := func(fs []c43Field) [][]c43Field {
		var res [][]c43Field
		for i := range fs {
			res = append(res, append(append([]c43Field{}, fs[:i]...), fs[i+1:]...))                  // drop
			res = append(res, append(append(append([]c43Field{}, fs[:i+1]...), fs[i]), fs[i+1:]...)) // duplicate
			for j := i + 1; j < len(fs); j++ {
				sw := append([]c43Field{}, fs...)
				sw[i], sw[j] = sw[j], sw[i]
				res = append(res, sw)
				rv := append([]c43Field{}, fs...) // values exchanged under the other's field number
				rv[i], rv[j] = c43Field{num: fs[i].num, wt: fs[j].wt, val: fs[j].val}, c43Field{num: fs[j].num, wt: fs[i].wt, val: fs[i].val}
				res = append(res, rv)
			}
		}
		return res
	}
	idx := func(fs []c43Field, num uint64) int {
		for i, f := range fs {
			if f.num == num {
				return i
			}
		}
		panic("c43: field missing in seed")
	}
	mi := idx(top, 1)
	meta, _ := c43Split(top[mi].val)
	ai := idx(meta, 2)
	ar, _ := c43Split(meta[ai].val)
	reMeta := func(m []c43Field) []byte {
		n := append([]c43Field{}, top...)
		n[mi] = c43Field{num: 1, wt: 2, val: c43Join(m)}
		return c43Join(n)
	}
	reAr := func(a []c43Field) []byte {
		m := append([]c43Field{}, meta...)
		m[ai] = c43Field{num: 2, wt: 2, val: c43Join(a)}
		return reMeta(m)
	}
	for _, v := range listOps(top) {
		out = append(out, c43Join(v))
	}
	for _, v := range listOps(meta) {
		out = append(out, reMeta(v))
	}
	for _, v := range listOps(ar) {
		out = append(out, reAr(v))
	}
	// non-minimal tag / length / value varints everywhere
	padded := func(fs []c43Field, re func([]byte) []byte) {
		for i, f := range fs {
			for _, pads := range [][2]int{{1, 0}, {0, 1}, {2, 3}} {
				var enc []byte
				if f.wt == 0 && pads[0] == 0 {
					enc = append(c43PutUvarint(f.num<<3, 0), c43PutUvarint(f.u, pads[1])...)
				} else {
					enc = c43Enc(f, pads[0], pads[1])
				}
				b := append(append(c43Join(fs[:i]), enc...), c43Join(fs[i+1:])...)
				out = append(out, re(b))
			}
		}
	}
	padded(top, func(b []byte) []byte { return b })
	padded(meta, func(b []byte) []byte {
		n := append([]c43Field{}, top...)
		n[mi] = c43Field{num: 1, wt: 2, val: b}
		return c43Join(n)
	})
	padded(ar, func(b []byte) []byte {
		m := append([]c43Field{}, meta...)
		m[ai] = c43Field{num: 2, wt: 2, val: b}
		return reMeta(m)
	})
	// unknown fields and overriding duplicates (proto3 merges a repeated embedded message, last scalar wins)
	vr := func(num, v uint64) c43Field { return c43Field{num: num, wt: 0, val: c43PutUvarint(v, 0), u: v} }
	by := func(num uint64, v []byte) c43Field { return c43Field{num: num, wt: 2, val: v} }
	over := []c43Field{vr(1, 0x10), vr(1, 0x13), vr(2, 9), vr(2, 1), vr(3, 2), vr(4, 2), vr(4, 256+1), vr(2, 1<<32+8), by(5, bytes.Repeat([]byte{7}, 32)), by(5, nil), vr(9, 1), by(10, []byte("x"))}
	for _, o := range over {
		out = append(out, reAr(append(append([]c43Field{}, ar...), o)))
		out = append(out, reAr(append([]c43Field{o}, ar...)))
		second := by(1, c43Join([]c43Field{by(2, c43Join([]c43Field{o}))}))
		out = append(out, append(append([]byte{}, body...), c43Enc(second, 0, 0)...))
		out = append(out, append(c43Enc(second, 0, 0), body...))
	}
	for _, alg := range []string{"", "AES-256-GCM ", "aes-256-gcm", "AES-128-GCM", "AES-256-GCM\x00", "none"} {
		out = append(out, reMeta(append(append([]c43Field{}, meta...), by(1, []byte(alg)))))
		out = append(out, append(append([]byte{}, body...), c43Enc(by(1, c43Join([]c43Field{by(1, []byte(alg))})), 0, 0)...))
	}
	ci := idx(top, 2)
	ct := top[ci].val
	for _, nc := range [][]byte{nil, ct[:12], ct[:13], ct[:len(ct)-16], append(append([]byte{}, ct...), 0), append(append([]byte{}, ct...), ct...), ct[12:]} {
		n := append([]c43Field{}, top...)
		n[ci] = by(2, nc)
		out = append(out, c43Join(n), c43Join(append(append([]c43Field{}, top...), by(2, nc))))
	}
	out = append(out, append(append([]byte{}, body...), c43Enc(vr(15, 1), 0, 0)...), append(append([]byte{}, body...), c43Enc(by(99, []byte("zz")), 0, 0)...))
	return out
}

// ---------------------------------------------------------------------------------------------------------------
// Box 3 reference tables

type c43PlainRule struct {
	length int
	curve  Curve
}

var c43PlainTables = map[string]map[string]c43PlainRule{
	"UnmarshalPublicKeyFromPEM":         {X25519PublicKeyBanner: {32, Curve_CURVE25519}, P256PublicKeyBanner: {65, Curve_P256}},
	"UnmarshalSigningPublicKeyFromPEM":  {Ed25519PublicKeyBanner: {32, Curve_CURVE25519}, ECDSAP256PublicKeyBanner: {65, Curve_P256}},
	"UnmarshalPrivateKeyFromPEM":        {X25519PrivateKeyBanner: {32, Curve_CURVE25519}, P256PrivateKeyBanner: {32, Curve_P256}},
	"UnmarshalSigningPrivateKeyFromPEM": {Ed25519PrivateKeyBanner: {64, Curve_CURVE25519}, ECDSAP256PrivateKeyBanner: {32, Curve_P256}},
}

var c43PlainFuncs = []struct {
	name string
	f    func([]byte) ([]byte, []byte, Curve, error)
}{
	{"UnmarshalPublicKeyFromPEM", UnmarshalPublicKeyFromPEM},
	{"UnmarshalSigningPublicKeyFromPEM", UnmarshalSigningPublicKeyFromPEM},
	{"UnmarshalPrivateKeyFromPEM", UnmarshalPrivateKeyFromPEM},
	{"UnmarshalSigningPrivateKeyFromPEM", UnmarshalSigningPrivateKeyFromPEM},
}

// plain feeds one PEM text to the four plain-key decoders and compares with the table.
func (r *c43Run) plain(input []byte, what func() map[string]any) {
	blk, rest := pem.Decode(input)
	for _, pf := range c43PlainFuncs {
		r.plainCalls.Add(1)
		key, gotRest, curve, err := pf.f(input)
		var rule c43PlainRule
		want := false
		if blk != nil {
			rule, want = c43PlainTables[pf.name][blk.Type]
			want = want && len(blk.Bytes) == rule.length
		}
		detail := func(note string) map[string]any {
			m := what()
			m["function"], m["note"], m["input_pem"] = pf.name, note, string(input)
			if blk != nil {
				m["banner"], m["payload_len"] = blk.Type, len(blk.Bytes)
			}
			return m
		}
		switch {
		case err == nil && !want:
			why := "input without a PEM block"
			if blk != nil {
				if _, ok := c43PlainTables[pf.name][blk.Type]; ok {
					why = "a payload of the wrong length"
				} else {
					why = "a banner it must refuse"
				}
			}
			r.c.Violation(fmt.Sprintf("%s accepts %s", pf.name, why), detail("accepted"))
		case err != nil && want:
			r.c.Violation(fmt.Sprintf("%s refuses a well-formed key under its own banner", pf.name), detail(err.Error()))
		case err == nil:
			r.plainAccepted.Add(1)
			if !bytes.Equal(key, blk.Bytes) || curve != rule.curve || !bytes.Equal(gotRest, rest) {
				r.c.Violation(fmt.Sprintf("%s returns other key bytes / curve / remainder than the PEM block carries", pf.name), detail("mismatch"))
			}
			if r.isNew([]byte(pf.name), input) {
				r.distinct.Add(1)
			}
		default:
			r.plainNo.Add(1)
			if key != nil {
				r.c.Violation(fmt.Sprintf("%s returns key bytes together with an error", pf.name), detail(err.Error()))
			}
		}
	}
}

// ---------------------------------------------------------------------------------------------------------------

func TestVerifC43(t *testing.T) {
	c := mc.Begin(t, "C43", "exploration")
	defer c.End()
	r := &c43Run{c: c, capMem: mc.Pick[uint32](c, 4096, 65536), capIter: mc.Pick[uint32](c, 4, 8)}
	th := c.Thorough()
	c.Set("unsafe_cap", map[string]any{"memory_kib": r.capMem, "iterations": r.capIter})

	edKey := []byte(ed25519.NewKeyFromSeed(bytes.Repeat([]byte{1}, 32)))
	keys := map[Curve][][]byte{
		Curve_CURVE25519: {edKey, make([]byte, 64), bytes.Repeat([]byte{0xff}, 64)},
		Curve_P256:       {bytes.Repeat([]byte{7}, 32), make([]byte, 32), bytes.Repeat([]byte{0xff}, 32)},
	}
	passes := [][]byte{[]byte("a"), {}, []byte("b"), bytes.Repeat([]byte("p"), 64)}
	if th {
		passes = append(passes, []byte("a\x00"), []byte("A"), []byte("aa"))
	}
	type kdf struct {
		mem  uint32
		par  uint8
		iter uint32
	}
	var kdfs []kdf
	for _, m := range mc.Pick(c, []uint32{8, 64}, []uint32{8, 16, 32, 64}) {
		for _, p := range mc.Pick(c, []uint8{1, 2}, []uint8{1, 2, 4}) {
			for _, it := range mc.Pick(c, []uint32{1, 2}, []uint32{1, 2, 3}) {
				kdfs = append(kdfs, kdf{m, p, it})
			}
		}
	}
	banners := map[Curve]string{Curve_CURVE25519: EncryptedEd25519PrivateKeyBanner, Curve_P256: EncryptedECDSAP256PrivateKeyBanner}

	// ---- Box 1 ----------------------------------------------------------------------------------------------------
	var seeds []*c43Seed
	type b1 struct {
		curve      Curve
		ki, pi, di int
	}
	var b1s []b1
	for _, curve := range []Curve{Curve_CURVE25519, Curve_P256} {
		for ki := range keys[curve] {
			for pi := range passes {
				for di := range kdfs {
					b1s = append(b1s, b1{curve, ki, pi, di})
				}
			}
		}
	}
	var seedMu sync.Mutex
	var wg sync.WaitGroup
	var next atomic.Int64
	workers := runtime.GOMAXPROCS(0)
	for w := 0; w < workers; w++ {
		wg.Add(1)
		go func() {
			defer wg.Done()
			for {
				i := int(next.Add(1) - 1)
				if i >= len(b1s) {
					return
				}
				x := b1s[i]
				key, pass, d := keys[x.curve][x.ki], passes[x.pi], kdfs[x.di]
				label := fmt.Sprintf("%s key#%d pass#%d argon2(m=%dKiB,p=%d,t=%d)", x.curve, x.ki, x.pi, d.mem, d.par, d.iter)
				out, err := EncryptAndMarshalSigningPrivateKey(x.curve, append([]byte{}, key...), append([]byte{}, pass...), NewArgon2Parameters(d.mem, d.par, d.iter))
				r.encrypts.Add(1)
				base := map[string]any{"case": label, "key_hex": hex.EncodeToString(key), "passphrase_hex": hex.EncodeToString(pass), "pem": string(out)}
				if err != nil {
					base["error"] = err.Error()
					c.Violation(fmt.Sprintf("%s: EncryptAndMarshalSigningPrivateKey fails inside the box", x.curve), base)
					continue
				}
				tup, ok := c43ParsePEM(out)
				wellFormed := ok && tup.Banner == banners[x.curve] && tup.Alg == "AES-256-GCM" && tup.Version == argon2.Version && tup.Memory == d.mem &&
					tup.Iterations == d.iter && tup.Parallelism == uint32(d.par) && len(tup.Salt) >= 16 && len(tup.Ciphertext) == 12+len(key)+16
				if !wellFormed {
					base["parsed"] = tup.json()
					c.Violation(fmt.Sprintf("%s: the encrypted file does not record the banner/algorithm/KDF parameters that were asked for", x.curve), base)
					continue
				}
				if pt, ok := c43RefDecrypt(pass, tup); !ok || !bytes.Equal(pt, key) {
					c.Violation(fmt.Sprintf("%s: an independent Argon2id+AES-256-GCM decryptor cannot open the file with the right passphrase", x.curve), base)
				}
				if x.ki == 0 && (bytes.Contains(tup.Ciphertext, key[:16]) || bytes.Contains(tup.Salt, key[:16])) {
					c.Violation(fmt.Sprintf("%s: the encrypted file contains the plaintext key", x.curve), base)
				}
				for pj, p2 := range passes {
					for _, trailing := range []string{"", "trailing data\n"} {
						in := append(append([]byte{}, out...), trailing...)
						curve, got, rest, err := DecryptAndUnmarshalSigningPrivateKey(append([]byte{}, p2...), in)
						r.decrypts.Add(1)
						m := map[string]any{"case": label, "decrypt_passphrase_hex": hex.EncodeToString(p2), "pem": string(in), "returned_key_hex": hex.EncodeToString(got)}
						if pj == x.pi {
							if err != nil || !bytes.Equal(got, key) || curve != x.curve || string(rest) != trailing {
								m["error"] = fmt.Sprint(err)
								c.Violation(fmt.Sprintf("%s: the right passphrase does not return the original key/curve/remainder", x.curve), m)
							} else {
								r.rightOK.Add(1)
								if r.isNew([]byte("box1"), in, p2) {
									r.distinct.Add(1)
								}
							}
						} else {
							if err == nil || got != nil {
								c.Violation(fmt.Sprintf("%s encrypted key: a wrong passphrase opens the file", x.curve), m)
							} else {
								r.wrongRefused.Add(1)
								c.Distinct("outcomes", "refused: "+c43ErrClass(err))
								if r.isNew([]byte("box1"), in, p2) {
									r.distinct.Add(1)
								}
							}
						}
					}
				}
				// mutation seeds: cheapest KDF; key #0 with passphrases "a" and ""; thorough adds key #2 and the 64-byte passphrase
				// and one seed with the most expensive KDF set of the box (parameter-aliasing edits need non-minimal originals)
				if (x.di == 0 && ((x.ki == 0 && x.pi <= 1) || (th && x.ki == 2 && x.pi == 3))) || (th && x.di == len(kdfs)-1 && x.ki == 0 && x.pi == 0) {
					blk, _ := pem.Decode(out)
					seedMu.Lock()
					seeds = append(seeds, &c43Seed{label: label, curve: x.curve, key: key, pass: pass, pemB: out, body: blk.Bytes, banner: blk.Type, tuple: tup})
					seedMu.Unlock()
				}
			}
		}()
	}
	wg.Wait()
	c.Set("box1_alphabet", map[string]int{"curves": 2, "keys_per_curve": 3, "passphrases": len(passes), "kdf_parameter_sets": len(kdfs)})

	// ---- Box 1b: near-miss passphrases ------------------------------------------------------------------------------
	// "refused with any other passphrase": every passphrase one byte away from the real one (any byte value appended,
	// prepended, substituted for the last byte, or the last byte dropped), plus the edits a lenient reader would make
	// (line endings, blanks, NUL, case, doubling), against the seed files of the cheapest KDF set.
	{
		var near, nearRefused atomic.Int64
		for _, sd := range seeds {
			if sd.tuple.Memory != kdfs[0].mem {
				continue
			}
			real := sd.pass
			var cands [][]byte
			add := func(b []byte) {
				if !bytes.Equal(b, real) {
					cands = append(cands, b)
				}
			}
			for v := 0; v < 256; v++ {
				add(append(append([]byte{}, real...), byte(v)))
				add(append([]byte{byte(v)}, real...))
				if len(real) > 0 {
					add(append(append([]byte{}, real[:len(real)-1]...), byte(v)))
				}
			}
			if len(real) > 0 {
				add(real[:len(real)-1])
				add(real[1:])
				add(bytes.ToUpper(real))
				add(bytes.ToLower(real))
			}
			for _, suf := range []string{"\r\n", "\n\n", "\n\r", " \n", "\t", "  ", "\x00\x00"} {
				add(append(append([]byte{}, real...), suf...))
				add(append([]byte(suf), real...))
			}
			add(append(append([]byte{}, real...), real...))
			for _, cand := range cands {
				_, got, _, err := DecryptAndUnmarshalSigningPrivateKey(append([]byte{}, cand...), append([]byte{}, sd.pemB...))
				near.Add(1)
				r.decrypts.Add(1)
				if err == nil || got != nil {
					c.Violation(fmt.Sprintf("%s encrypted key: a wrong passphrase opens the file", sd.curve)+" (near miss of the real passphrase)",
						map[string]any{"case": sd.label, "real_passphrase_hex": hex.EncodeToString(real), "decrypt_passphrase_hex": hex.EncodeToString(cand), "returned_key_hex": hex.EncodeToString(got)})
					break
				}
				nearRefused.Add(1)
			}
		}
		c.Set("near_miss_passphrases_tried", near.Load())
		c.Set("near_miss_passphrases_refused", nearRefused.Load())
		if c.Violations() == 0 {
			c.Require(near.Load() >= 2000, "near-miss passphrase box too small: %d", near.Load())
		}
	}

	// ---- Box 2 ----------------------------------------------------------------------------------------------------
	type task func()
	var tasks []task
	wrong := []byte("b")
	rewrites := 0
	for _, s := range seeds {
		s := s
		try := func(kind string, pos, v int, in []byte) {
			r.mutants.Add(1)
			r.attempt(s, kind, pos, v, in, s.pass, true)
			if th || pos%4 == 0 {
				r.attempt(s, kind+" +wrong-passphrase", pos, v, in, wrong, false)
			}
		}
		for pos := 0; pos <= len(s.body); pos++ {
			pos := pos
			tasks = append(tasks, func() {
				c43ByteEdits(s.body, pos, func(kind string, v int, m []byte) {
					try("body-"+kind, pos, v, pem.EncodeToMemory(&pem.Block{Type: s.banner, Bytes: m}))
				})
			})
		}
		for pos := 0; pos <= len(s.pemB); pos++ {
			pos := pos
			tasks = append(tasks, func() {
				c43ByteEdits(s.pemB, pos, func(kind string, v int, m []byte) { try("pem-"+kind, pos, v, append([]byte{}, m...)) })
			})
		}
		tasks = append(tasks, func() {
			for i, b := range c43AllBanners {
				if b == s.banner {
					continue
				}
				try("banner-swap to "+b, i, 0, pem.EncodeToMemory(&pem.Block{Type: b, Bytes: s.body}))
				// the same through the plain-key decoders: an encrypted payload is never a plain key
				in := pem.EncodeToMemory(&pem.Block{Type: b, Bytes: s.body})
				r.plain(in, func() map[string]any {
					return map[string]any{"seed": s.label, "case": "encrypted body under banner " + b}
				})
			}
			r.plain(s.pemB, func() map[string]any {
				return map[string]any{"seed": s.label, "case": "encrypted file given to the plain-key decoders"}
			})
		})
		rw := c43Rewrites(s.body)
		rewrites += len(rw)
		for i, m := range rw {
			i, m := i, m
			tasks = append(tasks, func() { try("structural-rewrite", i, 0, pem.EncodeToMemory(&pem.Block{Type: s.banner, Bytes: m})) })
		}
	}
	var capped atomic.Bool
	next.Store(0)
	for w := 0; w < workers; w++ {
		wg.Add(1)
		go func() {
			defer wg.Done()
			for {
				i := int(next.Add(1) - 1)
				if i >= len(tasks) {
					return
				}
				if c.OutOfTime() {
					capped.Store(true)
					return
				}
				tasks[i]()
			}
		}()
	}
	wg.Wait()

	// ---- Box 3 ----------------------------------------------------------------------------------------------------
	lengths := []int{0, 1, 31, 32, 33, 63, 64, 65, 66}
	for _, b := range c43AllBanners {
		for _, l := range lengths {
			for _, trailing := range []string{"", "rest"} {
				payload := make([]byte, l)
				for i := range payload {
					payload[i] = byte(i*7 + 1)
				}
				in := append(pem.EncodeToMemory(&pem.Block{Type: b, Bytes: payload}), trailing...)
				r.plain(in, func() map[string]any {
					return map[string]any{"case": fmt.Sprintf("banner %q payload %d bytes trailing %q", b, l, trailing)}
				})
			}
		}
	}
	type rt struct {
		name   string
		m      func(Curve, []byte) []byte
		u      func([]byte) ([]byte, []byte, Curve, error)
		banner map[Curve]string
		klen   map[Curve]int
	}
	rts := []rt{
		{"MarshalPublicKeyToPEM/UnmarshalPublicKeyFromPEM", MarshalPublicKeyToPEM, UnmarshalPublicKeyFromPEM, map[Curve]string{0: X25519PublicKeyBanner, 1: P256PublicKeyBanner}, map[Curve]int{0: 32, 1: 65}},
		{"MarshalSigningPublicKeyToPEM/UnmarshalSigningPublicKeyFromPEM", MarshalSigningPublicKeyToPEM, UnmarshalSigningPublicKeyFromPEM, map[Curve]string{0: Ed25519PublicKeyBanner, 1: ECDSAP256PublicKeyBanner}, map[Curve]int{0: 32, 1: 65}},
		{"MarshalPrivateKeyToPEM/UnmarshalPrivateKeyFromPEM", MarshalPrivateKeyToPEM, UnmarshalPrivateKeyFromPEM, map[Curve]string{0: X25519PrivateKeyBanner, 1: P256PrivateKeyBanner}, map[Curve]int{0: 32, 1: 32}},
		{"MarshalSigningPrivateKeyToPEM/UnmarshalSigningPrivateKeyFromPEM", MarshalSigningPrivateKeyToPEM, UnmarshalSigningPrivateKeyFromPEM, map[Curve]string{0: Ed25519PrivateKeyBanner, 1: ECDSAP256PrivateKeyBanner}, map[Curve]int{0: 64, 1: 32}},
	}
	var plainSeeds [][]byte
	roundTrips := 0
	for _, x := range rts {
		for _, curve := range []Curve{Curve_CURVE25519, Curve_P256} {
			for _, fill := range []byte{0x00, 0x5a, 0xff} {
				key := bytes.Repeat([]byte{fill}, x.klen[curve])
				if fill == 0x5a {
					for i := range key {
						key[i] = byte(i + 3)
					}
				}
				out := x.m(curve, key)
				roundTrips++
				blk, rest := pem.Decode(out)
				m := map[string]any{"pair": x.name, "curve": curve.String(), "key_hex": hex.EncodeToString(key), "pem": string(out)}
				if blk == nil || blk.Type != x.banner[curve] || !bytes.Equal(blk.Bytes, key) || len(rest) != 0 {
					c.Violation(fmt.Sprintf("%s: marshalled key is not a PEM block with the documented banner and the key bytes", x.name), m)
					continue
				}
				got, rest2, gc, err := x.u(out)
				if err != nil || !bytes.Equal(got, key) || gc != curve || len(rest2) != 0 {
					m["error"] = fmt.Sprint(err)
					c.Violation(fmt.Sprintf("%s: round trip does not return the key and curve", x.name), m)
				}
				if fill == 0x5a {
					plainSeeds = append(plainSeeds, out)
				}
				// an encrypted banner decoder given a plain key, and vice versa, must refuse
				if _, k, _, err := DecryptAndUnmarshalSigningPrivateKey([]byte("a"), out); err == nil || k != nil {
					c.Violation("DecryptAndUnmarshalSigningPrivateKey accepts a plain (unencrypted) key file", m)
				}
			}
		}
		if out := x.m(Curve(7), make([]byte, 32)); out != nil {
			c.Violation(fmt.Sprintf("%s: marshals a key for an unknown curve", x.name), map[string]any{"pem": string(out)})
		}
	}
	// every 1-edit mutant of the marshalled plain keys through the four decoders
	tasks = tasks[:0]
	for si, ps := range plainSeeds {
		si, ps := si, ps
		for pos := 0; pos <= len(ps); pos++ {
			pos := pos
			tasks = append(tasks, func() {
				c43ByteEdits(ps, pos, func(kind string, v int, m []byte) {
					mm := append([]byte{}, m...)
					r.plain(mm, func() map[string]any {
						return map[string]any{"case": fmt.Sprintf("plain key seed #%d %s pos=%d val=%d", si, kind, pos, v)}
					})
				})
			})
		}
	}
	next.Store(0)
	for w := 0; w < workers; w++ {
		wg.Add(1)
		go func() {
			defer wg.Done()
			for {
				i := int(next.Add(1) - 1)
				if i >= len(tasks) {
					return
				}
				if c.OutOfTime() {
					capped.Store(true)
					return
				}
				tasks[i]()
			}
		}()
	}
	wg.Wait()
	if capped.Load() {
		c.Capped("soft time budget")
	}

	// ---- guards + evidence -------------------------------------------------------------------------------------------
	if c.Violations() == 0 && !capped.Load() {
		c.Require(int(r.encrypts.Load()) == len(b1s) && r.rightOK.Load() == 2*r.encrypts.Load(), "box 1: %d encryptions, %d right-passphrase successes", r.encrypts.Load(), r.rightOK.Load())
		c.Require(r.wrongRefused.Load() == 2*r.encrypts.Load()*int64(len(passes)-1), "box 1: wrong-passphrase refusals %d", r.wrongRefused.Load())
		c.Require(len(seeds) >= 4, "too few mutation seeds: %d", len(seeds))
		c.Require(r.mutantRefused.Load() > 0 && r.mutantOpenedSameContent.Load() > 0, "box 2 needs both outcomes: refused=%d opened-with-unchanged-content=%d", r.mutantRefused.Load(), r.mutantOpenedSameContent.Load())
		c.Require(r.skippedUnsafe.Load() > 0, "no mutant hit the unsafe-parameter guard: the guard is not being exercised")
		c.Require(r.plainAccepted.Load() > 0 && r.plainNo.Load() > 0, "box 3 needs both outcomes")
		c.Require(c.DistinctCount("outcomes") >= 6, "only %d distinct outcomes", c.DistinctCount("outcomes"))
	}
	c.Set("encryptions", r.encrypts.Load())
	c.Set("box1_decryptions", r.decrypts.Load())
	c.Set("right_passphrase_opened", r.rightOK.Load())
	c.Set("wrong_passphrase_refused", r.wrongRefused.Load())
	c.Set("mutation_seeds", len(seeds))
	c.Set("mutants", r.mutants.Load())
	c.Set("structural_rewrites", rewrites)
	c.Set("mutant_decrypt_calls", r.mutantCalls.Load())
	c.Set("skipped_unsafe", r.skippedUnsafe.Load())
	c.Set("mutants_refused", r.mutantRefused.Load())
	c.Set("mutants_opened_with_unchanged_content", r.mutantOpenedSameContent.Load())
	c.Set("plain_key_decoder_calls", r.plainCalls.Load())
	c.Set("plain_key_accepted", r.plainAccepted.Load())
	c.Set("plain_key_round_trips", roundTrips)
	c.Set("evaluations", r.decrypts.Load()+r.mutantCalls.Load()+r.skippedUnsafe.Load()+r.plainCalls.Load())
	c.Set("distinct_nontrivial", r.distinct.Load())
	c.Set("rule", "evaluations = decrypt calls of box 1 + decrypt attempts on altered files (skipped_unsafe ones included, they are not run) + plain-key decoder calls; non-trivial & distinct = distinct (file, passphrase) pairs of box 1 (each is a definite open/refuse expectation) + distinct altered files that still opened with unchanged content + distinct (decoder, input) pairs a plain-key decoder accepted; deduplicated with a 64-bit hash")
	if len(seeds) > 0 {
		c.Sample(map[string]any{"seed": seeds[0].label, "pem": string(seeds[0].pemB), "content": seeds[0].tuple.json()})
	}
	c.Sample(map[string]any{"box": 1, "case": "P256 key#1 encrypted with passphrase \"\" (m=64KiB,p=2,t=2), decrypted with each of the passphrases"})
	c.Sample(map[string]any{"box": 3, "case": "banner \"NEBULA P256 PRIVATE KEY\" payload 32 bytes through UnmarshalSigningPrivateKeyFromPEM (must refuse)"})
	c.Assume("'any alteration of the encrypted data' is read as any change of the decoded content (banner/curve, algorithm, KDF parameters, salt, ciphertext): changes of the armour or of the protobuf encoding that leave that content identical may still open — the weaker reading")
	c.Assume(fmt.Sprintf("altered files whose decoded Argon2 parameters exceed %d KiB or %d passes are not run (counted in skipped_unsafe): that region is outside the box", r.capMem, r.capIter))
	c.Assume("encoding/pem, x/crypto/argon2 and crypto/aes+cipher are the trusted base of the reference decryptor; AEAD unforgeability is assumed beyond the enumerated mutants")
	c.Assume("keys are the documented sizes (64-byte Ed25519, 32-byte P-256); edit distance >= 2 only through the structure-aware rewrites")
}
