//go:build verif

package cert

import (
	"bytes"
	"crypto"
	"crypto/ecdh"
	"crypto/ecdsa"
	"crypto/ed25519"
	"crypto/elliptic"
	"crypto/sha256"
	"encoding/asn1"
	"encoding/hex"
	"encoding/pem"
	"fmt"
	"hash/fnv"
	"math/big"
	"net/netip"
	"runtime"
	"strings"
	"sync"
	"sync/atomic"
	"testing"
	"time"

	"github.com/slackhq/nebula/zzverif/mc"
)

// C02 — tampered certificates are rejected.
//
// Engine E3 (bounded-exhaustive inputs). Seeds: valid leaf certificates v1/v2 x Curve25519/P256 x {standard encoding
// (decoded through UnmarshalCertificateFromPEM), handshake encoding (decoded through Recombine)}. For every seed ALL
// edit-distance-1 mutants of the encoded bytes are generated (every byte substitution — which contains every bit
// flip —, every single-byte insertion, every deletion, every truncation; 1-byte extensions are the insertions at the
// end), all edit-distance-1 mutants of the PEM text (standard encoding), all 1-byte edits of the separately
// transmitted public key / curve / version (handshake encoding), plus structure-aware rewrites produced by small
// independent DER and protobuf walkers (reorder / duplicate / drop / retag fields at every nesting level, non-minimal
// and indefinite lengths, non-minimal varints, packed<->unpacked, explicit default curve, unknown fields, overriding
// duplicate Details, details/key/signature spliced in from a sibling certificate of the same CA, P-256 low/high-S twin).
//
// Oracle (independent of the code under test: plain comparison with the values the harness asked the CA to sign):
//   decode ok && VerifyCertificate(now) == nil  ==>
//     (name, networks, unsafe networks, groups, CA flag, validity, issuer, curve, public key) == the seed's
//     && signature bytes == the seed's or (P-256 only) its low/high-S twin computed with math/big
//     && a pool that blocklists the seed's fingerprint rejects it, and (P-256) so does a pool that blocklists the
//        fingerprint of the twin-signed certificate.

type c02Ident struct {
	Name      string
	Networks  []string
	Unsafe    []string
	Groups    []string
	IsCA      bool
	NotBefore int64
	NotAfter  int64
	Issuer    string
	Curve     int
	PubKey    string
}

func c02IdentOf(c Certificate) c02Ident {
	id := c02Ident{Name: c.Name(), IsCA: c.IsCA(), NotBefore: c.NotBefore().Unix(), NotAfter: c.NotAfter().Unix(),
		Issuer: c.Issuer(), Curve: int(c.Curve()), PubKey: hex.EncodeToString(c.PublicKey())}
	for _, n := range c.Networks() {
		id.Networks = append(id.Networks, n.String())
	}
	for _, n := range c.UnsafeNetworks() {
		id.Unsafe = append(id.Unsafe, n.String())
	}
	id.Groups = append(id.Groups, c.Groups()...)
	return id
}

// c02Diff names the first identity field that differs ("" when equal).
func c02Diff(a, b c02Ident) string {
	eq := func(x, y []string) bool {
		if len(x) != len(y) {
			return false
		}
		for i := range x {
			if x[i] != y[i] {
				return false
			}
		}
		return true
	}
	switch {
	case a.Name != b.Name:
		return "name"
	case !eq(a.Networks, b.Networks):
		return "networks"
	case !eq(a.Unsafe, b.Unsafe):
		return "unsafeNetworks"
	case !eq(a.Groups, b.Groups):
		return "groups"
	case a.IsCA != b.IsCA:
		return "isCA"
	case a.NotBefore != b.NotBefore:
		return "notBefore"
	case a.NotAfter != b.NotAfter:
		return "notAfter"
	case a.Issuer != b.Issuer:
		return "issuer"
	case a.Curve != b.Curve:
		return "curve"
	case a.PubKey != b.PubKey:
		return "publicKey"
	}
	return ""
}

type c02Seed struct {
	idx       int
	label     string
	version   Version
	curve     Curve
	handshake bool
	raw       []byte // Marshal() or MarshalForHandshakes()
	pemText   []byte // standard encoding only
	pub       []byte
	want      c02Ident
	sig       []byte
	twin      []byte // P-256 only: the other-S form, computed independently
	caPEM     string
	pool      *CAPool
	poolBlkFp *CAPool // blocklists the seed's fingerprint
	poolBlkTw *CAPool // blocklists the twin-signed certificate's fingerprint (P-256)
	fp, fpTw  string
	// sibling certificate of the same CA (different identity) for splicing
	sibRaw  []byte
	sibPub  []byte
	sibWant c02Ident
	sibSig  []byte

	evals, decoded, accSame, accTwin, accSibling atomic.Int64
}

var c02Now = time.Unix(2_000_000_000, 0)

func c02Must[T any](v T, err error) T {
	if err != nil {
		panic(fmt.Sprintf("c02 setup: %v", err))
	}
	return v
}

// deterministic key material ------------------------------------------------------------------------------------

func c02EdKey(b byte) (pub, priv []byte) {
	k := ed25519.NewKeyFromSeed(bytes.Repeat([]byte{b}, 32))
	return []byte(k.Public().(ed25519.PublicKey)), []byte(k)
}

func c02P256Key(b byte) (pub, priv []byte) {
	priv = bytes.Repeat([]byte{b}, 32)
	k := c02Must(ecdh.P256().NewPrivateKey(priv))
	return k.PublicKey().Bytes(), priv
}

// c02Sign signs deterministically (Ed25519 is deterministic; ECDSA uses RFC 6979 via a nil random source).
func c02Sign(t *TBSCertificate, signer Certificate, curve Curve, priv []byte) Certificate {
	switch curve {
	case Curve_CURVE25519:
		return c02Must(t.Sign(signer, curve, priv))
	default:
		pk := c02Must(ecdsa.ParseRawPrivateKey(elliptic.P256(), priv))
		return c02Must(t.SignWith(signer, curve, func(b []byte) ([]byte, error) {
			h := sha256.Sum256(b)
			return pk.Sign(nil, h[:], crypto.SHA256)
		}))
	}
}

var c02P256N = elliptic.P256().Params().N

// c02Twin computes the other-S form of a DER ECDSA signature with math/big (independent of cert/p256).
func c02Twin(sig []byte) []byte {
	var rs struct{ R, S *big.Int }
	rest, err := asn1.Unmarshal(sig, &rs)
	if err != nil || len(rest) != 0 {
		panic("c02 twin: bad seed signature")
	}
	rs.S = new(big.Int).Sub(c02P256N, rs.S)
	return c02Must(asn1.Marshal(rs))
}

func c02Prefixes(ss ...string) []netip.Prefix {
	var out []netip.Prefix
	for _, s := range ss {
		out = append(out, netip.MustParsePrefix(s))
	}
	return out
}

type c02Profile struct {
	name             string
	caNets, caUnsafe []string
	caGroups         []string
	leafName         string
	nets4, unsafe4   []string // v1 (IPv4 only)
	nets, unsafe     []string // v2
	groups           []string
}

var c02Profiles = []c02Profile{
	{name: "rich", leafName: "host-a.example", nets4: []string{"10.1.2.3/16", "10.9.9.9/24"}, unsafe4: []string{"172.16.0.0/12", "192.168.0.0/24"},
		nets: []string{"10.1.2.3/16", "fd00::7/64"}, unsafe: []string{"192.168.0.0/24", "fd01::/48"}, groups: []string{"ops", "web"}},
	{name: "minimal", leafName: "m", nets4: []string{"10.1.2.3/32"}, nets: []string{"fd00::7/128"}},
	{name: "constrained-ca", caNets: []string{"10.0.0.0/8", "fd00::/8"}, caUnsafe: []string{"192.168.0.0/16", "fd00::/8"}, caGroups: []string{"ops", "web", "db"},
		leafName: "host-c", nets4: []string{"10.1.2.3/16"}, unsafe4: []string{"192.168.7.0/24"},
		nets: []string{"10.1.2.3/16", "fd00::7/64"}, unsafe: []string{"192.168.7.0/24"}, groups: []string{"web"}},
}

func c02BuildSeeds(profiles []c02Profile) []*c02Seed {
	var seeds []*c02Seed
	for pi, p := range profiles {
		for _, ver := range []Version{Version1, Version2} {
			for _, curve := range []Curve{Curve_CURVE25519, Curve_P256} {
				var caPub, caPriv, leafPub, sibPub []byte
				if curve == Curve_CURVE25519 {
					caPub, caPriv = c02EdKey(byte(0x10 + pi))
					leafPub = bytes.Repeat([]byte{0xa1}, 32)
					sibPub = bytes.Repeat([]byte{0xb2}, 32)
				} else {
					caPub, caPriv = c02P256Key(byte(0x20 + pi))
					leafPub, _ = c02P256Key(0x31)
					sibPub, _ = c02P256Key(0x32)
				}
				caNets, caUnsafe := p.caNets, p.caUnsafe
				if ver == Version1 { // v1 is IPv4 only
					caNets, caUnsafe = c02Only4(caNets), c02Only4(caUnsafe)
				}
				caT := &TBSCertificate{Version: ver, Curve: curve, Name: "c02 ca " + p.name, IsCA: true, PublicKey: caPub,
					Networks: c02Prefixes(caNets...), UnsafeNetworks: c02Prefixes(caUnsafe...), Groups: p.caGroups,
					NotBefore: time.Unix(1_000_000_000, 0), NotAfter: time.Unix(3_000_000_000, 0)}
				ca := c02Sign(caT, nil, curve, caPriv)
				caFp := c02Must(ca.Fingerprint())
				nets, unsafe := p.nets, p.unsafe
				if ver == Version1 {
					nets, unsafe = p.nets4, p.unsafe4
				}
				leafT := &TBSCertificate{Version: ver, Curve: curve, Name: p.leafName, PublicKey: leafPub,
					Networks: c02Prefixes(nets...), UnsafeNetworks: c02Prefixes(unsafe...), Groups: p.groups,
					NotBefore: time.Unix(1_500_000_000, 0), NotAfter: time.Unix(2_500_000_000, 0)}
				want := c02Ident{Name: p.leafName, Networks: append([]string{}, nets...), Unsafe: append([]string{}, unsafe...),
					Groups: append([]string{}, p.groups...), NotBefore: 1_500_000_000, NotAfter: 2_500_000_000, Issuer: caFp,
					Curve: int(curve), PubKey: hex.EncodeToString(leafPub)}
				leaf := c02Sign(leafT, ca, curve, caPriv)
				// sibling: same CA, everything different but still inside the CA's constraints
				sibNets := []string{"10.200.0.1/16"}
				sibT := &TBSCertificate{Version: ver, Curve: curve, Name: "sibling", PublicKey: sibPub,
					Networks: c02Prefixes(sibNets...), Groups: []string{"db"},
					NotBefore: time.Unix(1_400_000_000, 0), NotAfter: time.Unix(2_600_000_000, 0)}
				if len(p.caGroups) == 0 {
					sibT.Groups = []string{"admin"}
				}
				sib := c02Sign(sibT, ca, curve, caPriv)
				sibWant := c02Ident{Name: "sibling", Networks: sibNets, Groups: append([]string{}, sibT.Groups...), NotBefore: 1_400_000_000,
					NotAfter: 2_600_000_000, Issuer: caFp, Curve: int(curve), PubKey: hex.EncodeToString(sibPub)}

				mkPool := func(block ...string) *CAPool {
					pool := NewCAPool()
					if err := pool.AddCA(ca); err != nil && !strings.Contains(err.Error(), ErrExpired.Error()) {
						panic(err) // AddCA looks at the wall clock; an "expired" answer still adds the CA and is irrelevant here
					}
					for _, b := range block {
						pool.BlocklistFingerprint(b)
					}
					return pool
				}
				fp := c02Must(leaf.Fingerprint())
				var twin []byte
				var fpTw string
				if curve == Curve_P256 {
					twin = c02Twin(leaf.Signature())
					tw := leaf.Copy()
					switch v := tw.(type) {
					case *certificateV1:
						v.signature = twin
					case *certificateV2:
						v.signature = twin
					}
					fpTw = c02Must(tw.Fingerprint())
				}
				for _, hs := range []bool{false, true} {
					s := &c02Seed{idx: len(seeds), version: ver, curve: curve, handshake: hs, pub: leafPub, want: want,
						sig: append([]byte{}, leaf.Signature()...), twin: twin, fp: fp, fpTw: fpTw, sibPub: sibPub,
						sibWant: sibWant, sibSig: append([]byte{}, sib.Signature()...),
						caPEM: string(c02Must(ca.MarshalPEM())), pool: mkPool(), poolBlkFp: mkPool(fp)}
					if fpTw != "" {
						s.poolBlkTw = mkPool(fpTw)
					}
					enc := "standard"
					if hs {
						enc = "handshake"
						s.raw = c02Must(leaf.MarshalForHandshakes())
						s.sibRaw = c02Must(sib.MarshalForHandshakes())
					} else {
						s.raw = c02Must(leaf.Marshal())
						s.sibRaw = c02Must(sib.Marshal())
						s.pemText = c02Must(leaf.MarshalPEM())
					}
					s.label = fmt.Sprintf("v%d/%s/%s/%s", ver, curve, enc, p.name)
					seeds = append(seeds, s)
				}
			}
		}
	}
	return seeds
}

func c02Only4(ss []string) []string {
	var out []string
	for _, s := range ss {
		if netip.MustParsePrefix(s).Addr().Is4() {
			out = append(out, s)
		}
	}
	return out
}

// ---------------------------------------------------------------------------------------------------------------
// evaluation of one altered encoding

type c02Run struct {
	c      *mc.Check
	shards [64]struct {
		mu sync.Mutex
		m  map[uint64]struct{}
	}
	evals, decoded, distinctDecoded, verifyRejected, accSame, accTwin, blkChecks atomic.Int64
}

type c02Case struct {
	kind    string
	pos, v  int
	raw     []byte // encoded certificate (nil when pemText is the mutated object)
	pemText []byte
	pub     []byte
	curve   Curve
	version Version
}

func c02Banner(v Version) string {
	if v == Version2 {
		return CertificateV2Banner
	}
	return CertificateBanner
}

func (r *c02Run) isNew(s *c02Seed, k *c02Case) bool {
	h := fnv.New64a()
	h.Write([]byte{byte(s.idx), byte(k.curve), byte(k.version), 0})
	h.Write(k.raw)
	h.Write([]byte{0xff, 0x00, 0xff})
	h.Write(k.pemText)
	h.Write([]byte{0xff, 0x01, 0xff})
	h.Write(k.pub)
	x := h.Sum64()
	sh := &r.shards[x&63]
	sh.mu.Lock()
	defer sh.mu.Unlock()
	if sh.m == nil {
		sh.m = map[uint64]struct{}{}
	}
	if _, ok := sh.m[x]; ok {
		return false
	}
	sh.m[x] = struct{}{}
	return true
}

func c02ErrClass(err error) string {
	s := err.Error()
	var sb strings.Builder
	for _, ch := range s {
		if ch >= '0' && ch <= '9' {
			continue
		}
		sb.WriteRune(ch)
		if sb.Len() >= 60 {
			break
		}
	}
	return sb.String()
}

func (r *c02Run) eval(s *c02Seed, k *c02Case) {
	r.evals.Add(1)
	s.evals.Add(1)
	var d Certificate
	var err error
	switch {
	case k.pemText != nil:
		d, _, err = UnmarshalCertificateFromPEM(k.pemText)
	case s.handshake:
		d, err = Recombine(k.version, k.raw, k.pub, k.curve)
	default:
		d, _, err = UnmarshalCertificateFromPEM(pem.EncodeToMemory(&pem.Block{Type: c02Banner(k.version), Bytes: k.raw}))
	}
	if err != nil {
		r.c.Distinct("outcomes", "decode: "+c02ErrClass(err))
		return
	}
	r.decoded.Add(1)
	s.decoded.Add(1)
	if r.isNew(s, k) {
		r.distinctDecoded.Add(1)
	}
	_, verr := s.pool.VerifyCertificate(c02Now, d)
	if verr != nil {
		r.verifyRejected.Add(1)
		r.c.Distinct("outcomes", "verify: "+c02ErrClass(verr))
		return
	}
	detail := func(extra string) map[string]any {
		m := map[string]any{"seed": s.label, "mutation": fmt.Sprintf("%s pos=%d val=%d", k.kind, k.pos, k.v), "note": extra,
			"ca_pem": s.caPEM, "verify_time_unix": c02Now.Unix(), "expected_identity": s.want, "decoded_identity": c02IdentOf(d),
			"seed_encoding_hex": hex.EncodeToString(s.raw), "public_key_arg_hex": hex.EncodeToString(k.pub),
			"curve_arg": int(k.curve), "version_arg": int(k.version)}
		if k.pemText != nil {
			m["mutant_pem"] = string(k.pemText)
		} else {
			m["mutant_encoding_hex"] = hex.EncodeToString(k.raw)
		}
		return m
	}
	got := c02IdentOf(d)
	if c02Diff(s.sibWant, got) == "" && bytes.Equal(d.Signature(), s.sibSig) {
		// details, key and signature were ALL replaced by the sibling's: this is the sibling certificate itself, another
		// certificate the CA really issued — not a forgery of the seed
		s.accSibling.Add(1)
		r.c.Distinct("outcomes", "accepted: the complete sibling certificate (another trusted certificate)")
		return
	}
	if f := c02Diff(s.want, got); f != "" {
		r.c.Violation(fmt.Sprintf("%s: verification accepts an altered encoding whose decoded %s differs from the signed certificate", c02Class(s), f), detail("identity changed: "+f))
		return
	}
	switch {
	case bytes.Equal(d.Signature(), s.sig):
		r.accSame.Add(1)
		s.accSame.Add(1)
		r.c.Distinct("outcomes", "accepted: unchanged identity, original signature")
	case s.twin != nil && bytes.Equal(d.Signature(), s.twin):
		r.accTwin.Add(1)
		s.accTwin.Add(1)
		r.c.Distinct("outcomes", "accepted: unchanged identity, P-256 twin signature")
	default:
		r.c.Violation(fmt.Sprintf("%s: verification accepts a signature that is neither the original nor its P-256 low/high-S twin", c02Class(s)), detail("signature="+hex.EncodeToString(d.Signature())))
		return
	}
	// blocklisting either twin's fingerprint must reject this (equivalent) certificate
	r.blkChecks.Add(1)
	if _, e := s.poolBlkFp.VerifyCertificate(c02Now, d); e == nil {
		r.c.Violation(fmt.Sprintf("%s: an accepted re-encoding/twin escapes the blocklist entry of the original certificate's fingerprint", c02Class(s)), detail("blocklisted="+s.fp))
	}
	if s.poolBlkTw != nil {
		if _, e := s.poolBlkTw.VerifyCertificate(c02Now, d); e == nil {
			r.c.Violation(fmt.Sprintf("%s: an accepted encoding escapes the blocklist entry of the P-256 twin's fingerprint", c02Class(s)), detail("blocklisted="+s.fpTw))
		}
	}
}

func c02Class(s *c02Seed) string {
	enc := "standard"
	if s.handshake {
		enc = "handshake"
	}
	return fmt.Sprintf("v%d/%s/%s", s.version, s.curve, enc)
}

// ---------------------------------------------------------------------------------------------------------------
// byte-level edit-distance-1 mutants of position pos (pos == len(b) only inserts)

func c02ByteEdits(b []byte, pos int, emit func(kind string, v int, m []byte)) {
	n := len(b)
	buf := make([]byte, 0, n+1)
	if pos < n {
		for v := 0; v < 256; v++ { // substitutions (include all 8 single-bit flips)
			if byte(v) == b[pos] {
				continue
			}
			buf = append(buf[:0], b...)
			buf[pos] = byte(v)
			emit("substitute", v, buf)
		}
		buf = append(buf[:0], b[:pos]...) // deletion
		buf = append(buf, b[pos+1:]...)
		emit("delete", -1, buf)
		emit("truncate", -1, b[:pos]) // truncation to length pos (0..n-1)
	}
	for v := 0; v < 256; v++ { // insertion before pos (pos == n: extension)
		buf = append(buf[:0], b[:pos]...)
		buf = append(buf, byte(v))
		buf = append(buf, b[pos:]...)
		emit("insert", v, buf)
	}
}

// ---------------------------------------------------------------------------------------------------------------
// independent DER walker / builder (single-byte tags, definite lengths: all this harness needs)

type c02TLV struct {
	tag byte
	val []byte
}

func c02DerSplit(b []byte) ([]c02TLV, bool) {
	var out []c02TLV
	for len(b) > 0 {
		if len(b) < 2 {
			return nil, false
		}
		tag, l := b[0], int(b[1])
		h := 2
		if l&0x80 != 0 {
			nb := l & 0x7f
			if nb == 0 || nb > 3 || len(b) < 2+nb {
				return nil, false
			}
			l = 0
			for i := 0; i < nb; i++ {
				l = l<<8 | int(b[2+i])
			}
			h = 2 + nb
		}
		if len(b) < h+l {
			return nil, false
		}
		out = append(out, c02TLV{tag, b[h : h+l]})
		b = b[h+l:]
	}
	return out, true
}

// style 0 = minimal DER length, 1 = one superfluous length octet, 2 = indefinite length with end-of-contents
func c02DerEnc(tag byte, val []byte, style int) []byte {
	l := len(val)
	var lb []byte
	switch {
	case l < 128:
		lb = []byte{byte(l)}
	case l < 256:
		lb = []byte{0x81, byte(l)}
	default:
		lb = []byte{0x82, byte(l >> 8), byte(l)}
	}
	switch style {
	case 1:
		if l < 128 {
			lb = []byte{0x81, byte(l)}
		} else {
			lb = append([]byte{lb[0] + 1, 0}, lb[1:]...)
		}
	case 2:
		out := append([]byte{tag, 0x80}, val...)
		return append(out, 0, 0)
	}
	out := append([]byte{tag}, lb...)
	return append(out, val...)
}

func c02DerJoin(kids []c02TLV) []byte {
	var out []byte
	for _, k := range kids {
		out = append(out, c02DerEnc(k.tag, k.val, 0)...)
	}
	return out
}

// c02ListOps returns structural variants of a field list: drop, duplicate, every pair swapped, every pair with the
// VALUES exchanged (retagging), one field moved to the end/front.
func c02ListOps[T any](kids []T, swapVal func(a, b T) (T, T)) [][]T {
	var out [][]T
	cp := func() []T { return append([]T{}, kids...) }
	for i := range kids {
		d := append(cp()[:i:i], kids[i+1:]...)
		out = append(out, d)
		du := append(cp()[:i+1:i+1], kids[i:]...)
		out = append(out, du)
		end := append(append(cp()[:i:i], kids[i+1:]...), kids[i])
		out = append(out, end)
		front := append(append([]T{kids[i]}, kids[:i]...), kids[i+1:]...)
		out = append(out, front)
		for j := i + 1; j < len(kids); j++ {
			s := cp()
			s[i], s[j] = s[j], s[i]
			out = append(out, s)
			if swapVal != nil {
				v := cp()
				v[i], v[j] = swapVal(kids[i], kids[j])
				out = append(out, v)
			}
		}
	}
	return out
}

// c02DerRewrites returns structure-aware variants of one DER element (recursively for constructed elements).
func c02DerRewrites(tag byte, val []byte, depth int) [][]byte {
	var out [][]byte
	out = append(out, c02DerEnc(tag, val, 1), c02DerEnc(tag, val, 2))
	constructed := tag&0x20 != 0
	if !constructed || depth > 4 {
		return out
	}
	kids, ok := c02DerSplit(val)
	if !ok {
		return out
	}
	for _, v := range c02ListOps(kids, func(a, b c02TLV) (c02TLV, c02TLV) { return c02TLV{a.tag, b.val}, c02TLV{b.tag, a.val} }) {
		out = append(out, c02DerEnc(tag, c02DerJoin(v), 0))
	}
	// an unknown trailing / leading field
	out = append(out, c02DerEnc(tag, append(c02DerJoin(kids), 0x9f, 0x01, 0x01), 0))
	out = append(out, c02DerEnc(tag, append(c02DerJoin(kids), 0x04, 0x00), 0))
	out = append(out, c02DerEnc(tag, append([]byte{0x04, 0x01, 0x00}, c02DerJoin(kids)...), 0))
	for i, k := range kids {
		pre, post := c02DerJoin(kids[:i]), c02DerJoin(kids[i+1:])
		for _, kv := range c02DerRewrites(k.tag, k.val, depth+1) {
			body := append(append(append([]byte{}, pre...), kv...), post...)
			out = append(out, c02DerEnc(tag, body, 0))
		}
	}
	return out
}

func c02V2Semantic(s *c02Seed) [][]byte {
	var out [][]byte
	top, ok := c02DerSplit(s.raw)
	if !ok || len(top) != 1 {
		panic("c02: seed is not one DER element")
	}
	kids, _ := c02DerSplit(top[0].val)
	sibTop, _ := c02DerSplit(s.sibRaw)
	sibKids, _ := c02DerSplit(sibTop[0].val)
	find := func(ks []c02TLV, tag byte) int {
		for i, k := range ks {
			if k.tag == tag {
				return i
			}
		}
		return -1
	}
	enc := func(ks []c02TLV) []byte { return c02DerEnc(0x30, c02DerJoin(ks), 0) }
	with := func(ks []c02TLV, at int, add ...c02TLV) []c02TLV {
		n := append([]c02TLV{}, ks[:at]...)
		n = append(n, add...)
		return append(n, ks[at:]...)
	}
	// explicit curve element with every value, at the canonical position and elsewhere; existing one rewritten
	ci := find(kids, TagCertCurve)
	for v := 0; v < 256; v++ {
		cv := c02TLV{TagCertCurve, []byte{byte(v)}}
		if ci >= 0 {
			n := append([]c02TLV{}, kids...)
			n[ci] = cv
			out = append(out, enc(n))
		} else {
			out = append(out, enc(with(kids, 1, cv)))
			if v < 3 {
				out = append(out, enc(with(kids, 0, cv)), enc(with(kids, len(kids), cv)), enc(with(kids, len(kids)-1, cv)))
			}
		}
	}
	out = append(out, enc(with(kids, 1, c02TLV{TagCertCurve, nil})), enc(with(kids, 1, c02TLV{TagCertCurve, []byte{0, 0}})))
	// public key element: added (handshake encoding must not carry one), replaced by the sibling's, emptied
	pi := find(kids, TagCertPublicKey)
	if pi < 0 {
		at := len(kids) - 1
		out = append(out, enc(with(kids, at, c02TLV{TagCertPublicKey, s.pub})), enc(with(kids, at, c02TLV{TagCertPublicKey, s.sibPub})),
			enc(with(kids, at, c02TLV{TagCertPublicKey, nil})))
	} else {
		for _, pk := range [][]byte{s.sibPub, nil, s.pub[:len(s.pub)-1], append(append([]byte{}, s.pub...), 0)} {
			n := append([]c02TLV{}, kids...)
			n[pi] = c02TLV{TagCertPublicKey, pk}
			out = append(out, enc(n))
		}
	}
	// every non-empty subset of {details, key, signature} taken from the sibling certificate
	for mask := 1; mask < 8; mask++ {
		n := append([]c02TLV{}, kids...)
		for bit, tag := range []byte{TagCertDetails, TagCertPublicKey, TagCertSignature} {
			if mask&(1<<bit) == 0 {
				continue
			}
			i, j := find(n, tag), find(sibKids, tag)
			if i >= 0 && j >= 0 {
				n[i] = sibKids[j]
			}
		}
		out = append(out, enc(n))
	}
	// signature variants: P-256 twin (alone and combined with trailing garbage / explicit curve), emptied, doubled
	si := find(kids, TagCertSignature)
	sigVariants := [][]byte{nil, append(append([]byte{}, s.sig...), s.sig...), append(append([]byte{}, s.sig...), 0), s.sig[:len(s.sig)-1]}
	if s.twin != nil {
		sigVariants = append(sigVariants, s.twin)
	}
	for _, sv := range sigVariants {
		n := append([]c02TLV{}, kids...)
		n[si] = c02TLV{TagCertSignature, sv}
		out = append(out, enc(n))
		out = append(out, append(enc(n), 0x00), enc(append(n, c02TLV{0x04, []byte{1}})))
	}
	// details rewritten field by field: IsCA toggled, name/groups/issuer/validity replaced by the sibling's values
	di := find(kids, TagCertDetails)
	dk, _ := c02DerSplit(kids[di].val)
	sdk, _ := c02DerSplit(sibKids[find(sibKids, TagCertDetails)].val)
	reDetails := func(nd []c02TLV) {
		n := append([]c02TLV{}, kids...)
		n[di] = c02TLV{TagCertDetails, c02DerJoin(nd)}
		out = append(out, enc(n))
	}
	for _, sk := range sdk {
		if i := find(dk, sk.tag); i >= 0 {
			nd := append([]c02TLV{}, dk...)
			nd[i] = sk
			reDetails(nd)
		}
	}
	for _, b := range [][]byte{{0xff}, {0x01}, {0x00}, {}} {
		ca := c02TLV{TagDetailsIsCA, b}
		at := find(dk, TagDetailsNotBefore)
		reDetails(with(dk, at, ca))
		reDetails(with(dk, len(dk), ca))
	}
	if i := find(dk, TagDetailsIssuer); i >= 0 { // self-signed look-alike: issuer removed
		reDetails(append(append([]c02TLV{}, dk[:i]...), dk[i+1:]...))
	}
	return out
}

// ---------------------------------------------------------------------------------------------------------------
// independent protobuf walker / builder

type c02PB struct {
	num uint64
	wt  int
	val []byte // varint: the varint bytes; len-delimited: the payload; fixed: raw bytes
}

func c02Uvarint(b []byte) (uint64, int) {
	var x uint64
	for i := 0; i < len(b) && i < 10; i++ {
		x |= uint64(b[i]&0x7f) << (7 * uint(i))
		if b[i]&0x80 == 0 {
			return x, i + 1
		}
	}
	return 0, 0
}

func c02PutUvarint(x uint64, pad int) []byte {
	var out []byte
	for x >= 0x80 {
		out = append(out, byte(x)|0x80)
		x >>= 7
	}
	out = append(out, byte(x))
	for i := 0; i < pad; i++ { // non-minimal: continuation bit + zero groups
		out[len(out)-1] |= 0x80
		out = append(out, 0)
	}
	return out
}

func c02PbSplit(b []byte) ([]c02PB, bool) {
	var out []c02PB
	for len(b) > 0 {
		key, n := c02Uvarint(b)
		if n == 0 {
			return nil, false
		}
		b = b[n:]
		f := c02PB{num: key >> 3, wt: int(key & 7)}
		switch f.wt {
		case 0:
			_, m := c02Uvarint(b)
			if m == 0 {
				return nil, false
			}
			f.val, b = b[:m], b[m:]
		case 2:
			l, m := c02Uvarint(b)
			if m == 0 || uint64(len(b)-m) < l {
				return nil, false
			}
			f.val, b = b[m:m+int(l)], b[m+int(l):]
		case 1:
			if len(b) < 8 {
				return nil, false
			}
			f.val, b = b[:8], b[8:]
		case 5:
			if len(b) < 4 {
				return nil, false
			}
			f.val, b = b[:4], b[4:]
		default:
			return nil, false
		}
		out = append(out, f)
	}
	return out, true
}

func c02PbEnc(f c02PB, padTag, padLen int) []byte {
	out := c02PutUvarint(f.num<<3|uint64(f.wt), padTag)
	if f.wt == 2 {
		out = append(out, c02PutUvarint(uint64(len(f.val)), padLen)...)
	}
	return append(out, f.val...)
}

func c02PbJoin(fs []c02PB) []byte {
	var out []byte
	for _, f := range fs {
		out = append(out, c02PbEnc(f, 0, 0)...)
	}
	return out
}

func c02PbVar(num uint64, v uint64) c02PB   { return c02PB{num, 0, c02PutUvarint(v, 0)} }
func c02PbBytes(num uint64, v []byte) c02PB { return c02PB{num, 2, v} }

func c02V1Rewrites(s *c02Seed) [][]byte {
	var out [][]byte
	top, ok := c02PbSplit(s.raw)
	if !ok {
		panic("c02: v1 seed does not parse")
	}
	sibTop, _ := c02PbSplit(s.sibRaw)
	find := func(fs []c02PB, num uint64) int {
		for i, f := range fs {
			if f.num == num {
				return i
			}
		}
		return -1
	}
	di := find(top, 1)
	det, ok := c02PbSplit(top[di].val)
	if !ok {
		panic("c02: v1 details do not parse")
	}
	sibDet, _ := c02PbSplit(sibTop[find(sibTop, 1)].val)
	reTop := func(d []c02PB) []byte {
		n := append([]c02PB{}, top...)
		n[di] = c02PbBytes(1, c02PbJoin(d))
		return c02PbJoin(n)
	}
	swapVal := func(a, b c02PB) (c02PB, c02PB) {
		return c02PB{a.num, b.wt, b.val}, c02PB{b.num, a.wt, a.val}
	}
	// list operations on the outer message and on Details
	for _, v := range c02ListOps(top, swapVal) {
		out = append(out, c02PbJoin(v))
	}
	for _, v := range c02ListOps(det, swapVal) {
		out = append(out, reTop(v))
	}
	// non-minimal varints for every tag, every length and every varint value (outer and Details)
	for i := range top {
		for _, pads := range [][2]int{{1, 0}, {0, 1}, {2, 2}} {
			b := append(c02PbJoin(top[:i]), c02PbEnc(top[i], pads[0], pads[1])...)
			out = append(out, append(b, c02PbJoin(top[i+1:])...))
		}
	}
	for i, f := range det {
		for _, pads := range [][2]int{{1, 0}, {0, 1}, {2, 2}} {
			if f.wt != 2 && pads[0] == 0 {
				g := f
				x, _ := c02Uvarint(f.val)
				g.val = c02PutUvarint(x, pads[1])
				n := append([]c02PB{}, det...)
				n[i] = g
				out = append(out, reTop(n))
				continue
			}
			b := append(c02PbJoin(det[:i]), c02PbEnc(f, pads[0], pads[1])...)
			b = append(b, c02PbJoin(det[i+1:])...)
			n := append([]c02PB{}, top...)
			n[di] = c02PbBytes(1, b)
			out = append(out, c02PbJoin(n))
		}
		// packed repeated uint32 (Ips=2, Subnets=3) -> unpacked, one element dropped, one element appended
		if f.wt == 2 && (f.num == 2 || f.num == 3) {
			var elems []c02PB
			rest := f.val
			for len(rest) > 0 {
				_, m := c02Uvarint(rest)
				elems = append(elems, c02PB{f.num, 0, rest[:m]})
				rest = rest[m:]
			}
			n := append(append(append([]c02PB{}, det[:i]...), elems...), det[i+1:]...)
			out = append(out, reTop(n))
			n2 := append([]c02PB{}, det...)
			n2 = append(n2, c02PbVar(f.num, 0x0a000000), c02PbVar(f.num, 0xff000000))
			out = append(out, reTop(n2))
			n3 := append([]c02PB{}, det...)
			n3 = append(n3, c02PbBytes(f.num, append(c02PutUvarint(0x0a000000, 0), c02PutUvarint(0xff000000, 0)...)))
			out = append(out, reTop(n3))
		}
	}
	// added fields: unknown ones, explicit curve values, IsCA, public key, a second name / group / issuer / validity
	extra := []c02PB{c02PbVar(15, 1), c02PbBytes(99, []byte("x")), {num: 14, wt: 5, val: []byte{1, 2, 3, 4}}, {num: 13, wt: 1, val: []byte{1, 2, 3, 4, 5, 6, 7, 8}},
		c02PbVar(100, 0), c02PbVar(100, 1), c02PbVar(100, 2), c02PbVar(8, 1), c02PbVar(8, 0), c02PbVar(8, 2),
		c02PbBytes(7, s.pub), c02PbBytes(7, s.sibPub), c02PbBytes(7, nil), c02PbBytes(1, []byte("evil")), c02PbBytes(4, []byte("admin")),
		c02PbBytes(9, bytes.Repeat([]byte{9}, 32)), c02PbBytes(9, nil), c02PbVar(5, 1), c02PbVar(6, 4_000_000_000),
		c02PbVar(2, 0x0a000001), c02PbVar(3, 0x0a000001)}
	for _, e := range extra {
		out = append(out, reTop(append(append([]c02PB{}, det...), e)))
		out = append(out, reTop(append([]c02PB{e}, det...)))
		// as a second, overriding Details element (protobuf merges repeated embedded messages)
		out = append(out, append(append([]byte{}, s.raw...), c02PbEnc(c02PbBytes(1, c02PbJoin([]c02PB{e})), 0, 0)...))
		// unknown field on the outer message
		out = append(out, append(append([]byte{}, s.raw...), c02PbEnc(e, 0, 0)...))
	}
	// fields replaced by the sibling's; every non-empty subset of {details, key, signature} from the sibling
	for _, sf := range sibDet {
		if i := find(det, sf.num); i >= 0 {
			n := append([]c02PB{}, det...)
			n[i] = sf
			out = append(out, reTop(n))
		}
	}
	si := find(top, 2)
	for mask := 1; mask < 8; mask++ {
		d := append([]c02PB{}, det...)
		n := append([]c02PB{}, top...)
		if mask&1 != 0 {
			d = append([]c02PB{}, sibDet...)
			if i, j := find(d, 7), find(det, 7); mask&2 == 0 && i >= 0 && j >= 0 {
				d[i] = det[j] // sibling details, original key
			}
		} else if mask&2 != 0 {
			if i, j := find(d, 7), find(sibDet, 7); i >= 0 && j >= 0 {
				d[i] = sibDet[j]
			}
		}
		n[di] = c02PbBytes(1, c02PbJoin(d))
		if mask&4 != 0 {
			n[si] = sibTop[find(sibTop, 2)]
		}
		out = append(out, c02PbJoin(n))
	}
	// signature variants
	sigVariants := [][]byte{nil, append(append([]byte{}, s.sig...), s.sig...), append(append([]byte{}, s.sig...), 0), s.sig[:len(s.sig)-1]}
	if s.twin != nil {
		sigVariants = append(sigVariants, s.twin)
	}
	for _, sv := range sigVariants {
		n := append([]c02PB{}, top...)
		n[si] = c02PbBytes(2, sv)
		out = append(out, c02PbJoin(n), c02PbJoin(append(n, c02PbVar(15, 1))), c02PbJoin(append(n, c02PbBytes(2, sv))))
	}
	return out
}

// ---------------------------------------------------------------------------------------------------------------

func TestVerifC02(t *testing.T) {
	c := mc.Begin(t, "C02", "exploration")
	defer c.End()
	r := &c02Run{c: c}

	profiles := c02Profiles[:1]
	if c.Thorough() {
		profiles = c02Profiles
	}
	seeds := c02BuildSeeds(profiles)
	c.Set("seeds", len(seeds))
	c.Set("profiles", len(profiles))

	// the unaltered encodings go through the same oracle first (a signer/encoder that loses a field is caught here)
	for _, s := range seeds {
		before := s.accSame.Load()
		r.eval(s, &c02Case{kind: "unaltered", raw: s.raw, pub: s.pub, curve: s.curve, version: s.version})
		if !s.handshake {
			r.eval(s, &c02Case{kind: "unaltered-pem", pemText: s.pemText, pub: s.pub, curve: s.curve, version: s.version})
		}
		if c.Violations() == 0 {
			c.Require(s.accSame.Load() > before, "seed %s is not accepted by its own CA pool", s.label)
		}
	}

	type task func()
	var tasks []task
	var capped atomic.Bool
	add := func(f task) { tasks = append(tasks, f) }
	semantic := map[int]int{}
	for _, s := range seeds {
		s := s
		// (1) every edit-distance-1 mutant of the encoded bytes
		for pos := 0; pos <= len(s.raw); pos++ {
			pos := pos
			add(func() {
				c02ByteEdits(s.raw, pos, func(kind string, v int, m []byte) {
					r.eval(s, &c02Case{kind: kind, pos: pos, v: v, raw: m, pub: s.pub, curve: s.curve, version: s.version})
				})
			})
		}
		// (2) every edit-distance-1 mutant of the PEM text (standard encoding)
		if !s.handshake {
			for pos := 0; pos <= len(s.pemText); pos++ {
				pos := pos
				add(func() {
					c02ByteEdits(s.pemText, pos, func(kind string, v int, m []byte) {
						r.eval(s, &c02Case{kind: "pem-" + kind, pos: pos, v: v, pemText: append([]byte{}, m...), pub: s.pub, curve: s.curve, version: s.version})
					})
				})
			}
			// the other certificate banner around the unchanged bytes
			add(func() {
				other := Version1
				if s.version == Version1 {
					other = Version2
				}
				r.eval(s, &c02Case{kind: "banner-swap", raw: s.raw, pub: s.pub, curve: s.curve, version: other})
			})
		} else {
			// (3) handshake encoding: the separately transmitted key / curve / version altered
			for pos := 0; pos <= len(s.pub); pos++ {
				pos := pos
				add(func() {
					c02ByteEdits(s.pub, pos, func(kind string, v int, m []byte) {
						if len(m) == 0 {
							return // Recombine treats a missing key as "no key": not an alteration of this certificate
						}
						r.eval(s, &c02Case{kind: "key-" + kind, pos: pos, v: v, raw: s.raw, pub: append([]byte{}, m...), curve: s.curve, version: s.version})
					})
				})
			}
			add(func() {
				for cv := 0; cv < 256; cv++ {
					for ver := 0; ver < 4; ver++ {
						if Curve(cv) == s.curve && Version(ver) == s.version {
							continue
						}
						for _, pk := range [][]byte{s.pub, s.sibPub} {
							r.eval(s, &c02Case{kind: "recombine-args", pos: ver, v: cv, raw: s.raw, pub: pk, curve: Curve(cv), version: Version(ver)})
						}
					}
				}
			})
		}
		// (4) structure-aware rewrites
		var rw [][]byte
		if s.version == Version2 {
			top, _ := c02DerSplit(s.raw)
			rw = append(c02DerRewrites(top[0].tag, top[0].val, 0), c02V2Semantic(s)...)
		} else {
			rw = c02V1Rewrites(s)
		}
		semantic[s.idx] = len(rw)
		for i, m := range rw {
			i, m := i, m
			add(func() {
				r.eval(s, &c02Case{kind: "structural-rewrite", pos: i, raw: m, pub: s.pub, curve: s.curve, version: s.version})
				if s.handshake { // also with the sibling's key supplied by the handshake
					r.eval(s, &c02Case{kind: "structural-rewrite+sibling-key", pos: i, raw: m, pub: s.sibPub, curve: s.curve, version: s.version})
				}
			})
		}
	}

	var next atomic.Int64
	var wg sync.WaitGroup
	for w := 0; w < runtime.GOMAXPROCS(0); w++ {
		wg.Add(1)
		go func() {
			defer wg.Done()
			for {
				i := int(next.Add(1) - 1)
				if i >= len(tasks) {
					return
				}
				if c.OutOfTime() {
					capped.Store(true)
					return
				}
				tasks[i]()
			}
		}()
	}
	wg.Wait()
	if capped.Load() {
		c.Capped("soft time budget")
	}

	// vacuity guards + evidence
	perSeed := map[string]any{}
	var rewrites int
	for _, s := range seeds {
		perSeed[s.label] = map[string]any{"encoded_len": len(s.raw), "pem_len": len(s.pemText), "mutants": s.evals.Load(), "decoded": s.decoded.Load(),
			"accepted_original_sig": s.accSame.Load(), "accepted_twin_sig": s.accTwin.Load(), "accepted_whole_sibling_cert": s.accSibling.Load(), "structural_rewrites": semantic[s.idx]}
		rewrites += semantic[s.idx]
		if c.Violations() == 0 && !capped.Load() {
			c.Require(s.decoded.Load() > s.accSame.Load()+s.accTwin.Load()+s.accSibling.Load(), "seed %s: no decodable mutant was rejected by verification", s.label)
			c.Require(s.evals.Load() > s.decoded.Load(), "seed %s: no mutant failed to decode", s.label)
			c.Require(s.accSame.Load() >= 2, "seed %s: no altered encoding of the unchanged certificate was accepted (blocklist half never exercised)", s.label)
			if s.curve == Curve_P256 {
				c.Require(s.accTwin.Load() >= 1, "seed %s: the P-256 twin signature was never accepted (twin half never exercised)", s.label)
			}
		}
	}
	c.Set("per_seed", perSeed)
	c.Set("structural_rewrites", rewrites)
	c.Set("evaluations", r.evals.Load())
	c.Set("decoded", r.decoded.Load())
	c.Set("distinct_nontrivial", r.distinctDecoded.Load())
	c.Set("rule", "enumeration: per seed every 1-byte substitution/insertion/deletion/truncation of the encoded certificate, of its PEM text (standard) or of the handshake key/curve/version (handshake), plus structure-aware rewrites; a case is non-trivial when the altered input DECODES (so verification is what has to reject it); distinct = deduplicated by a 64-bit hash of (seed, altered bytes, key, curve, version)")
	c.Set("rejected_by_verification", r.verifyRejected.Load())
	c.Set("accepted_unchanged_identity_original_signature", r.accSame.Load())
	// ---- P-256 signature value classes: short S / short R ---------------------------------------------------------------
	// The seeds above carry whatever (r, s) the signer drew. The twin relation is arithmetic on s (n - s) followed by a DER
	// re-encoding, and DER integers are minimal: an s (or n-s, or r) with leading zero bytes is encoded shorter. About one
	// signature in 256 has such a value, so the seeds practically never do. Here certificates are re-issued until the
	// low-S form has (a) an S of at most 31 bytes, (b) an S of at most 31 bytes whose top bit is set (needs the 0x00 pad),
	// (c) an R of at most 31 bytes; for each, the genuine certificate and its independently computed twin must both
	// verify, and blocklisting EITHER fingerprint must reject BOTH.
	shortClasses := 0
	for _, ver := range []Version{Version1, Version2} {
		caPub, caPriv := c02P256Key(0x41)
		leafPub, _ := c02P256Key(0x42)
		caT := &TBSCertificate{Version: ver, Curve: Curve_P256, Name: "ca-short-s", PublicKey: caPub, IsCA: true,
			NotBefore: time.Unix(1_000_000_000, 0), NotAfter: time.Unix(3_000_000_000, 0)}
		ca := c02Sign(caT, nil, Curve_P256, caPriv)
		found := map[string]bool{}
		for try := 0; try < 200000 && len(found) < 3; try++ {
			leafT := &TBSCertificate{Version: ver, Curve: Curve_P256, Name: fmt.Sprintf("short-%d", try), PublicKey: leafPub,
				Networks: c02Prefixes("10.1.2.3/24"), NotBefore: time.Unix(1_500_000_000, 0), NotAfter: time.Unix(2_500_000_000, 0)}
			leaf := c02Sign(leafT, ca, Curve_P256, caPriv)
			var rs struct{ R, S *big.Int }
			if _, err := asn1.Unmarshal(leaf.Signature(), &rs); err != nil {
				c.Broken("short-S phase: issued signature does not parse: %v", err)
			}
			class := ""
			switch {
			case rs.S.BitLen() <= 248 && rs.S.BitLen()%8 == 0 && !found["short S with the top bit set (0x00 pad)"]:
				class = "short S with the top bit set (0x00 pad)"
			case rs.S.BitLen() <= 247 && !found["short S"]:
				class = "short S"
			case rs.R.BitLen() <= 247 && !found["short R"]:
				class = "short R"
			}
			if class == "" {
				continue
			}
			found[class] = true
			shortClasses++
			twinSig := c02Twin(leaf.Signature())
			tw := leaf.Copy()
			switch v := tw.(type) {
			case *certificateV1:
				v.signature = twinSig
			case *certificateV2:
				v.signature = twinSig
			}
			// both forms go through their wire encoding, as a peer would present them
			forms := map[string]Certificate{}
			for name, cc := range map[string]Certificate{"genuine (low-S)": leaf, "twin (high-S)": tw} {
				d, _, err := UnmarshalCertificateFromPEM(c02Must(cc.MarshalPEM()))
				if err != nil {
					c.Broken("short-S phase: %s does not decode: %v", name, err)
				}
				forms[name] = d
			}
			fps := map[string]string{"genuine (low-S)": c02Must(forms["genuine (low-S)"].Fingerprint()), "twin (high-S)": c02Must(forms["twin (high-S)"].Fingerprint())}
			mk := func(block ...string) *CAPool {
				pool := NewCAPool()
				if err := pool.AddCA(ca); err != nil && !strings.Contains(err.Error(), ErrExpired.Error()) {
					panic(err)
				}
				for _, b := range block {
					pool.BlocklistFingerprint(b)
				}
				return pool
			}
			at := c02Now
			for name, d := range forms {
				if _, err := mk().VerifyCertificate(at, d); err != nil {
					continue // a form that is not accepted at all cannot escape a blocklist
				}
				for blocked, fp := range fps {
						r.blkChecks.Add(1)
					if _, err := mk(fp).VerifyCertificate(at, d); err == nil {
						c.Violation(fmt.Sprintf("v%d/P256/%s: the accepted %s form escapes the blocklist entry of the %s form's fingerprint", ver, class, name, blocked),
							map[string]any{"signature": hex.EncodeToString(d.Signature()), "blocklisted": fp, "verify_error": fmt.Sprint(err)})
					}
				}
			}
		}
		c.Require(len(found) == 3, "short-S phase (v%d): not every signature value class was drawn: %v", ver, found)
	}
	c.Set("p256_short_value_classes_checked", shortClasses)
	c.Set("accepted_unchanged_identity_twin_signature", r.accTwin.Load())
	c.Set("blocklist_checks", r.blkChecks.Load())
	c.Sample(map[string]any{"seed": seeds[0].label, "encoding_hex": hex.EncodeToString(seeds[0].raw), "identity": seeds[0].want})
	c.Sample(map[string]any{"seed": seeds[len(seeds)-1].label, "encoding_hex": hex.EncodeToString(seeds[len(seeds)-1].raw), "pubkey_arg_hex": hex.EncodeToString(seeds[len(seeds)-1].pub)})
	c.Sample(map[string]any{"mutation": "substitute pos=5 val=0x00 of " + seeds[0].label, "kind": "byte edit"})
	c.Assume("edit distance >= 2 is not enumerated exhaustively (about 10^10 per seed); only the structure-aware rewrites go beyond distance 1")
	c.Assume("signature/AEAD unforgeability is assumed: 'forged' means the enumerated mutants")
	c.Assume("'blocklisting either twin's fingerprint rejects both' is checked for every accepted encoding (re-encodings with unchanged identity included), as in DESIGN.md C02")
	c.Assume("an empty public-key argument to Recombine is 'no key supplied', not an alteration, and is not generated")
}
