//go:build verif

package cert

import (
	"bytes"
	"crypto/ecdh"
	"crypto/ed25519"
	"encoding/hex"
	"fmt"
	"hash/fnv"
	"net/netip"
	"runtime"
	"strings"
	"sync"
	"sync/atomic"
	"testing"
	"time"

	"github.com/slackhq/nebula/zzverif/mc"
)

// C03 — every issued certificate decodes back to itself; decoders never panic.
//
// Engine E3. Three boxes over the real code, oracles differential (signer vs decoder) plus a boring transcription of
// the structural rules for the "accepted => obeys the rules" half:
//
//  A  signer -> decoder. The cartesian product of small adversarial alphabets for every TBS field (name, groups,
//     networks, unsafe networks, CA flag, validity, key length) x version x curve is handed to the real Sign. Every
//     TBS that Sign ACCEPTS is marshalled with Marshal, MarshalPEM and MarshalForHandshakes and decoded again with the
//     decoder that belongs to the encoding (unmarshalCertificateV1/V2 as the PEM path calls them,
//     UnmarshalCertificateFromPEM, Recombine with the certificate's own key): every decode must succeed and yield
//     identical fields and fingerprint (issued vs decoded; issued vs the TBS that was asked for).
//  C  decoder -> signer. The same TBS alphabet is ALSO encoded directly (certificate structs filled in by hand,
//     bypassing Sign's validation) and fed to the decoders. Whatever a decoder accepts must (1) satisfy the structural
//     rules transcribed in c03StructuralRule and (2) be accepted by the signing API (SignWith with a dummy signer
//     lambda) when its decoded fields are presented as a TBS — so signer and decoder enforce the same rules.
//  B  robustness. All byte strings of length <= 3 and every edit-distance-1 mutant of 16 seed encodings (CA and
//     leaf, v1/v2, both curves, standard and handshake) go through every decoder entry point under recover():
//     a panic is a violation; every accepted decode is checked like in C.

// ---------------------------------------------------------------------------------------------------------------
// alphabets

type c03Named[T any] struct {
	name string
	v    T
}

func c03P(ss ...string) []netip.Prefix {
	var out []netip.Prefix
	for _, s := range ss {
		out = append(out, netip.MustParsePrefix(s))
	}
	return out
}

func c03Many(n int, f func(i int) string) []netip.Prefix {
	var out []netip.Prefix
	for i := 0; i < n; i++ {
		out = append(out, netip.MustParsePrefix(f(i)))
	}
	return out
}

func c03Names() []c03Named[string] {
	return []c03Named[string]{
		{"a", "a"}, {"empty", ""}, {"253xa", strings.Repeat("a", 253)}, {"254xa", strings.Repeat("a", 254)},
		{"300xa", strings.Repeat("a", 300)}, {"non-utf8", "\xff\xfe\x80"}, {"with-NUL", "a\x00b"},
		// multi-byte names around the limit: byte length and rune count differ (a limit counted in the wrong unit on one
		// side of the sign/decode pair shows up here)
		{"126x2byte+a=253B", strings.Repeat("\u00e9", 126) + "a"}, {"127x2byte=254B/127runes", strings.Repeat("\u00e9", 127)},
		{"84x3byte+a=253B", strings.Repeat("\u65e5", 84) + "a"}, {"85x3byte=255B/85runes", strings.Repeat("\u65e5", 85)},
		{"253x2byte=506B/253runes", strings.Repeat("\u00e9", 253)},
	}
}

func c03Groups() []c03Named[[]string] {
	many := make([]string, 40)
	for i := range many {
		many[i] = fmt.Sprintf("group-%02d", i)
	}
	return []c03Named[[]string]{
		{"nil", nil}, {"empty-list", []string{}}, {"[a]", []string{"a"}}, {"[\"\"]", []string{""}}, {"[a,\"\"]", []string{"a", ""}}, {"40-groups", many},
		{"[b,a,b]", []string{"b", "a", "b"}},
	}
}

func c03Networks(thorough bool) []c03Named[[]netip.Prefix] {
	zoned := netip.PrefixFrom(netip.MustParseAddr("fe80::1%eth0"), 64) // netip strips the zone: a plain v6 prefix
	out := []c03Named[[]netip.Prefix]{
		{"none", nil}, {"one-v4", c03P("10.0.0.1/24")}, {"two-sorted", c03P("10.0.0.1/24", "10.0.1.1/24")},
		{"two-unsorted", c03P("10.0.1.1/24", "10.0.0.1/24")}, {"duplicate", c03P("10.0.0.1/24", "10.0.0.1/24")},
		{"v4+v6", c03P("10.0.0.1/24", "fd00::1/64")}, {"v6-before-v4", c03P("fd00::1/64", "10.0.0.1/24")},
		{"4in6", c03P("::ffff:10.0.0.1/120")}, {"zoned", []netip.Prefix{zoned}},
		{"unspecified-v4", c03P("0.0.0.0/0")}, {"invalid-prefix", []netip.Prefix{{}}},
		{"40-nets", c03Many(40, func(i int) string { return fmt.Sprintf("10.1.%d.1/24", 39-i) })},
		{"same-addr-two-lengths", c03P("10.0.0.1/24", "10.0.0.1/16")},
	}
	if thorough {
		out = append(out, []c03Named[[]netip.Prefix]{
			{"v6-only", c03P("fd00::1/64")}, {"slash0-nonzero", c03P("10.0.0.1/0")}, {"slash32", c03P("10.0.0.1/32")},
			{"unspecified-v6", c03P("::/0")}, {"valid-then-invalid", []netip.Prefix{netip.MustParsePrefix("10.0.0.1/24"), {}}},
			{"duplicate-v6", c03P("fd00::1/64", "fd00::1/64")}, {"broadcast", c03P("255.255.255.255/32")},
		}...)
	}
	return out
}

func c03Unsafe(thorough bool) []c03Named[[]netip.Prefix] {
	out := []c03Named[[]netip.Prefix]{
		{"none", nil}, {"one-v4", c03P("192.168.0.0/24")}, {"two-unsorted", c03P("192.168.1.0/24", "192.168.0.0/24")},
		{"duplicate", c03P("192.168.0.0/24", "192.168.0.0/24")}, {"v4+v6", c03P("192.168.0.0/24", "fd01::/48")},
		{"invalid-prefix", []netip.Prefix{{}}},
	}
	if thorough {
		out = append(out, []c03Named[[]netip.Prefix]{
			{"two-sorted", c03P("192.168.0.0/24", "192.168.1.0/24")}, {"4in6", c03P("::ffff:192.168.0.0/120")},
			{"unspecified-v4", c03P("0.0.0.0/0")}, {"v6-only", c03P("fd01::/48")},
			{"40-nets", c03Many(40, func(i int) string { return fmt.Sprintf("172.16.%d.0/24", 39-i) })},
			{"host-bits-set", c03P("192.168.0.77/24")},
		}...)
	}
	return out
}

type c03Validity struct{ nb, na time.Time }

func c03Validities(thorough bool) []c03Named[c03Validity] {
	u := func(s int64) time.Time { return time.Unix(s, 0) }
	out := []c03Named[c03Validity]{
		{"0..2^40", c03Validity{u(0), u(1 << 40)}}, {"negative..0", c03Validity{u(-5), u(0)}},
		{"inverted+subsecond", c03Validity{time.Unix(1<<40, 999_999_999), time.Unix(-5, 1)}},
	}
	if thorough {
		out = append(out, []c03Named[c03Validity]{
			{"0..0", c03Validity{u(0), u(0)}}, {"negative..negative", c03Validity{u(-1 << 40), u(-5)}}, {"2^40..2^40", c03Validity{u(1 << 40), u(1 << 40)}},
			{"utc-location", c03Validity{time.Unix(100, 0).UTC(), time.Unix(200, 0).UTC()}}, {"int32-edge", c03Validity{u(1<<31 - 1), u(1 << 31)}},
			{"255..256", c03Validity{u(255), u(256)}},
		}...)
	}
	return out
}

// key lengths: -1 = the curve's natural public key size (32 / 65), -2 = the OTHER curve's size (65 / 32)
func c03KeyLens(thorough bool) []int {
	if thorough {
		return []int{-1, 0, 31, 33, -2, 1, 200}
	}
	return []int{-1, 0, 33, -2}
}

func c03Key(n int) []byte {
	if n == 0 {
		return nil
	}
	b := make([]byte, n)
	for i := range b {
		b[i] = byte(0x40 + i)
	}
	if n == 65 {
		b[0] = 4
	}
	return b
}

// ---------------------------------------------------------------------------------------------------------------
// the structural rules signing enforces, transcribed (documented in cert_v1.go / cert_v2.go validate())

func c03StructuralRule(c Certificate) string {
	v2 := c.Version() == Version2
	if len(c.PublicKey()) == 0 {
		return "empty public key"
	}
	if !c.IsCA() && len(c.Networks()) == 0 {
		return "host certificate without a network"
	}
	has4, has6 := false, false
	for i, n := range c.Networks() {
		a := n.Addr()
		switch {
		case !n.IsValid() || !a.IsValid():
			return "invalid network"
		case a.IsUnspecified():
			return "unspecified address as network"
		case a.Zone() != "":
			return "zoned network"
		case v2 && a.Is4In6():
			return "4in6 network"
		case !v2 && !a.Is4():
			return "IPv6 network in a v1 certificate"
		}
		has4 = has4 || a.Is4()
		has6 = has6 || a.Is6()
		if v2 && i > 0 {
			p := c.Networks()[i-1]
			if k := p.Addr().Compare(a); k > 0 || (k == 0 && p.Bits() >= n.Bits()) {
				return "networks not strictly sorted (unsorted or duplicate)"
			}
		}
	}
	for i, n := range c.UnsafeNetworks() {
		a := n.Addr()
		switch {
		case !n.IsValid() || !a.IsValid():
			return "invalid unsafe network"
		case a.Zone() != "":
			return "zoned unsafe network"
		case !v2 && !a.Is4():
			return "IPv6 unsafe network in a v1 certificate"
		case v2 && !c.IsCA() && a.Is4() && !has4:
			return "IPv4 unsafe network without an IPv4 assignment"
		case v2 && !c.IsCA() && a.Is6() && !has6:
			return "IPv6 unsafe network without an IPv6 assignment"
		}
		if v2 && i > 0 {
			p := c.UnsafeNetworks()[i-1]
			if k := p.Addr().Compare(a); k > 0 || (k == 0 && p.Bits() >= n.Bits()) {
				return "unsafe networks not strictly sorted (unsorted or duplicate)"
			}
		}
	}
	return ""
}

// ---------------------------------------------------------------------------------------------------------------

type c03Run struct {
	c      *mc.Check
	shards [64]struct {
		mu sync.Mutex
		m  map[uint64]struct{}
	}
	tbsCases, signed, signRefused, roundTrips, directCases, directEncoded, directAccepted, genFailed atomic.Int64
	shortStrings, shortCalls, mutants, mutantCalls, mutantAccepted, distinct, decoderRefusedOwn      atomic.Int64
	signers                                                                                          map[[2]int]c03Signer
}

type c03Signer struct {
	ca   Certificate
	priv []byte
	pub  []byte
}

func (r *c03Run) isNew(parts ...[]byte) bool {
	h := fnv.New64a()
	for _, p := range parts {
		h.Write(p)
		h.Write([]byte{0xff, 0x00, 0xfe})
	}
	x := h.Sum64()
	sh := &r.shards[x&63]
	sh.mu.Lock()
	defer sh.mu.Unlock()
	if sh.m == nil {
		sh.m = map[uint64]struct{}{}
	}
	if _, ok := sh.m[x]; ok {
		return false
	}
	sh.m[x] = struct{}{}
	return true
}

func c03Must[T any](v T, err error) T {
	if err != nil {
		panic(fmt.Sprintf("c03 setup: %v", err))
	}
	return v
}

func c03MakeSigners() map[[2]int]c03Signer {
	out := map[[2]int]c03Signer{}
	for _, ver := range []Version{Version1, Version2} {
		for _, curve := range []Curve{Curve_CURVE25519, Curve_P256} {
			var pub, priv []byte
			if curve == Curve_CURVE25519 {
				k := ed25519.NewKeyFromSeed(bytes.Repeat([]byte{0x33}, 32))
				pub, priv = []byte(k.Public().(ed25519.PublicKey)), []byte(k)
			} else {
				priv = bytes.Repeat([]byte{0x44}, 32)
				pub = c03Must(ecdh.P256().NewPrivateKey(priv)).PublicKey().Bytes()
			}
			t := &TBSCertificate{Version: ver, Curve: curve, Name: "c03 ca", IsCA: true, PublicKey: pub,
				NotBefore: time.Unix(-1<<50, 0), NotAfter: time.Unix(1<<50, 0)} // unconstrained, wider than every validity in the box
			ca := c03Must(t.Sign(nil, curve, priv))
			out[[2]int{int(ver), int(curve)}] = c03Signer{ca, priv, pub}
		}
	}
	return out
}

type c03TBSDesc struct {
	Version  int    `json:"version"`
	Curve    string `json:"curve"`
	Name     string `json:"name"`
	Groups   string `json:"groups"`
	Networks string `json:"networks"`
	Unsafe   string `json:"unsafe_networks"`
	IsCA     bool   `json:"is_ca"`
	Validity string `json:"validity"`
	KeyLen   int    `json:"public_key_len"`
}

type c03Fields struct {
	version  Version
	curve    Curve
	name     string
	groups   []string
	networks []netip.Prefix
	unsafe   []netip.Prefix
	isCA     bool
	nb, na   time.Time
	key      []byte
}

func (f *c03Fields) tbs() *TBSCertificate { // fresh slices: v2 validation sorts in place
	return &TBSCertificate{Version: f.version, Curve: f.curve, Name: f.name, Groups: append([]string(nil), f.groups...),
		Networks: append([]netip.Prefix(nil), f.networks...), UnsafeNetworks: append([]netip.Prefix(nil), f.unsafe...),
		IsCA: f.isCA, NotBefore: f.nb, NotAfter: f.na, PublicKey: append([]byte(nil), f.key...)}
}

func c03TBSClass(f *c03Fields) string {
	switch {
	case f.name == "":
		return "an empty name"
	case len(f.name) > 253:
		return "a name longer than 253 bytes"
	}
	for _, g := range f.groups {
		if g == "" {
			return "an empty group string"
		}
	}
	return "neither an empty/over-long name nor an empty group (see detail)"
}

func c03SameMultiset(a, b []netip.Prefix) bool {
	if len(a) != len(b) {
		return false
	}
	cnt := map[netip.Prefix]int{}
	for _, x := range a {
		cnt[x]++
	}
	for _, x := range b {
		cnt[x]--
	}
	for _, v := range cnt {
		if v != 0 {
			return false
		}
	}
	return true
}

func c03EqStrings(a, b []string) bool {
	if len(a) != len(b) {
		return false
	}
	for i := range a {
		if a[i] != b[i] {
			return false
		}
	}
	return true
}

func c03EqPrefixes(a, b []netip.Prefix) bool {
	if len(a) != len(b) {
		return false
	}
	for i := range a {
		if a[i] != b[i] {
			return false
		}
	}
	return true
}

// c03CertDiff names the first field in which two certificates differ ("" when identical, fingerprint included).
func c03CertDiff(a, b Certificate) string {
	switch {
	case a.Version() != b.Version():
		return "version"
	case a.Name() != b.Name():
		return "name"
	case !c03EqPrefixes(a.Networks(), b.Networks()):
		return "networks"
	case !c03EqPrefixes(a.UnsafeNetworks(), b.UnsafeNetworks()):
		return "unsafeNetworks"
	case !c03EqStrings(a.Groups(), b.Groups()):
		return "groups"
	case a.IsCA() != b.IsCA():
		return "isCA"
	case a.NotBefore().Unix() != b.NotBefore().Unix():
		return "notBefore"
	case a.NotAfter().Unix() != b.NotAfter().Unix():
		return "notAfter"
	case a.Issuer() != b.Issuer():
		return "issuer"
	case !bytes.Equal(a.PublicKey(), b.PublicKey()):
		return "publicKey"
	case a.Curve() != b.Curve():
		return "curve"
	case !bytes.Equal(a.Signature(), b.Signature()):
		return "signature"
	}
	fa, ea := a.Fingerprint()
	fb, eb := b.Fingerprint()
	if ea != nil || eb != nil || fa != fb {
		return "fingerprint"
	}
	return ""
}

type c03Decode struct {
	entry string
	c     Certificate
	err   error
	panic any
}

func c03Guard(entry string, f func() (Certificate, error)) (d c03Decode) {
	d.entry = entry
	defer func() {
		if p := recover(); p != nil {
			d.panic, d.c, d.err = p, nil, fmt.Errorf("panic: %v", p)
		}
	}()
	d.c, d.err = f()
	if d.err == nil && d.c == nil {
		d.err = fmt.Errorf("nil certificate without error")
	}
	return
}

// c03DecodeStandard runs the decoder the PEM path dispatches to for this version.
func c03DecodeStandard(v Version, b []byte) c03Decode {
	if v == Version2 {
		return c03Guard("unmarshalCertificateV2(b,nil)", func() (Certificate, error) {
			c, err := unmarshalCertificateV2(b, nil, Curve_CURVE25519)
			if err != nil {
				return nil, err
			}
			return c, nil
		})
	}
	return c03Guard("unmarshalCertificateV1(b,nil)", func() (Certificate, error) {
		c, err := unmarshalCertificateV1(b, nil)
		if err != nil {
			return nil, err
		}
		return c, nil
	})
}

func c03DecodePEM(b []byte) c03Decode {
	return c03Guard("UnmarshalCertificateFromPEM", func() (Certificate, error) {
		c, _, err := UnmarshalCertificateFromPEM(b)
		return c, err
	})
}

var c03RecombineNames = [...]string{"Recombine(v0)", "Recombine(v1)", "Recombine(v2)", "Recombine(v3)"}

func c03DecodeHandshake(v Version, b, key []byte, curve Curve) c03Decode {
	return c03Guard(c03RecombineNames[v&3], func() (Certificate, error) { return Recombine(v, b, key, curve) })
}

var c03DummySig = []byte{0x30, 0x06, 0x02, 0x01, 0x01, 0x02, 0x01, 0x01} // parses as an ECDSA signature (r=1,s=1): p256.Normalize needs that

// c03SignerAccepts presents the fields of a decoded certificate to the signing API (no key material involved).
func c03SignerAccepts(d Certificate) (err error) {
	defer func() {
		if p := recover(); p != nil {
			err = fmt.Errorf("signing API panicked: %v", p)
		}
	}()
	t := &TBSCertificate{Version: d.Version(), Curve: d.Curve(), Name: d.Name(), Groups: append([]string(nil), d.Groups()...),
		Networks: append([]netip.Prefix(nil), d.Networks()...), UnsafeNetworks: append([]netip.Prefix(nil), d.UnsafeNetworks()...),
		IsCA: d.IsCA(), NotBefore: d.NotBefore(), NotAfter: d.NotAfter(), PublicKey: append([]byte(nil), d.PublicKey()...)}
	var signer Certificate
	if !d.IsCA() { // a signer that constrains nothing and has exactly the certificate's validity
		signer = &certificateV2{details: detailsV2{name: "c03 any-signer", isCA: true, notBefore: d.NotBefore(), notAfter: d.NotAfter()},
			rawDetails: []byte{0xa0, 0x00}, curve: d.Curve(), publicKey: []byte{1}, signature: []byte{1}}
	}
	_, err = t.SignWith(signer, d.Curve(), func([]byte) ([]byte, error) { return c03DummySig, nil })
	return err
}

// c03CheckAccepted applies the "accepted => obeys the rules" half to one accepted decode.
func (r *c03Run) c03CheckAccepted(where string, d Certificate, detail func() map[string]any) {
	if why := c03StructuralRule(d); why != "" {
		m := detail()
		m["rule_broken"] = why
		r.c.Violation(fmt.Sprintf("v%d decoder accepts a certificate that breaks a structural rule of signing: %s", d.Version(), why), m)
	}
	if err := c03SignerAccepts(d); err != nil {
		m := detail()
		m["signing_api_error"] = err.Error()
		r.c.Violation(fmt.Sprintf("v%d decoder accepts a certificate whose fields the signing API refuses (%s)", d.Version(), c03ErrClass(err)), m)
	}
	_ = where
}

func c03ErrClass(err error) string {
	s := err.Error()
	if i := strings.IndexAny(s, ":0123456789"); i > 0 {
		s = s[:i]
	}
	if len(s) > 70 {
		s = s[:70]
	}
	return strings.TrimSpace(s)
}

func c03CertJSON(c Certificate) any {
	defer func() { _ = recover() }()
	nets := func(ps []netip.Prefix) []string {
		var o []string
		for _, p := range ps {
			o = append(o, p.String())
		}
		return o
	}
	name := c.Name()
	if len(name) > 40 {
		name = fmt.Sprintf("%q... (%d bytes)", name[:16], len(name))
	}
	return map[string]any{"version": int(c.Version()), "curve": c.Curve().String(), "name": name, "groups_len": len(c.Groups()),
		"networks": nets(c.Networks()), "unsafe": nets(c.UnsafeNetworks()), "is_ca": c.IsCA(), "not_before": c.NotBefore().Unix(),
		"not_after": c.NotAfter().Unix(), "issuer": c.Issuer(), "public_key_len": len(c.PublicKey())}
}

// ---------------------------------------------------------------------------------------------------------------
// Box A + C for one TBS

func (r *c03Run) oneTBS(f *c03Fields, desc c03TBSDesc) {
	r.tbsCases.Add(1)
	sg := r.signers[[2]int{int(f.version), int(f.curve)}]
	var signer Certificate
	if !f.isCA {
		signer = sg.ca
	}
	t := f.tbs()
	issued, err := t.Sign(signer, f.curve, sg.priv)
	if err != nil {
		r.signRefused.Add(1)
		r.c.Distinct("sign_errors", c03ErrClass(err))
	} else {
		r.signed.Add(1)
		r.boxA(f, desc, issued, sg)
	}
	r.boxC(f, desc, sg)
}

func (r *c03Run) boxA(f *c03Fields, desc c03TBSDesc, issued Certificate, sg c03Signer) {
	detail := func(extra map[string]any) map[string]any {
		m := map[string]any{"tbs": desc, "issued": c03CertJSON(issued), "signer": "unconstrained CA of the same version/curve (nil for CA certificates)"}
		if b, err := issued.MarshalPEM(); err == nil && len(b) < 4000 {
			m["issued_pem"] = string(b)
		}
		for k, v := range extra {
			m[k] = v
		}
		return m
	}
	// issued vs what was asked for
	wantIssuer := ""
	if !f.isCA {
		wantIssuer = c03Must(sg.ca.Fingerprint())
	}
	askDiff := ""
	switch {
	case issued.Version() != f.version:
		askDiff = "version"
	case issued.Name() != f.name:
		askDiff = "name"
	case !c03SameMultiset(issued.Networks(), f.networks):
		askDiff = "networks"
	case !c03SameMultiset(issued.UnsafeNetworks(), f.unsafe):
		askDiff = "unsafeNetworks"
	case !c03EqStrings(issued.Groups(), f.groups):
		askDiff = "groups"
	case issued.IsCA() != f.isCA:
		askDiff = "isCA"
	case issued.NotBefore().Unix() != f.nb.Unix() || issued.NotAfter().Unix() != f.na.Unix():
		askDiff = "validity"
	case !bytes.Equal(issued.PublicKey(), f.key):
		askDiff = "publicKey"
	case issued.Curve() != f.curve:
		askDiff = "curve"
	case issued.Issuer() != wantIssuer:
		askDiff = "issuer"
	}
	if askDiff != "" {
		r.c.Violation(fmt.Sprintf("v%d Sign returns a certificate whose %s differs from the TBS it was given", f.version, askDiff), detail(nil))
	}
	if why := c03StructuralRule(issued); why != "" {
		r.c.Violation(fmt.Sprintf("v%d Sign issues a certificate that breaks a structural rule: %s", f.version, why), detail(map[string]any{"rule_broken": why}))
	}
	fp0, err := issued.Fingerprint()
	if err != nil {
		r.c.Violation(fmt.Sprintf("v%d issued certificate has no fingerprint", f.version), detail(map[string]any{"error": err.Error()}))
		return
	}
	std, e1 := issued.Marshal()
	pemb, e2 := issued.MarshalPEM()
	hs, e3 := issued.MarshalForHandshakes()
	if e1 != nil || e2 != nil || e3 != nil {
		r.c.Violation(fmt.Sprintf("v%d issued certificate cannot be marshalled", f.version), detail(map[string]any{"errors": fmt.Sprint(e1, e2, e3)}))
		return
	}
	if fp1, _ := issued.Fingerprint(); fp1 != fp0 {
		r.c.Violation(fmt.Sprintf("v%d marshalling changes the issued certificate's fingerprint", f.version), detail(nil))
	}
	if signedBytes, err := issued.Copy().(beingSignedCertificate).marshalForSigning(); err == nil && r.isNew([]byte{byte(f.version), byte(f.curve)}, signedBytes) {
		r.distinct.Add(1)
	}
	decs := []c03Decode{c03DecodeStandard(f.version, std), c03DecodePEM(pemb), c03DecodeHandshake(f.version, hs, issued.PublicKey(), f.curve)}
	encNames := []string{"standard", "PEM", "handshake"}
	var refused []string
	var firstErr string
	for i, d := range decs {
		r.roundTrips.Add(1)
		switch {
		case d.panic != nil:
			r.c.Violation(fmt.Sprintf("decoder panics on a certificate issued by Sign: %s", d.entry), detail(map[string]any{"panic": fmt.Sprint(d.panic), "encoding": encNames[i]}))
		case d.err != nil:
			refused = append(refused, encNames[i])
			if firstErr == "" {
				firstErr = d.err.Error()
			}
		default:
			if diff := c03CertDiff(issued, d.c); diff != "" {
				r.c.Violation(fmt.Sprintf("v%d certificate decoded from its %s encoding differs from the issued one in %s", f.version, encNames[i], diff),
					detail(map[string]any{"decoded": c03CertJSON(d.c), "encoding": encNames[i]}))
			}
		}
	}
	if len(refused) > 0 {
		r.decoderRefusedOwn.Add(1)
		which := ""
		if len(refused) != len(decs) {
			which = " (" + strings.Join(refused, "+") + " encoding only)"
		}
		r.c.Violation(fmt.Sprintf("v%d Sign accepts a TBS with %s but the decoder refuses the issued certificate's own encoding%s", f.version, c03TBSClass(f), which),
			detail(map[string]any{"decoder_error": firstErr, "refused_encodings": refused, "standard_encoding_hex": hex.EncodeToString(std[:min(len(std), 600)])}))
	}
}

// c03Direct fills in the certificate struct by hand (no validation) and marshals it.
func c03Direct(f *c03Fields, issuer string) (std, hs []byte, err error) {
	defer func() {
		if p := recover(); p != nil {
			err = fmt.Errorf("encoder panic: %v", p) // e.g. v1 cannot express an IPv6 or invalid prefix at all
		}
	}()
	sig := bytes.Repeat([]byte{0x5a}, 64)
	var c Certificate
	if f.version == Version2 {
		c2 := &certificateV2{details: detailsV2{name: f.name, networks: append([]netip.Prefix(nil), f.networks...), unsafeNetworks: append([]netip.Prefix(nil), f.unsafe...),
			groups: append([]string(nil), f.groups...), isCA: f.isCA, notBefore: f.nb, notAfter: f.na, issuer: issuer}, curve: f.curve, publicKey: f.key, signature: sig}
		if _, err := c2.marshalForSigning(); err != nil {
			return nil, nil, err
		}
		c = c2
	} else {
		c = &certificateV1{details: detailsV1{name: f.name, networks: append([]netip.Prefix(nil), f.networks...), unsafeNetworks: append([]netip.Prefix(nil), f.unsafe...),
			groups: append([]string(nil), f.groups...), isCA: f.isCA, notBefore: f.nb, notAfter: f.na, issuer: issuer, curve: f.curve, publicKey: f.key}, signature: sig}
	}
	if std, err = c.Marshal(); err != nil {
		return nil, nil, err
	}
	if hs, err = c.MarshalForHandshakes(); err != nil {
		return nil, nil, err
	}
	return std, hs, nil
}

func (r *c03Run) boxC(f *c03Fields, desc c03TBSDesc, sg c03Signer) {
	r.directCases.Add(1)
	issuer := ""
	if !f.isCA {
		issuer = strings.Repeat("ab", 32)
	}
	std, hs, err := c03Direct(f, issuer)
	if err != nil {
		r.genFailed.Add(1)
		return
	}
	r.directEncoded.Add(1)
	key := f.key
	if len(key) == 0 {
		key = c03Key(32) // a handshake always supplies a key
	}
	for _, d := range []c03Decode{c03DecodeStandard(f.version, std), c03DecodeHandshake(f.version, hs, key, f.curve)} {
		d := d
		detail := func() map[string]any {
			return map[string]any{"built_directly_from": desc, "entry": d.entry, "standard_encoding_hex": hex.EncodeToString(std[:min(len(std), 600)]), "decoded": c03CertJSON(d.c)}
		}
		if d.panic != nil {
			r.c.Violation("decoder panics: "+d.entry, map[string]any{"built_directly_from": desc, "panic": fmt.Sprint(d.panic), "standard_encoding_hex": hex.EncodeToString(std[:min(len(std), 600)])})
			continue
		}
		if d.err != nil {
			r.c.Distinct("decode_errors", c03ErrClass(d.err))
			continue
		}
		r.directAccepted.Add(1)
		if r.isNew([]byte("direct"), []byte(d.entry), std) {
			r.distinct.Add(1)
		}
		r.c03CheckAccepted("direct", d.c, detail)
	}
}

// ---------------------------------------------------------------------------------------------------------------
// Box B

// feedAll gives b to the decoder entry points: the two decoders of the PEM path and Recombine for both versions with a
// Curve25519 key; with all=true also Recombine with a P-256 key and with the version bytes 0 and 3.
func (r *c03Run) feedAll(b []byte, key32, key65 []byte, all, check bool, what func() map[string]any) int {
	var arr [8]c03Decode
	arr[0], arr[1] = c03DecodeStandard(Version1, b), c03DecodeStandard(Version2, b)
	arr[2], arr[3] = c03DecodeHandshake(Version1, b, key32, Curve_CURVE25519), c03DecodeHandshake(Version2, b, key32, Curve_CURVE25519)
	decs := arr[:4]
	if all {
		arr[4], arr[5] = c03DecodeHandshake(Version1, b, key65, Curve_P256), c03DecodeHandshake(Version2, b, key65, Curve_P256)
		arr[6], arr[7] = c03DecodeHandshake(VersionPre1, b, key32, Curve_CURVE25519), c03DecodeHandshake(3, b, key32, Curve_CURVE25519)
		decs = arr[:8]
	}
	for i := range decs {
		d := &decs[i]
		if d.panic != nil {
			m := what()
			m["panic"] = fmt.Sprint(d.panic)
			m["entry"] = d.entry
			r.c.Violation("decoder panics: "+d.entry, m)
			continue
		}
		if d.err != nil {
			if check {
				r.c.Distinct("decode_errors", c03ErrClass(d.err))
			}
			continue
		}
		r.mutantAccepted.Add(1)
		if r.isNew([]byte("bytes"), []byte(d.entry), b) {
			r.distinct.Add(1)
		}
		dd := d
		r.c03CheckAccepted("bytes", d.c, func() map[string]any {
			m := what()
			m["entry"] = dd.entry
			m["decoded"] = c03CertJSON(dd.c)
			return m
		})
	}
	return len(decs)
}

type c03SeedEnc struct {
	label string
	raw   []byte
}

func (r *c03Run) seeds() []c03SeedEnc {
	var out []c03SeedEnc
	for _, ver := range []Version{Version1, Version2} {
		for _, curve := range []Curve{Curve_CURVE25519, Curve_P256} {
			sg := r.signers[[2]int{int(ver), int(curve)}]
			nets, unsafe := c03P("10.1.2.3/16", "fd00::7/64"), c03P("192.168.0.0/24", "fd01::/48")
			if ver == Version1 {
				nets, unsafe = c03P("10.1.2.3/16", "10.9.9.9/24"), c03P("172.16.0.0/12", "192.168.0.0/24")
			}
			kl := 32
			if curve == Curve_P256 {
				kl = 65
			}
			leaf := c03Must((&TBSCertificate{Version: ver, Curve: curve, Name: "host-a", Networks: nets, UnsafeNetworks: unsafe, Groups: []string{"ops", "web"},
				NotBefore: time.Unix(1_500_000_000, 0), NotAfter: time.Unix(2_500_000_000, 0), PublicKey: c03Key(kl)}).Sign(sg.ca, curve, sg.priv))
			caT := &TBSCertificate{Version: ver, Curve: curve, Name: "seed ca", IsCA: true, Networks: c03P("10.0.0.1/8"), UnsafeNetworks: c03P("192.168.0.0/16"),
				Groups: []string{"ops"}, NotBefore: time.Unix(1_000_000_000, 0), NotAfter: time.Unix(3_000_000_000, 0), PublicKey: sg.pub}
			ca := c03Must(caT.Sign(nil, curve, sg.priv))
			for _, cc := range []struct {
				n string
				c Certificate
			}{{"leaf", leaf}, {"ca", ca}} {
				out = append(out, c03SeedEnc{fmt.Sprintf("v%d/%s/%s/standard", ver, curve, cc.n), c03Must(cc.c.Marshal())})
				out = append(out, c03SeedEnc{fmt.Sprintf("v%d/%s/%s/handshake", ver, curve, cc.n), c03Must(cc.c.MarshalForHandshakes())})
			}
		}
	}
	return out
}

func c03ByteEdits(b []byte, pos int, emit func(kind string, v int, m []byte)) {
	n := len(b)
	buf := make([]byte, 0, n+1)
	if pos < n {
		for v := 0; v < 256; v++ {
			if byte(v) == b[pos] {
				continue
			}
			buf = append(buf[:0], b...)
			buf[pos] = byte(v)
			emit("substitute", v, buf)
		}
		buf = append(buf[:0], b[:pos]...)
		buf = append(buf, b[pos+1:]...)
		emit("delete", -1, buf)
		emit("truncate", -1, b[:pos])
	}
	for v := 0; v < 256; v++ {
		buf = append(buf[:0], b[:pos]...)
		buf = append(buf, byte(v))
		buf = append(buf, b[pos:]...)
		emit("insert", v, buf)
	}
}

// ---------------------------------------------------------------------------------------------------------------

func TestVerifC03(t *testing.T) {
	c := mc.Begin(t, "C03", "exploration")
	defer c.End()
	r := &c03Run{c: c, signers: c03MakeSigners()}
	th := c.Thorough()
	workers := runtime.GOMAXPROCS(0)
	stop := func() bool { return c.OutOfTime() }

	// ---- Box A + C ------------------------------------------------------------------------------------------------
	names, groups, nets, unsafe, vals, klens := c03Names(), c03Groups(), c03Networks(th), c03Unsafe(th), c03Validities(th), c03KeyLens(th)
	versions := []Version{Version1, Version2}
	curves := []Curve{Curve_CURVE25519, Curve_P256}
	top := len(versions) * len(curves) * len(names) * len(groups)
	_, complete := mc.ParallelItems(top, workers, stop, func(i int, e *mc.Enum) {
		f := &c03Fields{}
		f.version = versions[i%2]
		f.curve = curves[(i/2)%2]
		nm := names[(i/4)%len(names)]
		gr := groups[(i/4/len(names))%len(groups)]
		ne := mc.PickOf(e, nets)
		un := mc.PickOf(e, unsafe)
		f.isCA = e.Bool()
		va := mc.PickOf(e, vals)
		kl := mc.PickOf(e, klens)
		if kl < 0 {
			kl = map[bool]int{true: 32, false: 65}[(kl == -1) == (f.curve == Curve_CURVE25519)]
		}
		f.name, f.groups, f.networks, f.unsafe, f.nb, f.na, f.key = nm.v, gr.v, ne.v, un.v, va.v.nb, va.v.na, c03Key(kl)
		r.oneTBS(f, c03TBSDesc{Version: int(f.version), Curve: f.curve.String(), Name: nm.name, Groups: gr.name, Networks: ne.name, Unsafe: un.name,
			IsCA: f.isCA, Validity: va.name, KeyLen: kl})
	})
	if !complete {
		c.Capped("soft time budget during the TBS product")
	}
	c.Set("alphabet_sizes", map[string]int{"versions": 2, "curves": 2, "names": len(names), "groups": len(groups), "networks": len(nets), "unsafe_networks": len(unsafe),
		"is_ca": 2, "validities": len(vals), "key_lengths": len(klens)})

	c.Set("seconds_box_A_and_C", c.Elapsed())
	// ---- Box B1: every byte string of length <= 3 -------------------------------------------------------------------
	key32, key65 := c03Key(32), c03Key(65)
	maxLen := 3
	var wg sync.WaitGroup
	var capped atomic.Bool
	var nextFirst atomic.Int64
	for w := 0; w < workers; w++ {
		wg.Add(1)
		go func() {
			defer wg.Done()
			buf := make([]byte, 3)
			for {
				b0 := int(nextFirst.Add(1) - 1)
				if b0 > 256 {
					return
				}
				if c.OutOfTime() {
					capped.Store(true)
					return
				}
				feed := func(b []byte) {
					bb := b
					n := r.feedAll(b, key32, key65, th, false, func() map[string]any { return map[string]any{"input_hex": hex.EncodeToString(bb)} })
					r.shortStrings.Add(1)
					r.shortCalls.Add(int64(n))
				}
				if b0 == 256 { // the empty string (and nil)
					feed([]byte{})
					feed(nil)
					continue
				}
				buf[0] = byte(b0)
				feed(buf[:1])
				for b1 := 0; b1 < 256 && maxLen >= 2; b1++ {
					buf[1] = byte(b1)
					feed(buf[:2])
					for b2 := 0; b2 < 256 && maxLen >= 3; b2++ {
						buf[2] = byte(b2)
						feed(buf[:3])
					}
				}
			}
		}()
	}
	wg.Wait()

	c.Set("seconds_until_box_B1_done", c.Elapsed())
	// ---- Box B2: every edit-distance-1 mutant of the seed encodings --------------------------------------------------
	seeds := r.seeds()
	type job struct{ s, pos int }
	var jobs []job
	for si, s := range seeds {
		for pos := 0; pos <= len(s.raw); pos++ {
			jobs = append(jobs, job{si, pos})
		}
	}
	var nextJob atomic.Int64
	for w := 0; w < workers; w++ {
		wg.Add(1)
		go func() {
			defer wg.Done()
			for {
				j := int(nextJob.Add(1) - 1)
				if j >= len(jobs) {
					return
				}
				if c.OutOfTime() {
					capped.Store(true)
					return
				}
				s := seeds[jobs[j].s]
				pos := jobs[j].pos
				c03ByteEdits(s.raw, pos, func(kind string, v int, m []byte) {
					mm := append([]byte(nil), m...) // decoded certificates may alias their input
					n := r.feedAll(mm, key32, key65, true, true, func() map[string]any {
						return map[string]any{"seed": s.label, "mutation": fmt.Sprintf("%s pos=%d val=%d", kind, pos, v), "input_hex": hex.EncodeToString(mm)}
					})
					r.mutants.Add(1)
					r.mutantCalls.Add(int64(n))
				})
			}
		}()
	}
	wg.Wait()
	if capped.Load() {
		c.Capped("soft time budget during the robustness box")
	}

	// ---- guards + evidence -------------------------------------------------------------------------------------------
	if !capped.Load() && complete {
		c.Require(r.signed.Load() > 0 && r.signRefused.Load() > 0, "Sign accepted %d and refused %d TBS: both outcomes are needed", r.signed.Load(), r.signRefused.Load())
		c.Require(r.roundTrips.Load() >= 3*r.signed.Load(), "not every accepted TBS was decoded three ways")
		c.Require(r.directAccepted.Load() > 0 && r.directEncoded.Load()*2 > r.directAccepted.Load(), "directly built encodings: accepted=%d of %d decodes — both outcomes are needed", r.directAccepted.Load(), 2*r.directEncoded.Load())
		c.Require(r.mutantAccepted.Load() > 0, "no mutant / short string was accepted by any decoder")
		c.Require(r.shortStrings.Load() == 1+1+256+256*256+256*256*256, "short-string box incomplete: %d", r.shortStrings.Load())
		c.Require(c.DistinctCount("sign_errors") >= 3 && c.DistinctCount("decode_errors") >= 3, "too few distinct refusal reasons: sign=%d decode=%d", c.DistinctCount("sign_errors"), c.DistinctCount("decode_errors"))
	}
	c.Set("tbs_cases", r.tbsCases.Load())
	c.Set("tbs_signed", r.signed.Load())
	c.Set("tbs_refused_by_sign", r.signRefused.Load())
	c.Set("round_trip_decodes", r.roundTrips.Load())
	c.Set("issued_certs_refused_by_decoder", r.decoderRefusedOwn.Load())
	c.Set("direct_encodings", r.directEncoded.Load())
	c.Set("direct_encoder_cannot_express", r.genFailed.Load())
	c.Set("direct_decodes_accepted", r.directAccepted.Load())
	c.Set("short_strings", r.shortStrings.Load())
	c.Set("seed_encodings", len(seeds))
	c.Set("seed_mutants", r.mutants.Load())
	c.Set("decoder_calls_on_bytes", r.shortCalls.Load()+r.mutantCalls.Load())
	c.Set("byte_inputs_accepted_by_a_decoder", r.mutantAccepted.Load())
	c.Set("evaluations", r.tbsCases.Load()+r.directCases.Load()+r.shortStrings.Load()+r.mutants.Load())
	c.Set("distinct_nontrivial", r.distinct.Load())
	c.Set("rule", "evaluations = TBS tuples given to Sign + the same tuples encoded directly + byte strings of length<=3 + 1-edit mutants of 16 seed encodings; non-trivial = a certificate came out: distinct to-be-signed byte strings that Sign accepted (each round-tripped through 3 decoders) + distinct (entry point, input bytes) pairs that a decoder accepted (each checked against the structural rules and the signing API); deduplicated with a 64-bit hash")
	c.Sample(map[string]any{"box": "A", "tbs": c03TBSDesc{Version: 2, Curve: "CURVE25519", Name: "253xa", Groups: "40-groups", Networks: "two-unsorted", Unsafe: "v4+v6", IsCA: false, Validity: "0..2^40", KeyLen: 32}})
	c.Sample(map[string]any{"box": "C", "built_directly": c03TBSDesc{Version: 1, Curve: "P256", Name: "empty", Groups: "[a,\"\"]", Networks: "duplicate", Unsafe: "none", IsCA: true, Validity: "negative..0", KeyLen: 33}})
	c.Sample(map[string]any{"box": "B", "seed": seeds[0].label, "encoding_hex": hex.EncodeToString(seeds[0].raw)})
	c.Sample(map[string]any{"box": "B", "short_string_hex": "0a0008"})
	c.Assume("validity is compared at one-second resolution (the wire formats carry seconds); nil and empty group/network lists are the same value")
	c.Assume("v2 network lists are compared with the TBS as multisets (signing sorts them), and element-wise between issued and decoded certificate")
	c.Assume("byte strings longer than 3 are covered only as 1-edit mutants of 16 seed encodings; netip cannot represent a zoned prefix, so that alphabet entry degenerates to a plain IPv6 prefix")
	c.Assume("SignWith is presented decoded fields with a signer that has the certificate's own validity and no constraints: only the structural rules of signing are compared, not CA constraints (C04)")
}
