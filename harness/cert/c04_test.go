//go:build verif

package cert

import (
	"bytes"
	"crypto/ecdsa"
	"crypto/ed25519"
	"crypto/elliptic"
	"crypto/rand"
	"crypto/sha256"
	"encoding/asn1"
	"errors"
	"fmt"
	"math/big"
	"net/netip"
	"os"
	"sort"
	"strconv"
	"strings"
	"sync"
	"testing"
	"time"

	"github.com/slackhq/nebula/cert/p256"
	"github.com/slackhq/nebula/zzverif/mc"
)

// C04 — issuance never exceeds the signing CA.
//
// Engine E3. The same constraint lattice as C01, but driven through the real TBSCertificate.Sign / SignWith:
//   box 1  signer CA (every constraint combination, both versions, both curves) x TBS (groups x networks x unsafe
//          networks x NotBefore/NotAfter one second around the CA window x IsCA) -> Sign
//   box 2  self-signing (signer == nil) x IsCA
//   box 3  curve cross: TBS curve != signer CA curve, through Sign and through SignWith with a lambda that signs with
//          the CA's real key (the PKCS#11 style path), for both values of the curve argument
//   box 4  P-256 low-S: SignWith with recording / forced-high-S / forced-low-S lambdas (genuine signatures) and with
//          crafted S values at the N/2 boundary
//   box 5  the nebula-cert ca / sign commands (c04cli_test.go)
// Oracle (one direction, as the statement says "only when"): success => reference predicate; every success verifies
// against a pool holding the signer at NotBefore, NotAfter and in between; every P-256 signature is low-S by an
// independent big.Int test.

type c04Key struct {
	curve Curve
	raw   []byte // what TBSCertificate.Sign expects: 64-byte Ed25519 private key / 32-byte P-256 scalar
	pub   []byte
	ec    *ecdsa.PrivateKey
}

func c04NewKey(curve Curve, seed byte) *c04Key {
	raw := bytes.Repeat([]byte{seed}, 32)
	switch curve {
	case Curve_CURVE25519:
		k := ed25519.NewKeyFromSeed(raw)
		return &c04Key{curve: curve, raw: []byte(k), pub: append([]byte{}, k.Public().(ed25519.PublicKey)...)}
	case Curve_P256:
		k, err := ecdsa.ParseRawPrivateKey(elliptic.P256(), raw)
		if err != nil {
			panic(err)
		}
		e, err := k.ECDH()
		if err != nil {
			panic(err)
		}
		return &c04Key{curve: curve, raw: raw, pub: e.PublicKey().Bytes(), ec: k}
	}
	panic("curve")
}

// lambda signs the way the holder of this key would (what a PKCS#11 token does for P-256).
func (k *c04Key) lambda() SignerLambda {
	return func(b []byte) ([]byte, error) {
		if k.ec == nil {
			return ed25519.Sign(ed25519.PrivateKey(k.raw), b), nil
		}
		h := sha256.Sum256(b)
		return ecdsa.SignASN1(rand.Reader, k.ec, h[:])
	}
}

type c04ECSig struct{ R, S *big.Int }

var c04N = elliptic.P256().Params().N
var c04HalfN = new(big.Int).Rsh(elliptic.P256().Params().N, 1)

// c04LowS: independent low-S test: the signature is DER SEQUENCE{R,S} and S <= floor(N/2).
func c04LowS(sig []byte) (low bool, parsed bool) {
	var v c04ECSig
	rest, err := asn1.Unmarshal(sig, &v)
	if err != nil || len(rest) != 0 || v.S == nil || v.S.Sign() <= 0 {
		return false, false
	}
	return v.S.Cmp(c04HalfN) <= 0, true
}

func c04WithS(sig []byte, f func(s *big.Int) *big.Int) []byte {
	var v c04ECSig
	if _, err := asn1.Unmarshal(sig, &v); err != nil {
		panic(err)
	}
	v.S = f(v.S)
	out, err := asn1.Marshal(v)
	if err != nil {
		panic(err)
	}
	return out
}

// ---------------------------------------------------------------------------------------------------------------

type c04Spec struct {
	ver    Version
	curve  Curve
	groups []string
	nets   []netip.Prefix
	unsafe []netip.Prefix
	nb, na int64
	isCA   bool
}

func c04Strs(ps []netip.Prefix) []string {
	out := make([]string, len(ps))
	for i, p := range ps {
		out[i] = p.String()
	}
	return out
}

func (s *c04Spec) desc() map[string]any {
	return map[string]any{"version": int(s.ver), "curve": s.curve.String(), "groups": s.groups, "networks": c04Strs(s.nets),
		"unsafe_networks": c04Strs(s.unsafe), "not_before": s.nb, "not_after": s.na, "is_ca": s.isCA}
}

func (s *c04Spec) tbs(name string, pub []byte) *TBSCertificate {
	return &TBSCertificate{Version: s.ver, Name: name, Networks: append([]netip.Prefix(nil), s.nets...), UnsafeNetworks: append([]netip.Prefix(nil), s.unsafe...),
		Groups: append([]string(nil), s.groups...), IsCA: s.isCA, NotBefore: time.Unix(s.nb, 0), NotAfter: time.Unix(s.na, 0), PublicKey: pub, Curve: s.curve}
}

// reference predicate: the clauses of the statement that forbid issuing. Empty result = issuing is allowed.
func c04Inside(leaf, ca netip.Prefix) bool {
	la, cb := leaf.Addr().AsSlice(), ca.Addr().AsSlice()
	if len(la) != len(cb) || leaf.Bits() < ca.Bits() {
		return false
	}
	for i := 0; i < ca.Bits(); i++ {
		if (la[i/8]>>(7-uint(i%8)))&1 != (cb[i/8]>>(7-uint(i%8)))&1 {
			return false
		}
	}
	return true
}

func c04AllInside(leaf, ca []netip.Prefix) bool {
	if len(ca) == 0 {
		return true
	}
	for _, l := range leaf {
		ok := false
		for _, r := range ca {
			ok = ok || c04Inside(l, r)
		}
		if !ok {
			return false
		}
	}
	return true
}

func c04Forbidden(t *c04Spec, signer *c04Spec) []string {
	var f []string
	if signer == nil {
		if !t.isCA {
			f = append(f, "self-signed-non-ca")
		}
		return f
	}
	if t.isCA {
		f = append(f, "ca-signed-by-ca")
	}
	if t.curve != signer.curve {
		f = append(f, "curve-differs-from-ca")
	}
	if t.nb < signer.nb {
		f = append(f, "starts-before-ca")
	}
	if t.na > signer.na {
		f = append(f, "ends-after-ca")
	}
	if len(signer.groups) > 0 {
		bad := false
		for _, g := range t.groups {
			found := false
			for _, cg := range signer.groups {
				found = found || g == cg
			}
			bad = bad || !found
		}
		if bad {
			f = append(f, "group-outside-ca")
		}
	}
	if !c04AllInside(t.nets, signer.nets) {
		f = append(f, "network-outside-ca")
	}
	if !c04AllInside(t.unsafe, signer.unsafe) {
		f = append(f, "unsafe-network-outside-ca")
	}
	return f
}

// ---------------------------------------------------------------------------------------------------------------

type c04Stats struct {
	signCalls, signed, refused, conformingRefused, verifyCalls, p256Sigs, panics int64
	nontrivial                                                                  int64
	refusedFor                                                                  map[string]int64 // sole forbidden clause -> refusals
	signErrs                                                                    map[string]int64
}

func c04NewStats() *c04Stats {
	return &c04Stats{refusedFor: map[string]int64{}, signErrs: map[string]int64{}}
}

func (s *c04Stats) merge(o *c04Stats) {
	s.signCalls += o.signCalls
	s.signed += o.signed
	s.refused += o.refused
	s.conformingRefused += o.conformingRefused
	s.verifyCalls += o.verifyCalls
	s.p256Sigs += o.p256Sigs
	s.panics += o.panics
	s.nontrivial += o.nontrivial
	for k, v := range o.refusedFor {
		s.refusedFor[k] += v
	}
	for k, v := range o.signErrs {
		s.signErrs[k] += v
	}
}

type c04Ctx struct {
	c       *mc.Check
	mu      sync.Mutex
	st      *c04Stats
	key     map[Curve]*c04Key
	leafPub map[Curve][]byte
}

func (x *c04Ctx) merge(s *c04Stats) {
	x.mu.Lock()
	x.st.merge(s)
	x.mu.Unlock()
}

type c04CA struct {
	spec c04Spec
	cert Certificate
	fp   string
	key  *c04Key
}

func c04ErrClass(err error) string {
	if err == nil {
		return "signed"
	}
	s := err.Error()
	if i := strings.IndexByte(s, ':'); i >= 0 {
		s = s[:i]
	}
	return s
}

// mkCA self-signs a CA through the real Sign (signer == nil, IsCA == true) and checks the self-signing post-conditions.
func (x *c04Ctx) mkCA(st *c04Stats, ver Version, curve Curve, groups []string, nets, unsafe []netip.Prefix) *c04CA {
	ca := &c04CA{key: x.key[curve], spec: c04Spec{ver: ver, curve: curve, groups: groups, nets: nets, unsafe: unsafe, nb: 100, na: 200, isCA: true}}
	c, err := ca.spec.tbs("ca", ca.key.pub).Sign(nil, curve, ca.key.raw)
	st.signCalls++
	if err != nil {
		x.c.Broken("cannot self-sign CA %v: %v", ca.spec.desc(), err)
	}
	st.signed++
	x.checkIssued(st, "self-sign", c, &ca.spec, nil, false, nil)
	ca.cert = c
	ca.fp, _ = c.Fingerprint()
	return ca
}

func c04Pool(c *mc.Check, ca Certificate) *CAPool {
	p := NewCAPool()
	if err := p.AddCA(ca); err != nil && !errors.Is(err, ErrExpired) {
		return nil
	}
	return p
}

// checkIssued: the post-conditions of the statement for a certificate that Sign returned.
// lowSOnly: the issuance itself was already reported as forbidden; only the signature form is still judged.
func (x *c04Ctx) checkIssued(st *c04Stats, how string, crt Certificate, t *c04Spec, signer *c04CA, lowSOnly bool, detail func() map[string]any) {
	det := func(extra string) map[string]any {
		d := map[string]any{}
		if detail != nil {
			d = detail()
		}
		d["tbs"] = t.desc()
		d["how"] = how
		d["observed"] = extra
		return d
	}
	if crt.Curve() == Curve_P256 {
		st.p256Sigs++
		low, parsed := c04LowS(crt.Signature())
		if !parsed {
			x.c.Violation("issued P-256 certificate carries a signature that is not DER SEQUENCE{R,S} ("+how+")", det(fmt.Sprintf("%x", crt.Signature())))
		} else if !low {
			x.c.Violation("issued P-256 signature is not in low-S form ("+how+")", det(fmt.Sprintf("%x", crt.Signature())))
		}
		if n, err := p256.IsNormalized(crt.Signature()); parsed && (err != nil || n != low) {
			x.c.Violation("p256.IsNormalized disagrees with S <= N/2", det(fmt.Sprintf("%x IsNormalized=%v err=%v", crt.Signature(), n, err)))
		}
	}
	if lowSOnly {
		return
	}
	if signer == nil {
		// self-signed: must be a CA whose signature verifies under its own key, i.e. a pool accepts it as a CA
		if !crt.IsCA() {
			x.c.Violation("self-signing produced a non-CA certificate", det(""))
		}
		st.verifyCalls++
		if !crt.CheckSignature(crt.PublicKey()) || c04Pool(x.c, crt) == nil {
			x.c.Violation("self-signed CA certificate does not verify under its own key ("+how+")", det(""))
		}
		return
	}
	if crt.IsCA() {
		x.c.Violation("a CA-signed certificate is itself a CA", det(""))
	}
	if crt.Issuer() != signer.fp {
		x.c.Violation("issued certificate does not name its signer as issuer", det(crt.Issuer()))
	}
	pool := c04Pool(x.c, signer.cert)
	if pool == nil {
		x.c.Broken("signer CA not accepted by AddCA")
	}
	// as returned by Sign, in the middle of its window
	mid := time.Unix((t.nb+t.na)/2, 0)
	st.verifyCalls++
	if _, err := pool.VerifyCertificate(mid, crt); err != nil {
		x.c.Violation("issued certificate does not verify against a pool containing its signer ("+how+"): "+c04ErrClass(err), det(fmt.Sprintf("t=%d: %v", mid.Unix(), err)))
		return
	}
	// as a peer would see it (PEM round trip), at the first and the last second of its window
	p, err := crt.MarshalPEM()
	var rt Certificate
	if err == nil {
		rt, _, err = UnmarshalCertificateFromPEM(p)
	}
	if err != nil {
		x.c.Violation("issued certificate cannot be encoded and decoded again ("+how+")", det(fmt.Sprint(err)))
		return
	}
	for _, sec := range []int64{t.nb, t.na} {
		st.verifyCalls++
		if _, err := pool.VerifyCertificate(time.Unix(sec, 0), rt); err != nil {
			x.c.Violation("issued certificate does not verify against a pool containing its signer ("+how+"): "+c04ErrClass(err), det(fmt.Sprintf("t=%d: %v", sec, err)))
			return
		}
	}
}

// one Sign / SignWith attempt judged against the reference
func (x *c04Ctx) attempt(st *c04Stats, how string, t *c04Spec, signer *c04CA, call func() (Certificate, error), detail func() map[string]any) (Certificate, error) {
	var signerSpec *c04Spec
	if signer != nil {
		signerSpec = &signer.spec
	}
	forbidden := c04Forbidden(t, signerSpec)
	var crt Certificate
	var err error
	func() {
		defer func() {
			if r := recover(); r != nil {
				st.panics++
				err = fmt.Errorf("panic: %v", r)
			}
		}()
		crt, err = call()
	}()
	st.signCalls++
	if len(forbidden) <= 1 {
		st.nontrivial++
	}
	st.signErrs[c04ErrClass(err)]++
	if err != nil {
		st.refused++
		if len(forbidden) == 0 {
			st.conformingRefused++
		}
		if len(forbidden) == 1 {
			st.refusedFor[forbidden[0]]++
		}
		return nil, err
	}
	st.signed++
	if len(forbidden) > 0 {
		d := detail()
		d["tbs"] = t.desc()
		d["how"] = how
		d["forbidden_by"] = forbidden
		x.c.Violation(how+" issues a certificate the statement forbids: "+strings.Join(forbidden, "+"), d)
	}
	x.checkIssued(st, how, crt, t, signer, len(forbidden) > 0, detail)
	return crt, nil
}

// ---------------------------------------------------------------------------------------------------------------
// alphabets (same shape as C01's; kept separate so the two checks stay independent)

func c04P(s ...string) []netip.Prefix {
	var out []netip.Prefix
	for _, x := range s {
		out = append(out, netip.MustParsePrefix(x))
	}
	return out
}

func c04Subsets(atoms []netip.Prefix, maxSize int) [][]netip.Prefix {
	var out [][]netip.Prefix
	for i := range atoms {
		out = append(out, []netip.Prefix{atoms[i]})
	}
	if maxSize >= 2 {
		for i := range atoms {
			for j := i + 1; j < len(atoms); j++ {
				out = append(out, []netip.Prefix{atoms[i], atoms[j]})
			}
		}
	}
	return out
}

func c04CANets(ver Version) [][]netip.Prefix {
	if ver == Version1 {
		return [][]netip.Prefix{nil, c04P("10.0.0.0/8"), c04P("10.1.0.0/16", "10.3.0.0/16")}
	}
	return [][]netip.Prefix{nil, c04P("10.0.0.0/8"), c04P("10.1.0.0/16", "fd00::/8")}
}

func c04CAUnsafe(ver Version, thorough bool) [][]netip.Prefix {
	out := [][]netip.Prefix{nil, c04P("192.168.0.0/16")}
	if thorough && ver == Version2 {
		out = append(out, c04P("192.168.0.0/16", "fc00::/7"))
	}
	return out
}

func c04LeafNets(ver Version, thorough bool) [][]netip.Prefix {
	v4 := c04P("10.1.0.5/24", "10.0.0.1/8", "10.1.0.1/16", "10.0.0.1/7", "11.0.0.1/24", "10.3.0.9/32")
	v6 := c04P("fd00::5/64", "fd00::1/8", "fd00::1/7", "fe80::1/64")
	if ver == Version1 {
		if thorough {
			return c04Subsets(v4, 2)
		}
		return append(c04Subsets(v4, 1), c04P("10.1.0.5/24", "11.0.0.1/24"), c04P("10.1.0.5/24", "10.3.0.9/32"))
	}
	if thorough {
		return c04Subsets(append(v4, v6...), 2)
	}
	out := c04Subsets(v4, 1)
	out = append(out, c04P("10.1.0.5/24", "11.0.0.1/24"))
	for _, p := range v6 {
		out = append(out, []netip.Prefix{v4[0], p})
	}
	return append(out, c04P("fd00::5/64"))
}

func c04LeafUnsafe(ver Version, thorough bool) [][]netip.Prefix {
	out := [][]netip.Prefix{nil}
	out = append(out, c04Subsets(c04P("192.168.1.0/24", "192.168.0.0/16", "192.168.0.0/15", "172.16.0.0/12"), 1)...)
	out = append(out, c04P("192.168.1.0/24", "172.16.0.0/12"))
	if thorough {
		out = append(out, c04P("192.168.1.0/24", "192.168.0.0/16"), c04P("192.168.0.0/16", "192.168.0.0/15"))
		if ver == Version2 {
			out = append(out, c04P("fd12::/16"), c04P("fc00::/7"), c04P("fc00::/6"), c04P("2001:db8::/32"), c04P("192.168.1.0/24", "fd12::/16"), c04P("192.168.1.0/24", "2001:db8::/32"))
		}
	}
	return out
}

// c04Structural: what the certificate format itself demands of a non-CA TBS (independent of any CA): v1 carries IPv4
// only; a v2 unsafe network needs an assigned address of the same family. TBS outside this are not part of the box.
func c04Structural(ver Version, nets, unsafe []netip.Prefix) bool {
	has4, has6 := false, false
	for _, n := range nets {
		if n.Addr().Is4() {
			has4 = true
		} else {
			has6 = true
		}
	}
	if ver == Version1 {
		for _, u := range unsafe {
			if !u.Addr().Is4() {
				return false
			}
		}
		return !has6 && has4
	}
	for _, u := range unsafe {
		if u.Addr().Is4() && !has4 || !u.Addr().Is4() && !has6 {
			return false
		}
	}
	return has4 || has6
}

// ---------------------------------------------------------------------------------------------------------------

func TestVerifC04(t *testing.T) {
	c := mc.Begin(t, "C04", "exploration")
	defer c.End()
	x := &c04Ctx{c: c, st: c04NewStats(), key: map[Curve]*c04Key{}, leafPub: map[Curve][]byte{}}
	curves := []Curve{Curve_CURVE25519, Curve_P256}
	for _, cu := range curves {
		x.key[cu] = c04NewKey(cu, 0x51)
	}
	x.leafPub[Curve_CURVE25519] = bytes.Repeat([]byte{0x42}, 32)
	x.leafPub[Curve_P256] = c04NewKey(Curve_P256, 0x44).pub
	thorough := c.Thorough()
	versions := []Version{Version1, Version2}
	// the lattice may use 60% of the soft budget; the rest is kept for the nebula-cert box
	budget := mc.Pick(c, 45.0, 900.0)
	if f, err := strconv.ParseFloat(os.Getenv("VERIF_BUDGET_S"), 64); err == nil && f > 0 {
		budget = f
	}
	latticeOut := func() bool { return c.OutOfTime() || c.Elapsed() > 0.6*budget }
	stop := latticeOut

	c.Assume("'succeeds only when' is read in one direction: a success outside the reference predicate is a violation; a refusal of a conforming, structurally valid TBS is only counted (conforming_refused) and guarded against vacuity, not reported")
	c.Assume("an empty group / network / unsafe-network list on the CA means no restriction; 'inside' = same family, prefix at least as long, equal on the CA's prefix bits")
	c.Assume("the signer's key is the CA's real key (Sign) or a lambda signing with it (SignWith); issuing with a key that does not belong to the signer certificate is caller misuse outside the statement")
	c.Assume("a panic inside Sign counts as 'did not succeed' (counted in panics), not as a violation of this property")
	c.Assume("crafted (non-genuine) lambda signatures in box 4 are judged for low-S only, not for verification")

	other := func(cu Curve) Curve {
		if cu == Curve_P256 {
			return Curve_CURVE25519
		}
		return Curve_P256
	}

	// ------------------------------------------------------------------ box 0: one TBS object, several issuances
	// A TBSCertificate is a caller-owned template: nothing says it may be signed only once. Every sequence of up to three
	// issuances of the SAME object by signers drawn from {unconstrained CA, constrained CA it conforms to, constrained CA it
	// does not conform to}, through Sign and SignWith, is judged issuance by issuance with the full post-conditions (issuer
	// names the signer of THIS issuance, verifies against a pool holding only that signer).
	{
		st := c04NewStats()
		var reuseSeq, reuseIssued int64
		for _, cv := range versions {
			for _, cu := range curves {
				cas := []*c04CA{
					x.mkCA(st, cv, cu, nil, nil, nil),
					x.mkCA(st, cv, cu, []string{"a", "b"}, nil, nil),
					x.mkCA(st, cv, cu, []string{"z"}, nil, nil), // refuses the template below (group a is outside)
				}
				for _, tv := range versions {
					for _, with := range []bool{false, true} {
						var seqs [][]int
						for a := 0; a < 3; a++ {
							seqs = append(seqs, []int{a})
							for b := 0; b < 3; b++ {
								seqs = append(seqs, []int{a, b})
								for d := 0; d < 3; d++ {
									seqs = append(seqs, []int{a, b, d})
								}
							}
						}
						for _, seq := range seqs {
							s := &c04Spec{ver: tv, curve: cu, groups: []string{"a"}, nets: c04P("10.1.0.5/24"), nb: 100, na: 200}
							tb := s.tbs("leaf", x.leafPub[cu])
							reuseSeq++
							for k, ci := range seq {
								ca := cas[ci]
								how := "Sign"
								if with {
									how = "SignWith"
								}
								how += fmt.Sprintf(" (issuance %d of one TBS object)", k+1)
								det := func() map[string]any {
									return map[string]any{"signer": ca.spec.desc(), "signers_of_this_TBS_object_so_far": fmt.Sprint(seq[:k+1])}
								}
								crt, _ := x.attempt(st, how, s, ca, func() (Certificate, error) {
									if with {
										return tb.SignWith(ca.cert, cu, ca.key.lambda())
									}
									return tb.Sign(ca.cert, cu, ca.key.raw)
								}, det)
								if crt != nil {
									reuseIssued++
								}
							}
						}
					}
				}
			}
		}
		x.merge(st)
		c.Set("tbs_object_reuse_sequences", reuseSeq)
		c.Set("tbs_object_reuse_issued", reuseIssued)
		c.Require(reuseIssued > reuseSeq, "TBS reuse box: only %d certificates issued over %d sequences", reuseIssued, reuseSeq)
	}

	// ------------------------------------------------------------------ box 2 + 3 + 4 first (small), then the lattice
	{
		st := c04NewStats()
		var lowSForced, rawHigh, rawLow, crafted, craftedSigned int64
		for _, cv := range versions {
			for _, cu := range curves {
				for _, constrained := range []bool{false, true} {
					var ca *c04CA
					if constrained {
						ca = x.mkCA(st, cv, cu, []string{"a", "b"}, c04CANets(cv)[2], c04P("192.168.0.0/16"))
					} else {
						ca = x.mkCA(st, cv, cu, nil, nil, nil)
					}
					// box 2: self-signing x IsCA, through Sign and SignWith
					for _, isCA := range []bool{true, false} {
						for _, tv := range versions {
							s := &c04Spec{ver: tv, curve: cu, groups: ca.spec.groups, nets: c04P("10.1.0.5/24"), unsafe: c04P("192.168.1.0/24"), nb: 100, na: 200, isCA: isCA}
							det := func() map[string]any { return map[string]any{"signer": "nil (self-sign)"} }
							x.attempt(st, "Sign(nil)", s, nil, func() (Certificate, error) { return s.tbs("self", ca.key.pub).Sign(nil, cu, ca.key.raw) }, det)
							x.attempt(st, "SignWith(nil)", s, nil, func() (Certificate, error) { return s.tbs("self", ca.key.pub).SignWith(nil, cu, ca.key.lambda()) }, det)
						}
					}
					// box 3: TBS of the other curve under this CA
					for _, tv := range versions {
						for _, conform := range []bool{true, false} {
							s := &c04Spec{ver: tv, curve: other(cu), groups: []string{"a"}, nets: c04P("10.1.0.5/24"), unsafe: c04P("192.168.1.0/24"), nb: 100, na: 200}
							if !conform {
								s.groups = []string{"a", "c"}
							}
							for _, arg := range curves {
								det := func() map[string]any {
									return map[string]any{"signer": ca.spec.desc(), "curve_argument": arg.String(), "key": "the CA's own " + cu.String() + " key"}
								}
								x.attempt(st, "Sign", s, ca, func() (Certificate, error) { return s.tbs("leaf", x.leafPub[s.curve]).Sign(ca.cert, arg, ca.key.raw) }, det)
								x.attempt(st, "SignWith", s, ca, func() (Certificate, error) { return s.tbs("leaf", x.leafPub[s.curve]).SignWith(ca.cert, arg, ca.key.lambda()) }, det)
							}
						}
					}
					// same curve, but the curve argument names the other one
					for _, tv := range versions {
						s := &c04Spec{ver: tv, curve: cu, groups: []string{"a"}, nets: c04P("10.1.0.5/24"), unsafe: c04P("192.168.1.0/24"), nb: 100, na: 200}
						crt, err := s.tbs("leaf", x.leafPub[cu]).SignWith(ca.cert, other(cu), ca.key.lambda())
						st.signCalls++
						if err == nil {
							x.c.Violation("SignWith accepts a curve argument that differs from the TBS curve", map[string]any{"tbs": s.desc(), "curve_argument": other(cu).String(), "issued": crt.String()})
						}
					}
					// box 4: P-256 low-S
					if cu != Curve_P256 {
						continue
					}
					reps := mc.Pick(c, 48, 512)
					for _, tv := range versions {
						s := &c04Spec{ver: tv, curve: cu, groups: []string{"a"}, nets: c04P("10.1.0.5/24"), unsafe: c04P("192.168.1.0/24"), nb: 100, na: 200}
						det := func() map[string]any { return map[string]any{"signer": ca.spec.desc()} }
						for r := 0; r < reps; r++ {
							// genuine signature, raw form recorded
							var raw []byte
							x.attempt(st, "SignWith(recording lambda)", s, ca, func() (Certificate, error) {
								return s.tbs("leaf", x.leafPub[cu]).SignWith(ca.cert, cu, func(b []byte) ([]byte, error) {
									sig, err := ca.key.lambda()(b)
									raw = sig
									return sig, err
								})
							}, det)
							if low, ok := c04LowS(raw); ok && low {
								rawLow++
							} else if ok {
								rawHigh++
							}
							x.attempt(st, "Sign", s, ca, func() (Certificate, error) { return s.tbs("leaf", x.leafPub[cu]).Sign(ca.cert, cu, ca.key.raw) }, det)
						}
						for r := 0; r < reps/4; r++ {
							for _, wantHigh := range []bool{true, false} {
								x.attempt(st, fmt.Sprintf("SignWith(lambda forcing high-S=%v)", wantHigh), s, ca, func() (Certificate, error) {
									return s.tbs("leaf", x.leafPub[cu]).SignWith(ca.cert, cu, func(b []byte) ([]byte, error) {
										sig, err := ca.key.lambda()(b)
										if err != nil {
											return nil, err
										}
										return c04WithS(sig, func(sv *big.Int) *big.Int {
											if (sv.Cmp(c04HalfN) > 0) != wantHigh {
												return new(big.Int).Sub(c04N, sv)
											}
											return sv
										}), nil
									})
								}, det)
								lowSForced++
							}
						}
						// crafted S values around the boundary (not genuine signatures: judged for low-S only)
						one := big.NewInt(1)
						svals := []*big.Int{one, big.NewInt(0x7f), big.NewInt(0x80), new(big.Int).Sub(c04HalfN, one), new(big.Int).Set(c04HalfN), new(big.Int).Add(c04HalfN, one),
							new(big.Int).Add(c04HalfN, big.NewInt(2)), new(big.Int).Sub(c04N, one), new(big.Int).Sub(c04N, big.NewInt(0x80)), new(big.Int).Lsh(one, 255),
							new(big.Int).Sub(c04N, new(big.Int).Lsh(one, 200)), new(big.Int).Lsh(one, 200)}
						for _, sv := range svals {
							crafted++
							crt, err := s.tbs("leaf", x.leafPub[cu]).SignWith(ca.cert, cu, func(b []byte) ([]byte, error) {
								sig, err := ca.key.lambda()(b)
								if err != nil {
									return nil, err
								}
								return c04WithS(sig, func(*big.Int) *big.Int { return sv }), nil
							})
							st.signCalls++
							if err != nil {
								continue
							}
							craftedSigned++
							st.signed++
							st.p256Sigs++
							if low, ok := c04LowS(crt.Signature()); !ok || !low {
								x.c.Violation("issued P-256 signature is not in low-S form (SignWith, lambda returning a crafted S)", map[string]any{"tbs": s.desc(), "lambda_S": sv.Text(16), "issued_signature": fmt.Sprintf("%x", crt.Signature())})
							}
						}
					}
				}
			}
		}
		x.merge(st)
		c.Set("p256_lambda_raw_high_s", rawHigh)
		c.Set("p256_lambda_raw_low_s", rawLow)
		c.Set("p256_forced_form_signatures", lowSForced)
		c.Set("p256_crafted_s_values", crafted)
		c.Set("p256_crafted_s_signed", craftedSigned)
		if c.Violations() == 0 {
			c.Require(rawHigh > 0 && rawLow > 0, "recording lambda saw high=%d low=%d raw signatures", rawHigh, rawLow)
			c.Require(craftedSigned > 0, "no crafted-S signature was accepted by SignWith")
		}
	}

	// ------------------------------------------------------------------ box 1: the lattice through Sign
	type item struct {
		tv, cv Version
		cu     Curve
		g      []string
		n, u   []netip.Prefix
	}
	var items []item
	for _, tv := range versions {
		for _, cv := range versions {
			for _, cu := range curves {
				if !thorough && (cu == Curve_P256) != (cv == Version2) {
					continue // quick: one curve per (TBS version, CA version) pair
				}
				for _, g := range [][]string{nil, {"a"}, {"a", "b"}} {
					for _, n := range c04CANets(cv) {
						for _, u := range c04CAUnsafe(cv, thorough) {
							items = append(items, item{tv, cv, cu, g, n, u})
						}
					}
				}
			}
		}
	}
	groups := [][]string{nil, {"a"}, {"b"}, {"c"}, {"a", "b"}, {"a", "c"}, {"b", "c"}, {"a", "b", "c"}}
	if !thorough {
		groups = [][]string{nil, {"a"}, {"b"}, {"a", "b"}, {"a", "c"}}
	}
	var tbsCount int64
	var mu sync.Mutex
	_, complete := mc.ParallelItems(len(items), 0, stop, func(i int, _ *mc.Enum) {
		it := items[i]
		st := c04NewStats()
		defer x.merge(st)
		ca := x.mkCA(st, it.cv, it.cu, it.g, it.n, it.u)
		var n int64
		defer func() {
			mu.Lock()
			tbsCount += n
			mu.Unlock()
		}()
		for _, lg := range groups {
			for _, ln := range c04LeafNets(it.tv, thorough) {
				for _, lu := range c04LeafUnsafe(it.tv, thorough) {
					if !c04Structural(it.tv, ln, lu) {
						continue
					}
					if latticeOut() {
						c.Capped("box 1 time budget")
						return
					}
					for _, nb := range []int64{99, 100, 101} {
						for _, na := range []int64{199, 200, 201} {
							for _, isCA := range []bool{false, true} {
								s := &c04Spec{ver: it.tv, curve: it.cu, groups: lg, nets: ln, unsafe: lu, nb: nb, na: na, isCA: isCA}
								n++
								crt, _ := x.attempt(st, "Sign", s, ca, func() (Certificate, error) { return s.tbs("leaf", x.leafPub[it.cu]).Sign(ca.cert, it.cu, ca.key.raw) },
									func() map[string]any { return map[string]any{"signer": ca.spec.desc()} })
								if crt != nil && n%4096 == 1 {
									c.Sample(map[string]any{"box": "lattice", "signer": ca.spec.desc(), "tbs": s.desc(), "result": "signed, verified at not_before / middle / not_after"})
								}
							}
						}
					}
				}
			}
		}
	})
	if !complete {
		c.Capped("box 1 time budget")
	}

	// ------------------------------------------------------------------ box 5: nebula-cert ca / sign (rest of the budget)
	c04CLI(c, x)

	// ------------------------------------------------------------------ evidence
	st := x.st
	c.Set("evaluations", st.signCalls+st.verifyCalls)
	c.Set("distinct_nontrivial", st.nontrivial)
	c.Set("rule", "cartesian products without repetition of (signer CA constraints, TBS fields, curve argument, signing path); Sign/SignWith attempts are counted as non-trivial when the reference allows issuing or forbids it for exactly one clause; P-256 repetitions (random nonces) and CLI runs are counted in their own keys, not here")
	c.Set("sign_calls", st.signCalls)
	c.Set("signed", st.signed)
	c.Set("refused", st.refused)
	c.Set("conforming_refused", st.conformingRefused)
	c.Set("verify_calls_on_issued", st.verifyCalls)
	c.Set("p256_signatures_checked_low_s", st.p256Sigs)
	c.Set("panics_counted_as_refusal", st.panics)
	c.Set("lattice_items", len(items))
	c.Set("lattice_tbs", tbsCount)
	c.Set("refused_for_exactly_this_clause", st.refusedFor)
	c.Set("sign_results", st.signErrs)
	c.Set("distinct_outcomes", len(st.signErrs))
	var ks []string
	for k := range st.refusedFor {
		ks = append(ks, k)
	}
	sort.Strings(ks)
	if c.Violations() == 0 {
		c.Require(st.signed > 100 && st.refused > 100, "signed=%d refused=%d", st.signed, st.refused)
		for _, k := range []string{"self-signed-non-ca", "ca-signed-by-ca", "starts-before-ca", "ends-after-ca", "group-outside-ca", "network-outside-ca", "unsafe-network-outside-ca"} {
			// the constraint clauses are only guaranteed to be hit when the lattice was not cut short by the soft budget
			c.Require(st.refusedFor[k] > 0 || (!complete && k != "self-signed-non-ca"), "no TBS refused solely for %q (have %v)", k, ks)
		}
		c.Require(st.conformingRefused*10 < st.signed, "too many conforming TBS refused: %d of %d signed (signer too strict: the check would be vacuous)", st.conformingRefused, st.signed)
		c.Require(st.p256Sigs > 100, "only %d P-256 signatures", st.p256Sigs)
		c.Require(len(st.signErrs) >= 6, "only %d distinct Sign results", len(st.signErrs))
	}
}
