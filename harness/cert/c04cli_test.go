//go:build verif

package cert

import (
	"bytes"
	"fmt"
	"net/netip"
	"os"
	"os/exec"
	"path/filepath"
	"runtime"
	"strings"
	"sync"
	"time"

	"github.com/slackhq/nebula/zzverif/mc"
)

// C04, box 5 — the nebula-cert ca / sign commands.
//
// cmd/nebula-cert is package main, so its functions cannot be called from a test in package cert (one check = one
// package). Instead the REAL command is built from the tree under test (same overlay as the check, including a planted
// edit) into a scratch directory under /verif/.build and executed: `ca` for every CA constraint combination, `sign`
// for a lattice of requests. Oracle: exit status 0 => the reference predicate allows issuing; the written certificate
// decodes, is not a CA, stays inside the decoded CA certificate by the reference predicate, verifies against a pool
// holding that CA now, and carries a low-S signature on P-256. `ca` output is a self-signed CA (low-S on P-256).

type c04CLICA struct {
	ver      int
	curve    string
	groups   string
	nets     string
	unsafe   string
	crt, key string
	cert     Certificate
	spec     c04Spec
}

func c04SplitPrefixes(s string) []netip.Prefix {
	var out []netip.Prefix
	for _, f := range strings.Split(s, ",") {
		if f = strings.TrimSpace(f); f != "" {
			out = append(out, netip.MustParsePrefix(f))
		}
	}
	return out
}

func c04SplitGroups(s string) []string {
	var out []string
	for _, f := range strings.Split(s, ",") {
		if f = strings.TrimSpace(f); f != "" {
			out = append(out, f)
		}
	}
	return out
}

func c04SpecOf(crt Certificate) c04Spec {
	return c04Spec{ver: crt.Version(), curve: crt.Curve(), groups: crt.Groups(), nets: crt.Networks(), unsafe: crt.UnsafeNetworks(),
		nb: crt.NotBefore().Unix(), na: crt.NotAfter().Unix(), isCA: crt.IsCA()}
}

func c04CLI(c *mc.Check, x *c04Ctx) {
	wd, err := os.Getwd()
	if err != nil {
		c.Broken("getwd: %v", err)
	}
	repo := filepath.Dir(wd) // the test runs in <repo>/cert
	if _, err := os.Stat(filepath.Join(repo, "cmd", "nebula-cert", "main.go")); err != nil {
		c.Broken("cannot locate cmd/nebula-cert from %s: %v", wd, err)
	}
	if err := os.MkdirAll("/verif/.build", 0o755); err != nil {
		c.Broken("mkdir: %v", err)
	}
	dir, err := os.MkdirTemp("/verif/.build", "c04cli-")
	if err != nil {
		c.Broken("mkdtemp: %v", err)
	}
	defer os.RemoveAll(dir)
	bin := filepath.Join(dir, "nebula-cert")
	args := []string{"build", "-o", bin}
	if ov := os.Getenv("VERIF_EXTRA_OVERLAY"); ov != "" { // planted-edit demo: the command must be built from the edited tree too
		args = append(args, "-overlay", ov)
	}
	args = append(args, "./cmd/nebula-cert")
	t0 := time.Now()
	cmd := exec.Command("go", args...)
	cmd.Dir = repo
	if out, err := cmd.CombinedOutput(); err != nil {
		c.Broken("go build ./cmd/nebula-cert failed: %v\n%s", err, out)
	}
	c.Set("cli_build_s", float64(int(time.Since(t0).Seconds()*10))/10)
	// The soft budget is shared with the lattice and the build above; the command box is granted a minimum slice after
	// the build so that a slow build (cold cache, busy machine) does not silently empty it.
	built := time.Now()
	grace := mc.Pick(c, 12*time.Second, 120*time.Second)
	cliOut := func() bool { return c.OutOfTime() && time.Since(built) > grace }

	run := func(a ...string) (ok bool, output string) {
		cm := exec.Command(bin, a...)
		cm.Dir = dir
		cm.Env = []string{"PATH=/usr/bin:/bin", "HOME=" + dir, "GOMAXPROCS=2", "GOGC=off"} // short-lived process: keep the Go runtime cheap
		var buf bytes.Buffer
		cm.Stdout, cm.Stderr = &buf, &buf
		err := cm.Run()
		if err != nil {
			if _, isExit := err.(*exec.ExitError); !isExit {
				c.Broken("cannot execute nebula-cert: %v", err)
			}
		}
		return err == nil, buf.String()
	}
	readCert := func(path string) (Certificate, error) {
		b, err := os.ReadFile(path)
		if err != nil {
			return nil, err
		}
		crt, rest, err := UnmarshalCertificateFromPEM(b)
		if err != nil {
			return nil, err
		}
		if len(bytes.TrimSpace(rest)) != 0 {
			return nil, fmt.Errorf("more than one PEM block")
		}
		return crt, nil
	}

	thorough := c.Thorough()
	var mu sync.Mutex
	var caRuns, caOK, signRuns, signOK, signRefused, conformingRefused, p256Sigs int64
	refusedFor := map[string]int64{}

	// ---- ca
	var cas []*c04CLICA
	for _, ver := range []int{1, 2} {
		for _, curve := range []string{"25519", "P256"} {
			for _, g := range []string{"", "a,b"} {
				nets := []string{"", "10.1.0.0/16"}
				if ver == 2 && thorough {
					nets = append(nets, "10.1.0.0/16,fd00::/8")
				}
				for _, n := range nets {
					for _, u := range []string{"", "192.168.0.0/16"} {
						cas = append(cas, &c04CLICA{ver: ver, curve: curve, groups: g, nets: n, unsafe: u})
					}
				}
			}
		}
	}
	checkCA := func(ca *c04CLICA, idx string) bool {
		ca.crt, ca.key = filepath.Join(dir, "ca"+idx+".crt"), filepath.Join(dir, "ca"+idx+".key")
		a := []string{"ca", "-name", "ca" + idx, "-version", fmt.Sprint(ca.ver), "-curve", ca.curve, "-duration", "2h", "-out-crt", ca.crt, "-out-key", ca.key}
		if ca.groups != "" {
			a = append(a, "-groups", ca.groups)
		}
		if ca.nets != "" {
			a = append(a, "-networks", ca.nets)
		}
		if ca.unsafe != "" {
			a = append(a, "-unsafe-networks", ca.unsafe)
		}
		ok, out := run(a...)
		mu.Lock()
		caRuns++
		mu.Unlock()
		det := map[string]any{"command": strings.Join(a, " "), "output": out}
		if !ok {
			c.Broken("nebula-cert %s failed: %s", strings.Join(a, " "), out)
		}
		crt, err := readCert(ca.crt)
		if err != nil {
			c.Violation("nebula-cert ca writes a certificate that does not decode", det)
			return false
		}
		if !crt.IsCA() || crt.Issuer() != "" {
			c.Violation("nebula-cert ca produced a certificate that is not a self-signed CA", det)
			return false
		}
		p := NewCAPool()
		if err := p.AddCA(crt); err != nil {
			det["error"] = err.Error()
			c.Violation("nebula-cert ca: the CA certificate is not accepted by a CA pool (self-signature / validity)", det)
			return false
		}
		if crt.Curve() == Curve_P256 {
			mu.Lock()
			p256Sigs++
			mu.Unlock()
			if low, parsed := c04LowS(crt.Signature()); !parsed || !low {
				det["signature"] = fmt.Sprintf("%x", crt.Signature())
				c.Violation("issued P-256 signature is not in low-S form (nebula-cert ca)", det)
			}
		}
		ca.cert = crt
		ca.spec = c04SpecOf(crt)
		mu.Lock()
		caOK++
		mu.Unlock()
		return true
	}

	// ---- sign requests
	type req struct {
		ca                           *c04CLICA
		version                      int // 0 = flag absent (CA's version)
		groups, nets, unsafe, durata string
	}
	var reqs []req
	workers := runtime.GOMAXPROCS(0)
	{
		var wg sync.WaitGroup
		sem := make(chan struct{}, workers)
		for i, ca := range cas {
			wg.Add(1)
			sem <- struct{}{}
			go func() {
				defer wg.Done()
				defer func() { <-sem }()
				checkCA(ca, fmt.Sprint(i))
			}()
		}
		wg.Wait()
	}
	// P-256 nonces are random: repeat the P-256 `ca` command
	{
		reps := mc.Pick(c, 16, 160)
		var wg sync.WaitGroup
		sem := make(chan struct{}, workers)
		for r := 0; r < reps; r++ {
			wg.Add(1)
			sem <- struct{}{}
			go func() {
				defer wg.Done()
				defer func() { <-sem }()
				checkCA(&c04CLICA{ver: 1 + r%2, curve: "P256"}, fmt.Sprintf("rep%d", r))
			}()
		}
		wg.Wait()
	}
	for _, ca := range cas {
		if ca.cert == nil {
			continue
		}
		versions := []int{0}
		durs := []string{"", "3h"}
		groups := []string{"", "a", "a,c"}
		nets := []string{"10.1.0.5/24", "10.0.0.1/8", "11.0.0.1/24"}
		unsafe := []string{"", "192.168.1.0/24", "172.16.0.0/12"}
		if thorough {
			versions = []int{0, 3 - ca.ver} // flag absent (CA's version) and the other version
			durs = []string{"", "1h", "3h"}
			groups = append(groups, "b")
			nets = append(nets, "10.1.0.1/16", "10.1.0.5/24,fd00::5/64", "10.1.0.5/24,fe80::1/64")
			unsafe = append(unsafe, "192.168.0.0/16", "192.168.0.0/15")
		}
		for _, v := range versions {
			for _, d := range durs {
				for _, g := range groups {
					for _, n := range nets {
						for _, u := range unsafe {
							eff := v
							if eff == 0 {
								eff = ca.ver
							}
							if eff == 1 && strings.Contains(n, ":") {
								continue // v1 cannot carry IPv6: the command refuses for a format reason, not a CA reason
							}
							reqs = append(reqs, req{ca, v, g, n, u, d})
						}
					}
				}
			}
		}
	}
	doSign := func(i int, r req) {
		crtPath, keyPath := filepath.Join(dir, fmt.Sprintf("h%d.crt", i)), filepath.Join(dir, fmt.Sprintf("h%d.key", i))
		a := []string{"sign", "-ca-crt", r.ca.crt, "-ca-key", r.ca.key, "-name", fmt.Sprintf("h%d", i), "-networks", r.nets, "-out-crt", crtPath, "-out-key", keyPath}
		if r.version != 0 {
			a = append(a, "-version", fmt.Sprint(r.version))
		}
		if r.groups != "" {
			a = append(a, "-groups", r.groups)
		}
		if r.unsafe != "" {
			a = append(a, "-unsafe-networks", r.unsafe)
		}
		if r.durata != "" {
			a = append(a, "-duration", r.durata)
		}
		ok, out := run(a...)
		defer os.Remove(crtPath)
		defer os.Remove(keyPath)
		// the request as the reference sees it: validity is [now, now+duration]; the CA lives for 2h from its creation,
		// "3h" ends after it, "1h" and the default (CA end - 1s) do not
		want := c04Spec{curve: r.ca.spec.curve, groups: c04SplitGroups(r.groups), nets: c04SplitPrefixes(r.nets), unsafe: c04SplitPrefixes(r.unsafe), nb: r.ca.spec.nb, na: r.ca.spec.na}
		if r.durata == "3h" {
			want.na = r.ca.spec.na + 1
		}
		forbidden := c04Forbidden(&want, &r.ca.spec)
		det := map[string]any{"ca_command_flags": map[string]any{"version": r.ca.ver, "curve": r.ca.curve, "groups": r.ca.groups, "networks": r.ca.nets, "unsafe_networks": r.ca.unsafe, "duration": "2h"},
			"sign_command": strings.Join(a[1:], " "), "output": out, "forbidden_by": forbidden}
		mu.Lock()
		signRuns++
		if ok {
			signOK++
		} else {
			signRefused++
			if len(forbidden) == 0 {
				conformingRefused++
			}
			if len(forbidden) == 1 {
				refusedFor[forbidden[0]]++
			}
		}
		mu.Unlock()
		if !ok {
			return
		}
		if len(forbidden) > 0 {
			c.Violation("nebula-cert sign issues a certificate the statement forbids: "+strings.Join(forbidden, "+"), det)
		}
		crt, err := readCert(crtPath)
		if err != nil {
			det["error"] = err.Error()
			c.Violation("nebula-cert sign exits 0 but the written certificate does not decode", det)
			return
		}
		got := c04SpecOf(crt)
		det["issued"] = got.desc()
		if crt.Curve() == Curve_P256 {
			mu.Lock()
			p256Sigs++
			mu.Unlock()
			if low, parsed := c04LowS(crt.Signature()); !parsed || !low {
				det["signature"] = fmt.Sprintf("%x", crt.Signature())
				c.Violation("issued P-256 signature is not in low-S form (nebula-cert sign)", det)
			}
		}
		if len(forbidden) > 0 {
			return
		}
		if f := c04Forbidden(&got, &r.ca.spec); len(f) > 0 {
			det["issued_exceeds"] = f
			c.Violation("nebula-cert sign wrote a certificate that exceeds its CA: "+strings.Join(f, "+"), det)
			return
		}
		pool := NewCAPool()
		if err := pool.AddCA(r.ca.cert); err != nil {
			c.Broken("CLI CA not accepted: %v", err)
		}
		if _, err := pool.VerifyCertificate(time.Now(), crt); err != nil {
			det["error"] = err.Error()
			c.Violation("issued certificate does not verify against a pool containing its signer (nebula-cert sign): "+c04ErrClass(err), det)
		}
		if i%97 == 0 {
			c.Sample(map[string]any{"box": "nebula-cert", "ca_flags": det["ca_command_flags"], "sign": det["sign_command"], "issued": got.desc()})
		}
	}
	capped := false
	{
		// visit the requests in a fixed stride order, so that a run cut short by the budget still spreads over all CAs
		// and all request fields instead of exhausting the first CA only
		stride := 1009
		gcd := func(a, b int) int {
			for b != 0 {
				a, b = b, a%b
			}
			return a
		}
		for len(reqs) > 0 && gcd(stride, len(reqs)) != 1 {
			stride++
		}
		var wg sync.WaitGroup
		sem := make(chan struct{}, workers)
		for k := range reqs {
			i := (k * stride) % len(reqs)
			r := reqs[i]
			if cliOut() {
				capped = true
				break
			}
			wg.Add(1)
			sem <- struct{}{}
			go func() {
				defer wg.Done()
				defer func() { <-sem }()
				doSign(i, r)
			}()
		}
		wg.Wait()
		if capped {
			c.Capped("nebula-cert box time budget")
		}
	}
	x.mu.Lock()
	x.st.p256Sigs += p256Sigs
	x.mu.Unlock()
	c.Set("cli_ca_runs", caRuns)
	c.Set("cli_ca_ok", caOK)
	c.Set("cli_sign_runs", signRuns)
	c.Set("cli_sign_issued", signOK)
	c.Set("cli_sign_refused", signRefused)
	c.Set("cli_sign_conforming_refused", conformingRefused)
	c.Set("cli_refused_for_exactly_this_clause", refusedFor)
	c.Set("cli_sign_requests_in_box", len(reqs))
	if c.Violations() == 0 && !capped { // a run cut short by the soft budget proves less but is not a broken harness
		c.Require(caOK >= int64(len(cas)), "only %d of %d CAs created", caOK, len(cas))
		c.Require(signOK > 20 && signRefused > 20, "nebula-cert sign: issued=%d refused=%d", signOK, signRefused)
		c.Require(conformingRefused*10 < signOK+1, "nebula-cert sign refused %d conforming requests (issued %d)", conformingRefused, signOK)
		for _, k := range []string{"ends-after-ca", "group-outside-ca", "network-outside-ca", "unsafe-network-outside-ca"} {
			c.Require(refusedFor[k] > 0, "nebula-cert sign: no request refused solely for %q", k)
		}
	}
}
