//go:build verif

package mc

import (
	"fmt"
	"runtime"
	"sync"
)

// Enum is an odometer over the choice tree of a body function. The body calls Choose(n) any number of times; ForAll
// re-runs the body once per leaf of the tree (depth-first, choice 0 first at every new point), so every combination
// of choices is executed exactly once. The body must be deterministic given its choices: a replayed prefix whose
// arity changed is a hard error.
type Enum struct {
	choices []int
	limits  []int
	pos     int
	bound   int // max number of non-zero choices (<0: unbounded)
	dev     int
	// shard: first-level split
	shardN, shardI int
}

// Choose returns a value in [0,n). n must be >= 1.
func (e *Enum) Choose(n int) int {
	if n < 1 {
		panic("mc.Enum.Choose: n < 1")
	}
	if e.pos < len(e.choices) {
		if e.limits[e.pos] >= 0 && e.limits[e.pos] != n {
			panic(fmt.Sprintf("mc.Enum: nondeterministic body: arity at point %d was %d, now %d", e.pos, e.limits[e.pos], n))
		}
		v := e.choices[e.pos]
		e.pos++
		if v != 0 {
			e.dev++
		}
		return v
	}
	e.choices = append(e.choices, 0)
	e.limits = append(e.limits, n)
	e.pos++
	return 0
}

// Pick chooses one element of xs.
func PickOf[T any](e *Enum, xs []T) T { return xs[e.Choose(len(xs))] }

// Bool chooses false first.
func (e *Enum) Bool() bool { return e.Choose(2) == 1 }

// Trace returns a copy of the current choice vector (for samples and replay files).
func (e *Enum) Trace() []int { return append([]int{}, e.choices[:e.pos]...) }

// Deviations is the number of non-default choices so far.
func (e *Enum) Deviations() int { return e.dev }

func (e *Enum) next() bool {
	// truncate to the consumed prefix, then increment with carry
	e.choices = e.choices[:e.pos]
	e.limits = e.limits[:e.pos]
	for i := len(e.choices) - 1; i >= 0; i-- {
		lim := e.limits[i]
		if e.bound >= 0 {
			// count deviations before i
			d := 0
			for j := 0; j < i; j++ {
				if e.choices[j] != 0 {
					d++
				}
			}
			if e.choices[i] == 0 && d >= e.bound {
				lim = 1
			}
		}
		if e.choices[i]+1 < lim {
			e.choices[i]++
			e.choices = e.choices[:i+1]
			e.limits = e.limits[:i+1]
			return true
		}
	}
	return false
}

// ForAll runs body for every choice vector. stop (may be nil) is polled between runs; when it returns true the
// enumeration ends early and ForAll returns complete=false.
func ForAll(body func(e *Enum), stop func() bool) (runs int64, complete bool) {
	return ForAllBounded(-1, body, stop)
}

// ForAllBounded is ForAll restricted to vectors with at most bound non-zero choices (deviation bounding).
func ForAllBounded(bound int, body func(e *Enum), stop func() bool) (runs int64, complete bool) {
	e := &Enum{bound: bound}
	for {
		e.pos, e.dev = 0, 0
		body(e)
		runs++
		if !e.next() {
			return runs, true
		}
		if stop != nil && runs&0x3ff == 0 && stop() {
			return runs, false
		}
	}
}

// Replay runs body once on a recorded choice vector (no exploration). Extra points past the vector take choice 0.
func Replay(trace []int, body func(e *Enum)) {
	e := &Enum{bound: -1}
	e.choices = append([]int{}, trace...)
	e.limits = make([]int, len(trace))
	for i := range e.limits {
		e.limits[i] = 1 << 30
	}
	e.replayLoose()
	body(e)
}

func (e *Enum) replayLoose() {
	// in replay mode arity checks are relaxed: limits are rewritten on the fly
	for i := range e.limits {
		e.limits[i] = -1
	}
}

// ParallelFirst enumerates in parallel: the first Choose of the body selects one of `n` top-level items which are
// spread over workers goroutines; each worker runs an independent ForAll for its items. mk builds the per-item body.
// The bodies must not share mutable state other than the Check (whose methods are safe for concurrent use).
func ParallelItems(n, workers int, stop func() bool, item func(i int, e *Enum)) (runs int64, complete bool) {
	if workers <= 0 {
		workers = runtime.GOMAXPROCS(0)
	}
	var mu sync.Mutex
	next := 0
	complete = true
	var wg sync.WaitGroup
	for w := 0; w < workers; w++ {
		wg.Add(1)
		go func() {
			defer wg.Done()
			for {
				mu.Lock()
				i := next
				next++
				mu.Unlock()
				if i >= n {
					return
				}
				if stop != nil && stop() {
					mu.Lock()
					complete = false
					mu.Unlock()
					return
				}
				r, ok := ForAll(func(e *Enum) { item(i, e) }, stop)
				mu.Lock()
				runs += r
				if !ok {
					complete = false
				}
				mu.Unlock()
			}
		}()
	}
	wg.Wait()
	return
}
