//go:build verif

package mc

import (
	"runtime"
	"sync"
)

// BFSResult summarises an explicit-state search.
type BFSResult struct {
	States      int64 // distinct canonical states
	Transitions int64 // executed (history -> state) replays, i.e. real handler-call sequences
	MaxDepth    int
	Exhaustive  bool // frontier emptied before any cap
	Shortest    [][]string
	Deepest     [][]string
}

// BFSConfig drives BFSReplay.
//
// Run must build FRESH real objects, replay hist on them (every event is a call into the implementation), evaluate the
// property's invariants (reporting through Check.Violation) and return the canonical key of the reached state plus the
// menu of events enabled in it. A state is identified by its key; the first history that reaches a key represents it.
// ok=false means the history is not executable (menu changed: nondeterminism) and is a hard harness error.
type BFSConfig[E any] struct {
	MaxDepth int
	Workers  int // 0 = GOMAXPROCS; 1 when Run touches process-global state
	Run      func(hist []E) (key string, menu []E)
	Label    func(E) string
	Stop     func() bool
}

// BFSReplay performs breadth-first search where a state is the shortest event history that reaches it.
func BFSReplay[E any](c *Check, cfg BFSConfig[E]) BFSResult {
	workers := cfg.Workers
	if workers <= 0 {
		workers = runtime.GOMAXPROCS(0)
	}
	label := func(h []E) []string {
		out := make([]string, len(h))
		for i, e := range h {
			out[i] = cfg.Label(e)
		}
		return out
	}
	type node struct {
		hist []E
		menu []E
	}
	var res BFSResult
	seen := map[string]struct{}{}
	k0, m0 := cfg.Run(nil)
	res.Transitions++
	seen[k0] = struct{}{}
	res.States = 1
	frontier := []node{{nil, m0}}
	res.Exhaustive = true
	for depth := 0; len(frontier) > 0; depth++ {
		if depth >= cfg.MaxDepth {
			// states at MaxDepth are checked but not expanded
			nonEmpty := false
			for _, n := range frontier {
				if len(n.menu) > 0 {
					nonEmpty = true
					break
				}
			}
			if nonEmpty {
				res.Exhaustive = false
				c.Capped("bfs depth cap")
			}
			break
		}
		type job struct {
			parent int
			ev     int
		}
		var jobs []job
		for i, n := range frontier {
			for j := range n.menu {
				jobs = append(jobs, job{i, j})
			}
		}
		type out struct {
			key  string
			menu []E
			done bool
		}
		outs := make([]out, len(jobs))
		var wg sync.WaitGroup
		var mu sync.Mutex
		next := 0
		stopped := false
		for w := 0; w < workers; w++ {
			wg.Add(1)
			go func() {
				defer wg.Done()
				for {
					mu.Lock()
					i := next
					next++
					st := stopped
					mu.Unlock()
					if i >= len(jobs) || st {
						return
					}
					if cfg.Stop != nil && cfg.Stop() {
						mu.Lock()
						stopped = true
						mu.Unlock()
						return
					}
					jb := jobs[i]
					p := frontier[jb.parent]
					h := make([]E, len(p.hist)+1)
					copy(h, p.hist)
					h[len(p.hist)] = p.menu[jb.ev]
					k, m := cfg.Run(h)
					outs[i] = out{k, m, true}
				}
			}()
		}
		wg.Wait()
		var nf []node
		for i, o := range outs {
			if !o.done {
				continue
			}
			res.Transitions++
			if _, ok := seen[o.key]; ok {
				continue
			}
			seen[o.key] = struct{}{}
			res.States++
			jb := jobs[i]
			p := frontier[jb.parent]
			h := make([]E, len(p.hist)+1)
			copy(h, p.hist)
			h[len(p.hist)] = p.menu[jb.ev]
			nf = append(nf, node{h, o.menu})
			res.MaxDepth = depth + 1
			if len(res.Shortest) < 3 {
				res.Shortest = append(res.Shortest, label(h))
			}
			res.Deepest = append(res.Deepest, label(h))
			if len(res.Deepest) > 3 {
				res.Deepest = res.Deepest[1:]
			}
		}
		if stopped {
			res.Exhaustive = false
			c.Capped("bfs time budget")
			break
		}
		frontier = nf
	}
	c.Add("states", res.States)
	c.Add("transitions", res.Transitions)
	c.Add("traces_validated_against_impl", res.Transitions)
	if d := c.Counter("max_depth"); int64(res.MaxDepth) > d.Load() {
		d.Store(int64(res.MaxDepth))
	}
	for _, s := range res.Shortest {
		c.Sample(s)
	}
	for _, s := range res.Deepest {
		c.Sample(s)
	}
	return res
}
