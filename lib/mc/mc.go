//go:build verif

// Package mc is the small model-checking support library shared by every harness in /verif.
// It is injected into the module as github.com/slackhq/nebula/zzverif/mc through `go test -overlay`.
//
// It provides: the Check object (tier/seed/budget, violation + known-finding handling, evidence writer),
// an exhaustive choice enumerator (odometer DFS with optional deviation bound) and a BFS-by-replay explorer.
package mc

import (
	"crypto/sha256"
	"encoding/hex"
	"encoding/json"
	"fmt"
	"os"
	"path/filepath"
	"sort"
	"strconv"
	"strings"
	"sync"
	"sync/atomic"
	"testing"
	"time"
)

const verifRoot = "/verif"

// Check carries the state of one property check run.
type Check struct {
	T     testing.TB
	ID    string
	Level string // exploration | fault_enumeration | model_checking

	start    time.Time
	deadline time.Time
	tier     string
	seed     int64

	mu          sync.Mutex
	cov         map[string]any
	counters    map[string]*atomic.Int64
	assumptions []string
	samplesHead []any
	samplesTail []any
	distinct    map[string]map[string]struct{}
	violations  int
	violSigs    map[string]struct{}
	knownHit    map[string]struct{}
	known       []knownFinding
	capped      atomic.Bool
	ended       bool
}

type knownFinding struct {
	Property  string `json:"property"`
	Signature string `json:"signature"`
	What      string `json:"what"`
}

type knownFile struct {
	Findings []knownFinding `json:"findings"`
	Fixed    []string       `json:"fixed"`
}

// Begin starts a check. level is one of the EVIDENCE schema levels.
func Begin(t testing.TB, id, level string) *Check {
	c := &Check{T: t, ID: id, Level: level, start: time.Now()}
	c.tier = os.Getenv("VERIF_TIER")
	if c.tier != "thorough" {
		c.tier = "quick"
	}
	if s := os.Getenv("VERIF_SEED"); s != "" {
		c.seed, _ = strconv.ParseInt(s, 10, 64)
	}
	budget := 45.0
	if c.tier == "thorough" {
		budget = 900
	}
	if s := os.Getenv("VERIF_BUDGET_S"); s != "" {
		if f, err := strconv.ParseFloat(s, 64); err == nil && f > 0 {
			budget = f
		}
	}
	c.deadline = c.start.Add(time.Duration(budget * float64(time.Second)))
	c.cov = map[string]any{}
	c.counters = map[string]*atomic.Int64{}
	c.distinct = map[string]map[string]struct{}{}
	c.violSigs = map[string]struct{}{}
	c.knownHit = map[string]struct{}{}
	if b, err := os.ReadFile(filepath.Join(verifRoot, "known_findings.json")); err == nil {
		var kf knownFile
		if err := json.Unmarshal(b, &kf); err != nil {
			t.Fatalf("known_findings.json: %v", err)
		}
		for _, f := range kf.Findings {
			if f.Property == id {
				c.known = append(c.known, f)
			}
		}
	}
	return c
}

func (c *Check) Tier() string     { return c.tier }
func (c *Check) Thorough() bool   { return c.tier == "thorough" }
func (c *Check) Seed() int64      { return c.seed }
func (c *Check) Elapsed() float64 { return time.Since(c.start).Seconds() }

// Pick returns q in quick tier and th in thorough tier.
func Pick[T any](c *Check, q, th T) T {
	if c.Thorough() {
		return th
	}
	return q
}

// OutOfTime reports whether the soft budget is exhausted. A harness that stops because of it must call Capped.
func (c *Check) OutOfTime() bool { return time.Now().After(c.deadline) }

// Capped records that some cap (time, depth, count) cut the enumeration short: exhaustive becomes false.
func (c *Check) Capped(what string) {
	if !c.capped.Swap(true) {
		c.Set("cap_hit", what)
	}
}

// Counter returns a named atomic counter that ends up in coverage.
func (c *Check) Counter(name string) *atomic.Int64 {
	c.mu.Lock()
	defer c.mu.Unlock()
	x := c.counters[name]
	if x == nil {
		x = new(atomic.Int64)
		c.counters[name] = x
	}
	return x
}

func (c *Check) Add(name string, n int64) { c.Counter(name).Add(n) }

// Set stores an arbitrary coverage key.
func (c *Check) Set(key string, v any) {
	c.mu.Lock()
	c.cov[key] = v
	c.mu.Unlock()
}

func (c *Check) Assume(s string) {
	c.mu.Lock()
	c.assumptions = append(c.assumptions, s)
	c.mu.Unlock()
}

// Sample keeps the first 3 and the last 3 samples offered.
func (c *Check) Sample(x any) {
	c.mu.Lock()
	defer c.mu.Unlock()
	if len(c.samplesHead) < 3 {
		c.samplesHead = append(c.samplesHead, x)
		return
	}
	c.samplesTail = append(c.samplesTail, x)
	if len(c.samplesTail) > 3 {
		c.samplesTail = c.samplesTail[1:]
	}
}

// SampleEvery offers x as a sample only when n is a power of two (cheap thinning for hot loops).
func (c *Check) SampleEvery(n int64, mk func() any) {
	if n&(n-1) == 0 {
		c.Sample(mk())
	}
}

// Distinct records a value in the named distinct-set and returns true when it was new.
func (c *Check) Distinct(set, v string) bool {
	c.mu.Lock()
	defer c.mu.Unlock()
	m := c.distinct[set]
	if m == nil {
		m = map[string]struct{}{}
		c.distinct[set] = m
	}
	if _, ok := m[v]; ok {
		return false
	}
	m[v] = struct{}{}
	return true
}

func (c *Check) DistinctCount(set string) int {
	c.mu.Lock()
	defer c.mu.Unlock()
	return len(c.distinct[set])
}

// Violation reports a property violation with a stable signature (what fails, not how it was found) and a
// replayable detail object. Signatures listed in known_findings.json print KNOWN-FINDING once and are not counted.
func (c *Check) Violation(sig string, detail any) {
	c.mu.Lock()
	defer c.mu.Unlock()
	for _, k := range c.known {
		if k.Signature == sig {
			if _, ok := c.knownHit[sig]; !ok {
				c.knownHit[sig] = struct{}{}
				fmt.Printf("KNOWN-FINDING: property=%s %s [%s]\n", c.ID, k.What, sig)
			}
			return
		}
	}
	c.violations++
	if _, ok := c.violSigs[sig]; ok {
		return // one replay file and one line per signature
	}
	c.violSigs[sig] = struct{}{}
	if len(c.violSigs) > 20 {
		return
	}
	h := sha256.Sum256([]byte(sig))
	dir := filepath.Join(verifRoot, "replays", c.ID)
	_ = os.MkdirAll(dir, 0o755)
	path := filepath.Join(dir, hex.EncodeToString(h[:6])+".json")
	b, err := json.MarshalIndent(map[string]any{"property": c.ID, "signature": sig, "tier": c.tier, "detail": detail}, "", " ")
	if err != nil {
		b = []byte(fmt.Sprintf(`{"property":%q,"signature":%q,"detail":%q}`, c.ID, sig, fmt.Sprint(detail)))
	}
	_ = os.WriteFile(path, b, 0o644)
	fmt.Printf("VIOLATION property=%s replay=%s\n", c.ID, path)
	fmt.Printf("  signature: %s\n", sig)
}

func (c *Check) Violations() int {
	c.mu.Lock()
	defer c.mu.Unlock()
	return c.violations
}

// Broken aborts the check as a harness fault (exit 2 from the driver): never a VIOLATION.
func (c *Check) Broken(format string, args ...any) {
	fmt.Printf("HARNESS-BROKEN property=%s %s\n", c.ID, fmt.Sprintf(format, args...))
	c.T.Fatalf("harness broken: "+format, args...)
}

// Require is a vacuity guard: the harness itself must have reached cond.
func (c *Check) Require(cond bool, format string, args ...any) {
	if !cond {
		c.Broken("vacuity guard: "+format, args...)
	}
}

// End writes the evidence file and fails the test when violations were found.
// evaluations / distinctNontrivial are for exploration-style levels; for model_checking also set
// states/transitions/traces via SetMC.
func (c *Check) End() {
	c.mu.Lock()
	if c.ended {
		c.mu.Unlock()
		return
	}
	c.ended = true
	cov := map[string]any{}
	for k, v := range c.counters {
		cov[k] = v.Load()
	}
	for k, v := range c.cov { // explicit Set wins over a counter of the same name
		cov[k] = v
	}
	for k, v := range c.distinct {
		cov["distinct_"+k] = len(v)
	}
	samples := append(append([]any{}, c.samplesHead...), c.samplesTail...)
	if len(samples) == 0 {
		samples = []any{"(no sample recorded)"}
	}
	cov["samples"] = samples
	if _, ok := cov["exhaustive"]; !ok {
		cov["exhaustive"] = !c.capped.Load()
	} else if c.capped.Load() {
		cov["exhaustive"] = false
	}
	known := make([]string, 0, len(c.knownHit))
	for k := range c.knownHit {
		known = append(known, k)
	}
	sort.Strings(known)
	cov["known_findings_hit"] = known
	ev := map[string]any{
		"property_id": c.ID,
		"tier":        c.tier,
		"seed":        c.seed,
		"level":       c.Level,
		"coverage":    cov,
		"assumptions": append([]string{}, c.assumptions...),
		"wall_s":      time.Since(c.start).Seconds(),
		"violations":  c.violations,
	}
	viol := c.violations
	c.mu.Unlock()

	path := os.Getenv("VERIF_EVIDENCE")
	if path == "" {
		path = filepath.Join(verifRoot, "evidence", c.ID+".json")
	}
	b, err := json.MarshalIndent(ev, "", " ")
	if err != nil {
		c.T.Fatalf("evidence marshal: %v", err)
	}
	if err := os.WriteFile(path, append(b, '\n'), 0o644); err != nil {
		c.T.Fatalf("evidence write: %v", err)
	}
	fmt.Printf("EVIDENCE property=%s tier=%s wall=%.1fs %s\n", c.ID, c.tier, time.Since(c.start).Seconds(), summarize(cov))
	if viol > 0 {
		c.T.Fatalf("%d violation(s) of %s", viol, c.ID)
	}
}

func summarize(cov map[string]any) string {
	keys := make([]string, 0, len(cov))
	for k := range cov {
		if k == "samples" || k == "rule" || k == "explanation" {
			continue
		}
		keys = append(keys, k)
	}
	sort.Strings(keys)
	var sb strings.Builder
	for _, k := range keys {
		v := fmt.Sprintf("%v", cov[k])
		if len(v) > 120 {
			v = v[:120] + "..."
		}
		fmt.Fprintf(&sb, "%s=%s ", k, v)
	}
	return sb.String()
}

// Hash returns a short stable hash of the printed form of vs (canonical-state keys).
func Hash(vs ...any) string {
	h := sha256.New()
	for _, v := range vs {
		fmt.Fprintf(h, "%v\x00", v)
	}
	return hex.EncodeToString(h.Sum(nil)[:12])
}
