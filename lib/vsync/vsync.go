//go:build verif

// Package vsync replaces "sync" by import rewriting in E1 builds: the blocking primitives are the scheduler-aware
// shims, everything else is the real thing.
package vsync

import (
	"sync"

	"github.com/slackhq/nebula/zzverif/sched"
)

type (
	Mutex     = sched.Mutex
	RWMutex   = sched.RWMutex
	WaitGroup = sched.WaitGroup
	Once      = sched.Once
	Pool      = sync.Pool
	Map       = sync.Map
	Cond      = sync.Cond
	Locker    = sync.Locker
)

func NewCond(l Locker) *Cond                                   { return sync.NewCond(l) }
func OnceFunc(f func()) func()                                 { return sync.OnceFunc(f) }
func OnceValue[T any](f func() T) func() T                     { return sync.OnceValue(f) }
func OnceValues[T1, T2 any](f func() (T1, T2)) func() (T1, T2) { return sync.OnceValues(f) }
