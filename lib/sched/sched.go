//go:build verif

// Package sched is the controlled scheduler of engine E1: a stateless, preemption-bounded depth-first explorer of the
// interleavings of 2..8 harness threads running REAL code whose "sync" and "sync/atomic" imports have been rewritten to
// the shims in vsync / vatomic. Exactly one thread runs at a time; before every lock acquisition, wait, once and
// atomic operation the running thread calls point(), where the explorer decides who runs next.
//
// Hand-off is a spin on a plain word inside //go:norace functions, and all scheduler state lives in fixed-size arrays,
// so that under `go test -race` the race detector does not see the hand-offs as synchronisation: it keeps checking the
// code's OWN synchronisation (the shims perform the real sync/atomic operation after being scheduled) on every explored
// interleaving.
package sched

import (
	"fmt"
	"runtime"
	"sync"
)

const (
	MaxThreads = 8
	MaxPoints  = 1 << 13
)

type opKind uint8

const (
	opNone opKind = iota
	opStart
	opLock    // Mutex.Lock / RWMutex.Lock
	opRLock   // RWMutex.RLock
	opWait    // WaitGroup.Wait
	opOnce    // Once.Do
	opAtomic  // any atomic operation
	opYield   // explicit harness yield (always enabled)
	opBlocked // harness-defined blocking condition (polled)
)

type thread struct {
	fn    func()
	state uint8 // 0 unused, 1 live, 2 finished
	pend  opKind
	mu    *Mutex
	rw    *RWMutex
	wg    *WaitGroup
	once  *Once
	cond  func() bool
}

// all scheduler state (fixed size, touched only from //go:norace functions while an exploration is running)
var s struct {
	active bool
	n      int
	th     [MaxThreads]thread
	cur    int // running thread, -1 = driver
	turn   int // hand-off word
	abort  bool
	reason string

	prefix    [MaxPoints]int16
	prefixLen int
	npoints   int
	choice    [MaxPoints]int16
	arity     [MaxPoints]int8
	curEn     [MaxPoints]bool // running thread was still enabled at this point (alternative = preemption)
	who       [MaxPoints]int8 // thread chosen
	steps     int             // all scheduling points incl. single-choice ones
	maxSteps  int

	nondet bool
}

var joinWG sync.WaitGroup

// Active reports whether an exploration is running (shims pass straight through otherwise).
//
//go:norace
func Active() bool { return s.active }

// Go registers a harness thread. Must be called from the setup function passed to Explore.
//
//go:norace
func Go(fn func()) int {
	if s.n >= MaxThreads {
		panic("sched: too many threads")
	}
	id := s.n
	s.th[id] = thread{fn: fn, state: 1, pend: opStart}
	s.n++
	joinWG.Add(1)
	go threadMain(id)
	return id
}

func threadMain(id int) {
	defer joinWG.Done()
	defer threadExit(id)
	waitTurn(id)
	if isAbort() {
		return
	}
	getFn(id)()
}

//go:norace
func getFn(id int) func() { return s.th[id].fn }

//go:norace
func isAbort() bool { return s.abort }

// threadExit runs when a thread function returns (or is unwound by Goexit during an abort).
//
//go:norace
func threadExit(id int) {
	s.th[id].state = 2
	s.th[id].pend = opNone
	if s.abort {
		s.cur, s.turn = -1, -1
		return
	}
	next := pick(-1)
	if next < 0 {
		// everyone finished, or the rest is deadlocked
		live := false
		for i := 0; i < s.n; i++ {
			if s.th[i].state == 1 {
				live = true
			}
		}
		if live && !s.abort {
			s.abort, s.reason = true, "deadlock: no enabled thread while some are unfinished"
		}
		s.cur, s.turn = -1, -1
		return
	}
	s.cur, s.turn = next, next
}

//go:norace
func waitTurn(id int) {
	spins := 0
	for s.turn != id {
		runtime.Gosched()
		spins++
		if spins > 2_000_000_000 {
			panic("sched: hand-off hang (a thread blocked outside the scheduler?)")
		}
	}
}

//go:norace
func enabled(i int) bool {
	t := &s.th[i]
	if t.state != 1 {
		return false
	}
	switch t.pend {
	case opLock:
		if t.mu != nil {
			return !t.mu.held
		}
		return !t.rw.writer && t.rw.readers == 0
	case opRLock:
		return !t.rw.writer && t.rw.waiting == 0
	case opWait:
		return t.wg.n == 0
	case opOnce:
		return !t.once.running
	case opBlocked:
		return t.cond()
	}
	return true
}

// pick chooses the next thread to run at a scheduling point reached by thread me (-1: me just finished).
// Canonical order of alternatives: the running thread first if it is still enabled, then ascending ids.
// Returns -1 when no thread is enabled.
//
//go:norace
func pick(me int) int {
	var cand [MaxThreads]int8
	nc := 0
	curEnabled := me >= 0 && enabled(me)
	if curEnabled {
		cand[nc] = int8(me)
		nc++
	}
	for i := 0; i < s.n; i++ {
		if i != me && enabled(i) {
			cand[nc] = int8(i)
			nc++
		}
	}
	if nc == 0 {
		return -1
	}
	s.steps++
	if s.steps > s.maxSteps {
		s.abort, s.reason = true, "horizon: too many scheduling points (livelock?)"
		return -1
	}
	if nc == 1 {
		return int(cand[0])
	}
	p := s.npoints
	if p >= MaxPoints {
		s.abort, s.reason = true, "horizon: too many choice points"
		return -1
	}
	c := 0
	if p < s.prefixLen {
		c = int(s.prefix[p])
		if c >= nc {
			s.nondet = true
			s.abort, s.reason = true, "nondeterminism: replayed choice out of range"
			return -1
		}
	}
	s.choice[p] = int16(c)
	s.arity[p] = int8(nc)
	s.curEn[p] = curEnabled
	s.who[p] = cand[c]
	s.npoints++
	return int(cand[c])
}

// point is called by the running thread before a potentially blocking or racing operation. On return the calling
// thread is scheduled and its operation is enabled.
//
//go:norace
func point(k opKind, mu *Mutex, rw *RWMutex, wg *WaitGroup, once *Once, cond func() bool) {
	me := s.cur
	if me < 0 || s.abort {
		return // driver goroutine (setup / check code), or a thread being unwound: no scheduling
	}
	t := &s.th[me]
	t.pend, t.mu, t.rw, t.wg, t.once, t.cond = k, mu, rw, wg, once, cond
	next := pick(me)
	if next < 0 {
		if !s.abort {
			s.abort, s.reason = true, "deadlock: no enabled thread while some are unfinished"
		}
		s.cur, s.turn = -1, -1
		// park until the driver unwinds us
		waitTurn(me)
		runtime.Goexit()
	}
	if next != me {
		s.cur, s.turn = next, next
		waitTurn(me)
		if s.abort {
			runtime.Goexit()
		}
	}
	t.pend = opNone
}

// Aborting reports that the current execution is being torn down (deadlock / horizon): shims skip real operations.
//
//go:norace
func Aborting() bool { return s.abort }

// Yield is an explicit scheduling point for harness code (e.g. inside a polling loop).
func Yield() {
	if Active() {
		point(opYield, nil, nil, nil, nil, nil)
	}
}

// Atomic is the scheduling point the vatomic shims call before every atomic operation.
func Atomic() {
	if Active() {
		point(opAtomic, nil, nil, nil, nil, nil)
	}
}

// BlockUntil parks the calling thread until cond() holds (cond is evaluated by the scheduler, must be side-effect free).
func BlockUntil(cond func() bool) {
	if Active() {
		point(opBlocked, nil, nil, nil, nil, cond)
	}
}

// ---------------------------------------------------------------------------------------------------------------
// exploration driver

// Exec describes one completed execution (one schedule).
type Exec struct {
	Choices     []int16
	Arity       []int8
	CurEnabled  []bool
	Who         []int8
	Preemptions int
	Aborted     bool
	Reason      string
}

// Options for Explore.
type Options struct {
	Bound    int // max preemptions per execution (<0: unbounded)
	MaxSteps int // horizon per execution (default 20000)
	Stop     func() bool
	// Shard/NShard split the first-level alternatives across processes (0/0 = everything)
}

// Result summarises an exploration.
type Result struct {
	Executions       int64
	ChoicePoints     int64
	Deadlocks        int64
	Horizon          int64
	Nondeterministic int64
	ByPreemptions    map[int]int64
	Complete         bool
	FirstDeadlock    []int16
}

//go:norace
func begin(prefix []int16, maxSteps int) {
	s.active = true
	s.n = 0
	s.cur, s.turn = -1, -1
	s.abort, s.reason, s.nondet = false, "", false
	s.npoints, s.steps = 0, 0
	s.maxSteps = maxSteps
	s.prefixLen = len(prefix)
	for i, c := range prefix {
		s.prefix[i] = c
	}
}

//go:norace
func start() bool {
	next := pick(-1)
	if next < 0 {
		return false
	}
	s.cur, s.turn = next, next
	return true
}

//go:norace
func driverWait() {
	waitTurn(-1)
}

//go:norace
func unwind() {
	// abort path: wake every unfinished thread in turn; it Goexits and hands the turn back
	for i := 0; i < s.n; i++ {
		if s.th[i].state == 1 {
			s.cur, s.turn = i, i
			waitTurn(-1)
		}
	}
}

//go:norace
func snapshot() Exec {
	x := Exec{Aborted: s.abort, Reason: s.reason}
	x.Choices = make([]int16, s.npoints)
	x.Arity = make([]int8, s.npoints)
	x.CurEnabled = make([]bool, s.npoints)
	x.Who = make([]int8, s.npoints)
	for i := 0; i < s.npoints; i++ {
		x.Choices[i], x.Arity[i], x.CurEnabled[i], x.Who[i] = s.choice[i], s.arity[i], s.curEn[i], s.who[i]
		if s.choice[i] != 0 && s.curEn[i] {
			x.Preemptions++
		}
	}
	return x
}

//go:norace
func end() { s.active = false }

// RunOnce executes one schedule: setup registers the threads (sched.Go), then the schedule given by prefix (default
// choice 0 afterwards) runs to completion.
func RunOnce(prefix []int16, maxSteps int, setup func()) Exec {
	if maxSteps <= 0 {
		maxSteps = 20000
	}
	begin(prefix, maxSteps)
	setup()
	if start() {
		driverWait()
	}
	if isAbort() {
		unwind()
	}
	joinWG.Wait()
	x := snapshot()
	end()
	return x
}

// Explore enumerates every schedule of the threads registered by setup, depth first, with at most opts.Bound
// preemptions. check is called after every execution (on the driver goroutine, all threads joined).
func Explore(opts Options, setup func(), check func(x *Exec)) Result {
	res := Result{ByPreemptions: map[int]int64{}, Complete: true}
	var rec func(prefix []int16) bool
	rec = func(prefix []int16) bool {
		x := RunOnce(prefix, opts.MaxSteps, setup)
		res.Executions++
		res.ChoicePoints += int64(len(x.Choices))
		res.ByPreemptions[x.Preemptions]++
		if x.Aborted {
			switch {
			case len(x.Reason) >= 8 && x.Reason[:8] == "deadlock":
				res.Deadlocks++
				if res.FirstDeadlock == nil {
					res.FirstDeadlock = append([]int16{}, x.Choices...)
				}
			case len(x.Reason) >= 7 && x.Reason[:7] == "horizon":
				res.Horizon++
			default:
				res.Nondeterministic++
			}
		}
		check(&x)
		if opts.Stop != nil && opts.Stop() {
			res.Complete = false
			return false
		}
		pre := 0
		for i := 0; i < len(x.Choices); i++ {
			if i >= len(prefix) {
				for alt := 1; alt < int(x.Arity[i]); alt++ {
					cost := pre
					if x.CurEnabled[i] {
						cost++
					}
					if opts.Bound >= 0 && cost > opts.Bound {
						continue
					}
					np := make([]int16, i+1)
					copy(np, x.Choices[:i])
					np[i] = int16(alt)
					if !rec(np) {
						return false
					}
				}
			}
			if x.Choices[i] != 0 && x.CurEnabled[i] {
				pre++
			}
		}
		return true
	}
	rec(nil)
	return res
}

func (x *Exec) String() string {
	return fmt.Sprintf("choices=%v who=%v preemptions=%d aborted=%v %s", x.Choices, x.Who, x.Preemptions, x.Aborted, x.Reason)
}
