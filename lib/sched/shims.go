//go:build verif

package sched

import (
	"sync"
	"sync/atomic"
)

// The shim types perform the REAL operation after the scheduler has granted the turn, so that (a) the code keeps its
// semantics when no exploration is active and (b) the race detector sees the code's own synchronisation.
// Model fields (held, writer, readers, n, running, done) are only touched inside //go:norace functions.

// ---- Mutex ----

type Mutex struct {
	real sync.Mutex
	held bool
}

func (m *Mutex) Lock() {
	if !Active() {
		m.real.Lock()
		return
	}
	point(opLock, m, nil, nil, nil, nil)
	if Aborting() {
		return
	}
	m.setHeld(true)
	m.real.Lock()
}

//go:norace
func (m *Mutex) setHeld(v bool) { m.held = v }

//go:norace
func (m *Mutex) isHeld() bool { return m.held }

func (m *Mutex) Unlock() {
	if !Active() {
		m.real.Unlock()
		return
	}
	if Aborting() {
		return
	}
	m.real.Unlock()
	m.setHeld(false)
}

func (m *Mutex) TryLock() bool {
	if !Active() {
		return m.real.TryLock()
	}
	point(opYield, nil, nil, nil, nil, nil)
	if Aborting() || m.isHeld() {
		return false
	}
	m.setHeld(true)
	m.real.Lock()
	return true
}

// ---- RWMutex ----

type RWMutex struct {
	real    sync.RWMutex
	writer  bool
	readers int
	waiting int // writers that have announced themselves (called Lock) and wait for the readers to drain
}

//go:norace
func (m *RWMutex) addWaiting(d int) { m.waiting += d }

//go:norace
func (m *RWMutex) setW(v bool) { m.writer = v }

//go:norace
func (m *RWMutex) addR(d int) { m.readers += d }

//go:norace
func (m *RWMutex) free() bool { return !m.writer && m.readers == 0 }

//go:norace
func (m *RWMutex) noWriter() bool { return !m.writer && m.waiting == 0 }

func (m *RWMutex) Lock() {
	if !Active() {
		m.real.Lock()
		return
	}
	// Go's RWMutex is writer-preferring: from the moment a writer has called Lock, new readers block until it is done.
	// The acquisition is therefore two steps: announce (always possible), then acquire (needs no reader and no writer).
	point(opYield, nil, nil, nil, nil, nil)
	if Aborting() {
		return
	}
	m.addWaiting(1)
	point(opLock, nil, m, nil, nil, nil)
	m.addWaiting(-1)
	if Aborting() {
		return
	}
	m.setW(true)
	m.real.Lock()
}

func (m *RWMutex) Unlock() {
	if !Active() {
		m.real.Unlock()
		return
	}
	if Aborting() {
		return
	}
	m.real.Unlock()
	m.setW(false)
}

func (m *RWMutex) RLock() {
	if !Active() {
		m.real.RLock()
		return
	}
	point(opRLock, nil, m, nil, nil, nil)
	if Aborting() {
		return
	}
	m.addR(1)
	m.real.RLock()
}

func (m *RWMutex) RUnlock() {
	if !Active() {
		m.real.RUnlock()
		return
	}
	if Aborting() {
		return
	}
	m.real.RUnlock()
	m.addR(-1)
}

func (m *RWMutex) TryLock() bool {
	if !Active() {
		return m.real.TryLock()
	}
	point(opYield, nil, nil, nil, nil, nil)
	if Aborting() || !m.free() {
		return false
	}
	m.setW(true)
	m.real.Lock()
	return true
}

func (m *RWMutex) TryRLock() bool {
	if !Active() {
		return m.real.TryRLock()
	}
	point(opYield, nil, nil, nil, nil, nil)
	if Aborting() || !m.noWriter() {
		return false
	}
	m.addR(1)
	m.real.RLock()
	return true
}

type rlocker RWMutex

func (r *rlocker) Lock()   { (*RWMutex)(r).RLock() }
func (r *rlocker) Unlock() { (*RWMutex)(r).RUnlock() }

func (m *RWMutex) RLocker() sync.Locker { return (*rlocker)(m) }

// ---- WaitGroup ----

type WaitGroup struct {
	real sync.WaitGroup
	n    int
}

//go:norace
func (w *WaitGroup) add(d int) { w.n += d }

func (w *WaitGroup) Add(d int) {
	if Active() {
		w.add(d)
	}
	w.real.Add(d)
}

func (w *WaitGroup) Done() { w.Add(-1) }

func (w *WaitGroup) Wait() {
	if !Active() {
		w.real.Wait()
		return
	}
	point(opWait, nil, nil, w, nil, nil)
	if Aborting() {
		return
	}
	w.real.Wait()
}

// Go runs f as a new scheduler thread when an exploration is active.
func (w *WaitGroup) Go(f func()) {
	w.Add(1)
	if !Active() {
		go func() {
			defer w.Done()
			f()
		}()
		return
	}
	Go(func() {
		defer w.Done()
		f()
	})
}

// ---- Once ----

type Once struct {
	real    sync.Once
	running bool
	done    bool
}

//go:norace
func (o *Once) get() (bool, bool) { return o.running, o.done }

//go:norace
func (o *Once) set(r, d bool) { o.running, o.done = r, d }

func (o *Once) Do(f func()) {
	if !Active() {
		o.real.Do(f)
		return
	}
	point(opOnce, nil, nil, nil, o, nil)
	if Aborting() {
		return
	}
	if _, d := o.get(); d {
		o.real.Do(func() {}) // happens-before edge from the completed call
		return
	}
	o.set(true, false)
	defer o.set(false, true)
	o.real.Do(f)
}

// ---- atomics ----

type Bool struct{ v atomic.Bool }

func (x *Bool) Load() bool                    { Atomic(); return x.v.Load() }
func (x *Bool) Store(val bool)                { Atomic(); x.v.Store(val) }
func (x *Bool) Swap(n bool) bool              { Atomic(); return x.v.Swap(n) }
func (x *Bool) CompareAndSwap(o, n bool) bool { Atomic(); return x.v.CompareAndSwap(o, n) }

type Int32 struct{ v atomic.Int32 }

func (x *Int32) Load() int32                    { Atomic(); return x.v.Load() }
func (x *Int32) Store(val int32)                { Atomic(); x.v.Store(val) }
func (x *Int32) Swap(n int32) int32             { Atomic(); return x.v.Swap(n) }
func (x *Int32) CompareAndSwap(o, n int32) bool { Atomic(); return x.v.CompareAndSwap(o, n) }
func (x *Int32) Add(d int32) int32              { Atomic(); return x.v.Add(d) }
func (x *Int32) And(m int32) int32              { Atomic(); return x.v.And(m) }
func (x *Int32) Or(m int32) int32               { Atomic(); return x.v.Or(m) }

type Int64 struct{ v atomic.Int64 }

func (x *Int64) Load() int64                    { Atomic(); return x.v.Load() }
func (x *Int64) Store(val int64)                { Atomic(); x.v.Store(val) }
func (x *Int64) Swap(n int64) int64             { Atomic(); return x.v.Swap(n) }
func (x *Int64) CompareAndSwap(o, n int64) bool { Atomic(); return x.v.CompareAndSwap(o, n) }
func (x *Int64) Add(d int64) int64              { Atomic(); return x.v.Add(d) }
func (x *Int64) And(m int64) int64              { Atomic(); return x.v.And(m) }
func (x *Int64) Or(m int64) int64               { Atomic(); return x.v.Or(m) }

type Uint32 struct{ v atomic.Uint32 }

func (x *Uint32) Load() uint32                    { Atomic(); return x.v.Load() }
func (x *Uint32) Store(val uint32)                { Atomic(); x.v.Store(val) }
func (x *Uint32) Swap(n uint32) uint32            { Atomic(); return x.v.Swap(n) }
func (x *Uint32) CompareAndSwap(o, n uint32) bool { Atomic(); return x.v.CompareAndSwap(o, n) }
func (x *Uint32) Add(d uint32) uint32             { Atomic(); return x.v.Add(d) }
func (x *Uint32) And(m uint32) uint32             { Atomic(); return x.v.And(m) }
func (x *Uint32) Or(m uint32) uint32              { Atomic(); return x.v.Or(m) }

type Uint64 struct{ v atomic.Uint64 }

func (x *Uint64) Load() uint64                    { Atomic(); return x.v.Load() }
func (x *Uint64) Store(val uint64)                { Atomic(); x.v.Store(val) }
func (x *Uint64) Swap(n uint64) uint64            { Atomic(); return x.v.Swap(n) }
func (x *Uint64) CompareAndSwap(o, n uint64) bool { Atomic(); return x.v.CompareAndSwap(o, n) }
func (x *Uint64) Add(d uint64) uint64             { Atomic(); return x.v.Add(d) }
func (x *Uint64) And(m uint64) uint64             { Atomic(); return x.v.And(m) }
func (x *Uint64) Or(m uint64) uint64              { Atomic(); return x.v.Or(m) }

type Uintptr struct{ v atomic.Uintptr }

func (x *Uintptr) Load() uintptr                    { Atomic(); return x.v.Load() }
func (x *Uintptr) Store(val uintptr)                { Atomic(); x.v.Store(val) }
func (x *Uintptr) Swap(n uintptr) uintptr           { Atomic(); return x.v.Swap(n) }
func (x *Uintptr) CompareAndSwap(o, n uintptr) bool { Atomic(); return x.v.CompareAndSwap(o, n) }
func (x *Uintptr) Add(d uintptr) uintptr            { Atomic(); return x.v.Add(d) }

type Pointer[T any] struct{ v atomic.Pointer[T] }

func (x *Pointer[T]) Load() *T                    { Atomic(); return x.v.Load() }
func (x *Pointer[T]) Store(val *T)                { Atomic(); x.v.Store(val) }
func (x *Pointer[T]) Swap(n *T) *T                { Atomic(); return x.v.Swap(n) }
func (x *Pointer[T]) CompareAndSwap(o, n *T) bool { Atomic(); return x.v.CompareAndSwap(o, n) }

type Value struct{ v atomic.Value }

func (x *Value) Load() any                    { Atomic(); return x.v.Load() }
func (x *Value) Store(val any)                { Atomic(); x.v.Store(val) }
func (x *Value) Swap(n any) any               { Atomic(); return x.v.Swap(n) }
func (x *Value) CompareAndSwap(o, n any) bool { Atomic(); return x.v.CompareAndSwap(o, n) }
