//go:build verif

// Package vtime is a drop-in replacement for package "time" (same exported API, injected by import rewriting) whose
// clock is virtual: Now/Since/Until read a harness-controlled instant, and After/AfterFunc/NewTimer/NewTicker/Sleep are
// served by Advance. Everything else is an alias of / forwards to the real package.
package vtime

import (
	"sort"
	"sync"
	"time"
)

type (
	Duration   = time.Duration
	Location   = time.Location
	Month      = time.Month
	ParseError = time.ParseError
	Time       = time.Time
	Weekday    = time.Weekday
)

const (
	Layout      = time.Layout
	ANSIC       = time.ANSIC
	UnixDate    = time.UnixDate
	RubyDate    = time.RubyDate
	RFC822      = time.RFC822
	RFC822Z     = time.RFC822Z
	RFC850      = time.RFC850
	RFC1123     = time.RFC1123
	RFC1123Z    = time.RFC1123Z
	RFC3339     = time.RFC3339
	RFC3339Nano = time.RFC3339Nano
	Kitchen     = time.Kitchen
	Stamp       = time.Stamp
	StampMilli  = time.StampMilli
	StampMicro  = time.StampMicro
	StampNano   = time.StampNano
	DateTime    = time.DateTime
	DateOnly    = time.DateOnly
	TimeOnly    = time.TimeOnly
)

const (
	Nanosecond  = time.Nanosecond
	Microsecond = time.Microsecond
	Millisecond = time.Millisecond
	Second      = time.Second
	Minute      = time.Minute
	Hour        = time.Hour
)

const (
	January   = time.January
	February  = time.February
	March     = time.March
	April     = time.April
	May       = time.May
	June      = time.June
	July      = time.July
	August    = time.August
	September = time.September
	October   = time.October
	November  = time.November
	December  = time.December
)

const (
	Sunday    = time.Sunday
	Monday    = time.Monday
	Tuesday   = time.Tuesday
	Wednesday = time.Wednesday
	Thursday  = time.Thursday
	Friday    = time.Friday
	Saturday  = time.Saturday
)

var (
	UTC   = time.UTC
	Local = time.Local
)

func Date(year int, month Month, day, hour, min, sec, nsec int, loc *Location) Time {
	return time.Date(year, month, day, hour, min, sec, nsec, loc)
}
func FixedZone(name string, offset int) *Location { return time.FixedZone(name, offset) }
func LoadLocation(name string) (*Location, error) { return time.LoadLocation(name) }
func LoadLocationFromTZData(n string, d []byte) (*Location, error) {
	return time.LoadLocationFromTZData(n, d)
}
func Parse(layout, value string) (Time, error) { return time.Parse(layout, value) }
func ParseDuration(s string) (Duration, error) { return time.ParseDuration(s) }
func ParseInLocation(l, v string, loc *Location) (Time, error) {
	return time.ParseInLocation(l, v, loc)
}
func Unix(sec int64, nsec int64) Time { return time.Unix(sec, nsec) }
func UnixMicro(usec int64) Time       { return time.UnixMicro(usec) }
func UnixMilli(msec int64) Time       { return time.UnixMilli(msec) }

// ---------------------------------------------------------------------------------------------------------------
// virtual clock

// Epoch is the instant the virtual clock is reset to.
var Epoch = time.Date(2030, 1, 1, 0, 0, 0, 0, time.UTC)

type vtimer struct {
	when   Time
	seq    uint64
	fn     func()    // AfterFunc
	ch     chan Time // After/NewTimer/NewTicker (buffered 1)
	period Duration  // ticker
	active bool
}

var clk struct {
	mu     sync.Mutex
	now    Time
	seq    uint64
	timers []*vtimer
}

func init() { clk.now = Epoch }

// Reset sets the clock back to Epoch and discards all pending timers (start of every replay).
func Reset() {
	clk.mu.Lock()
	clk.now = Epoch
	clk.timers = nil
	clk.seq = 0
	clk.mu.Unlock()
}

// Set moves the clock to an absolute instant without firing timers (test setup only).
func Set(t Time) {
	clk.mu.Lock()
	clk.now = t
	clk.mu.Unlock()
}

// PendingTimers is the number of active virtual timers.
func PendingTimers() int {
	clk.mu.Lock()
	defer clk.mu.Unlock()
	n := 0
	for _, t := range clk.timers {
		if t.active {
			n++
		}
	}
	return n
}

// NextDeadline returns the earliest active timer deadline.
func NextDeadline() (Time, bool) {
	clk.mu.Lock()
	defer clk.mu.Unlock()
	var best Time
	ok := false
	for _, t := range clk.timers {
		if t.active && (!ok || t.when.Before(best)) {
			best, ok = t.when, true
		}
	}
	return best, ok
}

// Advance moves the clock forward by d, firing every timer that becomes due, in deadline order (ties by creation
// order), synchronously on the calling goroutine. Returns the number of timers fired.
func Advance(d Duration) int {
	clk.mu.Lock()
	target := clk.now.Add(d)
	fired := 0
	for {
		var due []*vtimer
		for _, t := range clk.timers {
			if t.active && !t.when.After(target) {
				due = append(due, t)
			}
		}
		if len(due) == 0 {
			break
		}
		sort.Slice(due, func(i, j int) bool {
			if !due[i].when.Equal(due[j].when) {
				return due[i].when.Before(due[j].when)
			}
			return due[i].seq < due[j].seq
		})
		t := due[0]
		if t.when.After(clk.now) {
			clk.now = t.when
		}
		if t.period > 0 {
			t.when = t.when.Add(t.period)
		} else {
			t.active = false
		}
		now := clk.now
		clk.mu.Unlock()
		if t.fn != nil {
			t.fn()
		} else {
			select {
			case t.ch <- now:
			default:
			}
		}
		fired++
		clk.mu.Lock()
	}
	clk.now = target
	// compact
	live := clk.timers[:0]
	for _, t := range clk.timers {
		if t.active {
			live = append(live, t)
		}
	}
	clk.timers = live
	clk.mu.Unlock()
	return fired
}

func Now() Time {
	clk.mu.Lock()
	defer clk.mu.Unlock()
	return clk.now
}
func Since(t Time) Duration { return Now().Sub(t) }
func Until(t Time) Duration { return t.Sub(Now()) }

func add(d Duration, fn func(), ch chan Time, period Duration) *vtimer {
	clk.mu.Lock()
	defer clk.mu.Unlock()
	clk.seq++
	t := &vtimer{when: clk.now.Add(d), seq: clk.seq, fn: fn, ch: ch, period: period, active: true}
	clk.timers = append(clk.timers, t)
	return t
}

// Timer mirrors time.Timer on the virtual clock.
type Timer struct {
	C <-chan Time
	t *vtimer
}

func (t *Timer) Stop() bool {
	clk.mu.Lock()
	defer clk.mu.Unlock()
	was := t.t.active
	t.t.active = false
	return was
}

func (t *Timer) Reset(d Duration) bool {
	clk.mu.Lock()
	defer clk.mu.Unlock()
	was := t.t.active
	t.t.when = clk.now.Add(d)
	if !t.t.active {
		t.t.active = true
		found := false
		for _, x := range clk.timers {
			if x == t.t {
				found = true
			}
		}
		if !found {
			clk.seq++
			t.t.seq = clk.seq
			clk.timers = append(clk.timers, t.t)
		}
	}
	return was
}

func NewTimer(d Duration) *Timer {
	ch := make(chan Time, 1)
	return &Timer{C: ch, t: add(d, nil, ch, 0)}
}

func AfterFunc(d Duration, f func()) *Timer { return &Timer{t: add(d, f, nil, 0)} }

func After(d Duration) <-chan Time { return NewTimer(d).C }

// Ticker mirrors time.Ticker on the virtual clock.
type Ticker struct {
	C <-chan Time
	t *vtimer
}

func NewTicker(d Duration) *Ticker {
	if d <= 0 {
		panic("non-positive interval for NewTicker")
	}
	ch := make(chan Time, 1)
	return &Ticker{C: ch, t: add(d, nil, ch, d)}
}

func (t *Ticker) Stop() {
	clk.mu.Lock()
	t.t.active = false
	clk.mu.Unlock()
}

func (t *Ticker) Reset(d Duration) {
	clk.mu.Lock()
	t.t.period = d
	t.t.when = clk.now.Add(d)
	clk.mu.Unlock()
}

func Tick(d Duration) <-chan Time { return NewTicker(d).C }

// Sleep on the virtual clock returns immediately: the harness owns time and nothing in a driven node may block on it.
func Sleep(d Duration) {}
