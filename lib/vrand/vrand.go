//go:build verif

// Package vrand is a drop-in replacement for package "crypto/rand" (same exported API: Read, Reader, Int, Prime, Text),
// injected by import rewriting (bin/vcheck "rewrite": {"<file>": ["crypto/rand"]}). Read — and Reader, which forwards to
// Read — is served by a harness-settable Source; without a source everything falls through to the real crypto/rand, so a
// rewritten file behaves exactly as before until a harness installs a source.
//
// Sources are per goroutine (SetSource / ClearSource) so that a parallel explorer (mc.BFSReplay runs one replay per
// worker goroutine) can give every replay its own scripted generator; SetGlobalSource is the fallback for code that
// reads randomness on goroutines the harness does not own.
package vrand

import (
	crand "crypto/rand"
	"encoding/binary"
	"io"
	"math/big"
	"runtime"
	"sync"
)

// Source fills b completely (like crypto/rand.Read) or returns an error.
type Source func(b []byte) (int, error)

var (
	mu     sync.RWMutex
	perG   = map[uint64]Source{}
	global Source
)

// goid parses the current goroutine's id from the first line of its stack trace ("goroutine 123 [running]:").
func goid() uint64 {
	var buf [64]byte
	n := runtime.Stack(buf[:], false)
	var id uint64
	for _, ch := range buf[len("goroutine "):n] {
		if ch < '0' || ch > '9' {
			break
		}
		id = id*10 + uint64(ch-'0')
	}
	return id
}

// SetSource installs s for the calling goroutine only.
func SetSource(s Source) {
	g := goid()
	mu.Lock()
	if s == nil {
		delete(perG, g)
	} else {
		perG[g] = s
	}
	mu.Unlock()
}

// ClearSource removes the calling goroutine's source.
func ClearSource() { SetSource(nil) }

// SetGlobalSource installs the fallback used by goroutines without a source of their own (nil = real crypto/rand).
func SetGlobalSource(s Source) {
	mu.Lock()
	global = s
	mu.Unlock()
}

func current() Source {
	mu.RLock()
	defer mu.RUnlock()
	if len(perG) != 0 {
		if s, ok := perG[goid()]; ok {
			return s
		}
	}
	return global
}

// Uint32s adapts a generator of 32-bit values to a Source: every Read is filled with consecutive big-endian values
// (generateIndex reads exactly 4 bytes and decodes them big-endian, so one Read = one value of next()).
func Uint32s(next func() uint32) Source {
	return func(b []byte) (int, error) {
		var w [4]byte
		for i := 0; i < len(b); i += 4 {
			binary.BigEndian.PutUint32(w[:], next())
			copy(b[i:], w[:])
		}
		return len(b), nil
	}
}

// Read has the contract of crypto/rand.Read.
func Read(b []byte) (n int, err error) {
	if s := current(); s != nil {
		return s(b)
	}
	return crand.Read(b)
}

type reader struct{}

func (reader) Read(b []byte) (int, error) { return Read(b) }

// Reader mirrors crypto/rand.Reader and is served by the same source as Read.
var Reader io.Reader = reader{}

// Int, Prime and Text forward to crypto/rand (an explicit reader argument is honoured, so Int(vrand.Reader, ..) is scripted).
func Int(r io.Reader, max *big.Int) (*big.Int, error) { return crand.Int(r, max) }
func Prime(r io.Reader, bits int) (*big.Int, error)   { return crand.Prime(r, bits) }
func Text() string                                    { return crand.Text() }
