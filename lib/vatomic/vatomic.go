//go:build verif

// Package vatomic replaces "sync/atomic" by import rewriting in E1 builds: every operation is a scheduling point
// followed by the real atomic operation.
package vatomic

import (
	"sync/atomic"
	"unsafe"

	"github.com/slackhq/nebula/zzverif/sched"
)

type (
	Bool    = sched.Bool
	Int32   = sched.Int32
	Int64   = sched.Int64
	Uint32  = sched.Uint32
	Uint64  = sched.Uint64
	Uintptr = sched.Uintptr
	Value   = sched.Value
)

type Pointer[T any] = sched.Pointer[T]

func AddInt32(a *int32, d int32) int32                 { sched.Atomic(); return atomic.AddInt32(a, d) }
func AddInt64(a *int64, d int64) int64                 { sched.Atomic(); return atomic.AddInt64(a, d) }
func AddUint32(a *uint32, d uint32) uint32             { sched.Atomic(); return atomic.AddUint32(a, d) }
func AddUint64(a *uint64, d uint64) uint64             { sched.Atomic(); return atomic.AddUint64(a, d) }
func AddUintptr(a *uintptr, d uintptr) uintptr         { sched.Atomic(); return atomic.AddUintptr(a, d) }
func LoadInt32(a *int32) int32                         { sched.Atomic(); return atomic.LoadInt32(a) }
func LoadInt64(a *int64) int64                         { sched.Atomic(); return atomic.LoadInt64(a) }
func LoadUint32(a *uint32) uint32                      { sched.Atomic(); return atomic.LoadUint32(a) }
func LoadUint64(a *uint64) uint64                      { sched.Atomic(); return atomic.LoadUint64(a) }
func LoadUintptr(a *uintptr) uintptr                   { sched.Atomic(); return atomic.LoadUintptr(a) }
func LoadPointer(a *unsafe.Pointer) unsafe.Pointer     { sched.Atomic(); return atomic.LoadPointer(a) }
func StoreInt32(a *int32, v int32)                     { sched.Atomic(); atomic.StoreInt32(a, v) }
func StoreInt64(a *int64, v int64)                     { sched.Atomic(); atomic.StoreInt64(a, v) }
func StoreUint32(a *uint32, v uint32)                  { sched.Atomic(); atomic.StoreUint32(a, v) }
func StoreUint64(a *uint64, v uint64)                  { sched.Atomic(); atomic.StoreUint64(a, v) }
func StoreUintptr(a *uintptr, v uintptr)               { sched.Atomic(); atomic.StoreUintptr(a, v) }
func StorePointer(a *unsafe.Pointer, v unsafe.Pointer) { sched.Atomic(); atomic.StorePointer(a, v) }
func SwapInt32(a *int32, v int32) int32                { sched.Atomic(); return atomic.SwapInt32(a, v) }
func SwapInt64(a *int64, v int64) int64                { sched.Atomic(); return atomic.SwapInt64(a, v) }
func SwapUint32(a *uint32, v uint32) uint32            { sched.Atomic(); return atomic.SwapUint32(a, v) }
func SwapUint64(a *uint64, v uint64) uint64            { sched.Atomic(); return atomic.SwapUint64(a, v) }
func SwapUintptr(a *uintptr, v uintptr) uintptr        { sched.Atomic(); return atomic.SwapUintptr(a, v) }
func SwapPointer(a *unsafe.Pointer, v unsafe.Pointer) unsafe.Pointer {
	sched.Atomic()
	return atomic.SwapPointer(a, v)
}
func CompareAndSwapInt32(a *int32, o, n int32) bool {
	sched.Atomic()
	return atomic.CompareAndSwapInt32(a, o, n)
}
func CompareAndSwapInt64(a *int64, o, n int64) bool {
	sched.Atomic()
	return atomic.CompareAndSwapInt64(a, o, n)
}
func CompareAndSwapUint32(a *uint32, o, n uint32) bool {
	sched.Atomic()
	return atomic.CompareAndSwapUint32(a, o, n)
}
func CompareAndSwapUint64(a *uint64, o, n uint64) bool {
	sched.Atomic()
	return atomic.CompareAndSwapUint64(a, o, n)
}
func CompareAndSwapUintptr(a *uintptr, o, n uintptr) bool {
	sched.Atomic()
	return atomic.CompareAndSwapUintptr(a, o, n)
}
func CompareAndSwapPointer(a *unsafe.Pointer, o, n unsafe.Pointer) bool {
	sched.Atomic()
	return atomic.CompareAndSwapPointer(a, o, n)
}
func AndInt32(a *int32, m int32) int32     { sched.Atomic(); return atomic.AndInt32(a, m) }
func AndUint32(a *uint32, m uint32) uint32 { sched.Atomic(); return atomic.AndUint32(a, m) }
func AndInt64(a *int64, m int64) int64     { sched.Atomic(); return atomic.AndInt64(a, m) }
func AndUint64(a *uint64, m uint64) uint64 { sched.Atomic(); return atomic.AndUint64(a, m) }
func OrInt32(a *int32, m int32) int32      { sched.Atomic(); return atomic.OrInt32(a, m) }
func OrUint32(a *uint32, m uint32) uint32  { sched.Atomic(); return atomic.OrUint32(a, m) }
func OrInt64(a *int64, m int64) int64      { sched.Atomic(); return atomic.OrInt64(a, m) }
func OrUint64(a *uint64, m uint64) uint64  { sched.Atomic(); return atomic.OrUint64(a, m) }
