#!/bin/sh
# runs every registered check once in the given tier and prints one status line each
tier=${1:-quick}
cd /verif
for f in checks.d/C*.json; do
  id=$(basename $f .json)
  s=$(date +%s)
  out=$(bin/vcheck $id $tier 2>&1)
  rc=$?
  e=$(( $(date +%s) - s ))
  echo "$id rc=$rc ${e}s $(echo "$out" | grep -c '^KNOWN-FINDING') known $(echo "$out" | grep '^VIOLATION' | head -2 | tr '\n' ' ')"
done
