#!/opt/veriftools/pyvenv/bin/python
"""Validates MANIFEST.json and every evidence file against the schemas."""
import json, jsonschema, glob, sys
ok = True
try:
    jsonschema.validate(json.load(open('/verif/MANIFEST.json')), json.load(open('/root/.vp/MANIFEST.schema.json')))
    print("MANIFEST valid")
except Exception as e:
    ok = False; print("MANIFEST INVALID", e)
es = json.load(open('/root/.vp/EVIDENCE.schema.json'))
for f in sorted(glob.glob('/verif/evidence/*.json')):
    try:
        jsonschema.validate(json.load(open(f)), es)
    except Exception as e:
        ok = False; print("EVIDENCE INVALID", f, str(e)[:300])
print("evidence files:", len(glob.glob('/verif/evidence/*.json')))
sys.exit(0 if ok else 1)
