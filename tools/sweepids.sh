#!/bin/sh
# sweepids.sh <tier> <id>... : run the given checks, one status line each
tier=$1; shift
cd /verif
for id in "$@"; do
  s=$(date +%s)
  out=$(bin/vcheck $id $tier 2>&1)
  rc=$?
  e=$(( $(date +%s) - s ))
  echo "$id $tier rc=$rc ${e}s $(echo "$out" | grep -c '^KNOWN-FINDING') known $(echo "$out" | grep '^EVIDENCE' | grep -o 'exhaustive=[a-z]*') $(echo "$out" | grep '^VIOLATION' | head -2 | tr '\n' ' ')"
done
