#!/usr/bin/env python3
"""prints the prompt for a fresh seeding sub-agent: only the property text and its scratch worktree."""
import json,sys
pid=sys.argv[1]
rnd=sys.argv[2] if len(sys.argv)>2 else ""   # e.g. "2": worktree /tmp/seed2_<id>, earlier seeds listed as "already tried"
import glob,os
avoid=[]
if rnd:
    for d in sorted(glob.glob('/verif/seeded/%s*/meta.json'%pid)):
        try: avoid.append(json.load(open(d)).get('summary',''))
        except Exception: pass
wt="/tmp/seed%s_%s"%(rnd,pid)
for l in open('/verif/properties.jsonl'):
    p=json.loads(l)
    if p['id']==pid: break
print(f"""You are a software engineer given a scratch git worktree of the Go project slackhq/nebula (an overlay VPN) at {wt}. Work ONLY inside {wt}. Never read, list or modify /repo or /verif (or anything else outside your worktree and Go's caches). Shell setup for every command: `cd {wt} && export GOFLAGS=-mod=mod GOPROXY=off` (no network; do not set GOTOOLCHAIN or GOSUMDB).

The project is supposed to satisfy this property:

TITLE: {p['title']}
STATEMENT: {p['statement']}
QUANTIFIED OVER: {p['quantifier']['text']}

Your task: make a realistic change to the non-test source code (the kind of regression a maintainer could plausibly introduce in a refactor or "optimisation") that BREAKS this property, while the project still compiles and its existing test suite still passes. The breakage must need something specific to manifest — a particular interleaving, a fault or crash at a particular point, a multi-step sequence of operations, an unusual input, or two cooperating code sites that each look fine alone — NOT something ordinary use or the existing tests would expose at once. Prefer a small, subtle, plausible edit (1-15 lines). Do not edit existing tests.
{("Colleagues already tried the following changes; choose a DIFFERENT code site and a different mechanism (ideally a different clause of the statement or a different part of the quantified space):" + chr(10) + chr(10).join("- "+a[:700] for a in avoid) + chr(10)) if avoid else ""}Keep every scratch file inside your worktree (e.g. {wt}/.scratch/), never directly under /tmp.

Required steps and deliverables:
1. Read the relevant code, choose the change, apply it in the worktree (do not commit).
2. Run `go build ./... && go vet ./... >/dev/null 2>&1; go test -vet=off -count=1 ./...` for the packages that could be affected AND the root package `.` (the full suite takes minutes; `cmd/nebula-cert` is slow and may be skipped unless you touched cert/). All must pass with your change. Say exactly what you ran.
3. Write a demonstration: a NEW Go test file (in-package, any name like zz_seed_demo_test.go) or small program that FAILS with your change and PASSES without it (verify both; flip with `git diff -- <files> > .scratch/patch.diff; git apply -R .scratch/patch.diff` and `git apply .scratch/patch.diff`; NEVER use `git stash`: the stash is shared by all worktrees of the repository and other engineers are working in sibling worktrees). The demo may use internal APIs; it should exercise the specific circumstance that makes the breakage manifest.
4. Create directory {wt}/SEED containing: patch.diff (`git diff` of the source change only, NOT including the demo), the demo file (copy), and meta.json with keys: property ("{pid}"), summary (what was changed), needs (what specific circumstance is needed to manifest), files_changed, commands_run (what you ran and the results), demo_cmd (exact command to run the demo from the worktree root).
5. Leave the worktree with your source change applied and the demo file in place.
Final message: a short report (change, why the existing tests pass, how the demo shows the breakage).""")
