#!/usr/bin/env python3
"""Regenerates /verif/MANIFEST.json from checks.d/*.json (+ properties.jsonl for the not_applicable remainder)."""
import json, os
V = os.path.dirname(os.path.dirname(os.path.abspath(__file__)))
wip = set(open(os.path.join(V, "checks.d", "_wip.txt")).read().split()) if os.path.exists(os.path.join(V, "checks.d", "_wip.txt")) else set()
reg = {}
for fn in sorted(os.listdir(os.path.join(V, "checks.d"))):
    if fn.endswith(".json") and not fn.startswith("_"):
        spec = json.load(open(os.path.join(V, "checks.d", fn)))
        base = json.load(open(os.path.join(V, "checks.d", "_%s.json" % spec["base"]))) if "base" in spec else {}
        files = base.get("files", []) + spec.get("files", [])
        if fn[:-5] in wip:
            continue
        if all(os.path.exists(os.path.join(V, f)) for f in files) and "run" in spec and "level" in spec:
            reg[fn[:-5]] = dict(base, **spec)
props = [json.loads(l) for l in open(os.path.join(V, "properties.jsonl"))]
na_reasons = json.load(open(os.path.join(V, "not_applicable.json"))) if os.path.exists(os.path.join(V, "not_applicable.json")) else {}
checks = []
for p in props:
    cid = p["id"]
    if cid not in reg:
        continue
    s = reg[cid]
    checks.append({
        "property_id": cid,
        "quick_cmd": "bin/vcheck %s quick" % cid,
        "thorough_cmd": "bin/vcheck %s thorough" % cid,
        "evidence_file": "/verif/evidence/%s.json" % cid,
        "replay_cmd_template": "cat {path}  # self-contained counterexample: signature + input/history/schedule; re-run with bin/vcheck %s quick" % cid,
        "engine": s.get("engine", "E3"),
        "level_claimed": {"category": s["level"], "text": s["text"], "design_ref": "DESIGN.md section 4, " + cid},
        "level_note": s["note"],
        "technique": s["technique"],
    })
na = []
for p in props:
    if p["id"] not in reg:
        na.append({"property_id": p["id"], "reason": na_reasons.get(p["id"], "check still under construction in this revision of /verif (plan: DESIGN.md section 4); nothing is claimed for it yet")})
m = {
    "version": 1,
    "setup_cmd": "bin/vcheck build",
    "hooks": {
        "guard": "verif",
        "enable": "go test -tags verif -overlay <generated.json>: harnesses, shim packages and import-rewritten copies are injected by overlay; no hook is committed to /repo",
        "baseline_off_cmd": "cd /repo && GOFLAGS=-mod=mod GOPROXY=off go test -json -vet=off -count=1 -timeout 25m ./...",
        "source_commits": [],
        "add_only": True,
    },
    "engines": [
        {"name": "E1", "path": "lib/sched", "kind_free_text": "controlled scheduler + preemption-bounded DFS over real sync/atomic operations (import-rewritten)"},
        {"name": "E2", "path": "lib/mc/bfs.go", "kind_free_text": "explicit-state BFS over real objects by history replay"},
        {"name": "E3", "path": "lib/mc/enum.go", "kind_free_text": "bounded-exhaustive choice enumeration (odometer DFS, optional deviation bound) vs reference model"},
        {"name": "E4", "path": "harness/nebula/node_*.go", "kind_free_text": "goroutine-free multi-node network driven event by event"},
    ],
    "checks": checks,
    "not_applicable": na,
    "notes": "All checks are bounded-exhaustive explorations of the real code (no abstract model): every explored transition is an implementation step. Driver: bin/vcheck (see its docstring). Exit 2 = harness broken, never a verdict.",
}
for e in m["engines"]:
    e["serves_properties"] = [c["property_id"] for c in checks if c["engine"] == e["name"]]
json.dump(m, open(os.path.join(V, "MANIFEST.json"), "w"), indent=1)
print("MANIFEST: %d checks, %d not_applicable" % (len(checks), len(na)))
