#!/usr/bin/env python3
"""seedrun.py <seed-id> <check> [<check>...] : run checks against a seeded change kept in /verif/seeded/<seed-id>/patch.diff.
The patch is applied to a scratch copy of the touched /repo files and injected through VERIF_EXTRA_OVERLAY (so /repo is
not modified and concurrently running checks are not disturbed). `--apply` uses `git -C /repo apply` + checkout instead."""
import sys, os, json, subprocess, tempfile, re, shutil
args = [a for a in sys.argv[1:] if not a.startswith("--")]
real = "--apply" in sys.argv
sid, checks = args[0], args[1:]
tier = "thorough" if "--thorough" in sys.argv else "quick"
patch = "/verif/seeded/%s/patch.diff" % sid
files = re.findall(r"^\+\+\+ b/(\S+)", open(patch).read(), re.M)
res = {}
if real:
    subprocess.check_call(["git", "-C", "/repo", "apply", patch])
    try:
        for c in checks:
            p = subprocess.run(["/verif/bin/vcheck", c, tier], capture_output=True, text=True)
            res[c] = (p.returncode, [l for l in p.stdout.split("\n") if "signature" in l][:3])
    finally:
        subprocess.check_call(["git", "-C", "/repo", "checkout", "--", "."])
else:
    d = tempfile.mkdtemp(prefix="seedrun_")
    try:
        subprocess.check_call("cd /repo && git archive HEAD %s | tar -x -C %s" % (" ".join(files), d), shell=True)
        subprocess.check_call(["git", "apply", "--directory", d, "--unsafe-paths", patch], cwd=d) if False else subprocess.check_call("cd %s && patch -p1 -s < %s" % (d, patch), shell=True)
        ov = os.path.join(d, "ov.json")
        json.dump({"Replace": {"/repo/" + f: os.path.join(d, f) for f in files}}, open(ov, "w"))
        for c in checks:
            env = dict(os.environ, VERIF_EXTRA_OVERLAY=ov, VERIF_TIMEOUT_S="900")
            p = subprocess.run(["/verif/bin/vcheck", c, tier], capture_output=True, text=True, env=env)
            res[c] = (p.returncode, [l.strip() for l in p.stdout.split("\n") if "signature" in l][:3])
            if os.environ.get("SEEDRUN_DEBUG"):
                print(p.stdout[-3000:]); print(p.stderr[-1000:])
    finally:
        shutil.rmtree(d, ignore_errors=True)
for c, (rc, sigs) in res.items():
    print("%s vs %s: exit %d %s" % (sid, c, rc, " | ".join(sigs)))
