#!/bin/bash
# seed_confirm.sh <Cxx> <round> : integrator's own confirmation of a seeded change left by a seeding agent in
# /tmp/seed<round>_<Cxx> (SEED/patch.diff, demo, meta.json). In that scratch worktree: reset to HEAD, check that the demo
# PASSES without the patch, apply the patch, check the demo FAILS, run the touched packages' and the root package's
# existing tests (demo moved aside) and then copy SEED to /verif/seeded/<Cxx>_r<round>.
set -u
export GOFLAGS=-mod=mod GOPROXY=off
id=$1; r=$2; wt=/tmp/seed${r}_$id; S=$wt/SEED
cd $wt || exit 2
demo_cmd=$(python3 -c "import json;print(json.load(open('$S/meta.json'))['demo_cmd'])")
demo_cmd=$(echo "$demo_cmd" | sed -e "s#cd $wt *&& *##" -e 's/\bexport [A-Z=a-z,. -]*&& *//')
demos=$(cd $S && ls | grep -v -e patch.diff -e meta.json)
pkgs=$(grep '^+++ b/' $S/patch.diff | sed 's#+++ b/##' | xargs -n1 dirname | sort -u | sed 's#^#./#')
git checkout -q -- . ; git apply -R --check $S/patch.diff 2>/dev/null && git apply -R $S/patch.diff
echo "== demo without patch (must pass): $demo_cmd"
( eval "$demo_cmd" ) > .scratch_confirm_a.log 2>&1; a=$?
git apply $S/patch.diff || { echo "PATCH DOES NOT APPLY"; exit 2; }
echo "== demo with patch (must fail)"
( eval "$demo_cmd" ) > .scratch_confirm_b.log 2>&1; b=$?
echo "== existing tests with patch (demo moved aside): . $pkgs"
mkdir -p .scratch/aside; for f in $demos; do find . -name "$f" -not -path './SEED/*' -not -path './.scratch/*' -exec mv {} .scratch/aside/ \; ; done
go build ./... && go test -vet=off -count=1 . $pkgs > .scratch_confirm_c.log 2>&1; c=$?
tail -5 .scratch_confirm_c.log
echo "RESULT $id r$r: demo_without=$a (want 0) demo_with=$b (want !=0) suite=$c (want 0)"
if [ $a = 0 ] && [ $b != 0 ] && [ $c = 0 ]; then
  d=/verif/seeded/${id}_r$r; mkdir -p $d; cp $S/* $d/
  python3 - <<E
import json
p='$d/meta.json'; m=json.load(open(p))
m['integrator_confirmation']={'demo_without_patch_exit':$a,'demo_with_patch_exit':$b,'existing_tests_with_patch':'go build ./... && go test -vet=off -count=1 . $pkgs -> exit $c','worktree':'$wt'}
json.dump(m,open(p,'w'),indent=1)
E
  echo "KEPT $d"
else echo "NOT KEPT"; fi
